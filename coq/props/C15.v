(* C15 -- packet-protection keys respect AEAD limits and survive key updates.
   Property theorems only; each is closed by [exact] of a lemma proved in proofs/KeySetProofs.v.
   The model (model/KeySet.v) is that of the repaired source: encryption_phase() does not move to
   the next phase, and decrypt_packet() does not rotate, while a key update is in progress. *)
From SQ Require Import lib.Base gen.Gen_C15.
From SQ Require model.KeySet proofs.KeySetProofs proofs.KeySetSync.
From Coq Require Import Sorting.Sorted.
Import KeySet KeySetProofs KeySetSync.
Local Open Scope N_scope.

(* ---- generated constants against RFC 9001 section 6.6 ---- *)
(* AES-GCM suites: confidentiality limit 2^23, integrity limit 2^52 *)
Theorem C15_aes_limits_are_rfc9001 :
  Gen_C15.aes128_conf_limit = 2^23 /\ Gen_C15.aes256_conf_limit = 2^23 /\
  Gen_C15.aes128_integ_limit = 2^52 /\ Gen_C15.aes256_integ_limit = 2^52.
Proof. repeat split; vm_compute; reflexivity. Qed.

(* ChaCha20-Poly1305: integrity limit 2^36; the confidentiality limit "can be disregarded" because
   it exceeds the 2^62 possible packets: the source uses exactly 2^62 *)
Theorem C15_chacha_limits_are_rfc9001 :
  Gen_C15.chacha_integ_limit = 2^36 /\ Gen_C15.chacha_conf_limit = 2^62.
Proof. split; vm_compute; reflexivity. Qed.

(* the update window in force (Limits::default(), which ApplicationSpace::key_limits() returns) is
   10_000 packets: positive and below every confidentiality limit, so the update is started
   strictly before the limit for every suite; the timer granularity is 1 ms *)
Theorem C15_window_below_every_limit :
  Gen_C15.key_update_window = 10000 /\ Gen_C15.default_limits_use_window = 1 /\
  Gen_C15.transport_uses_default_limits = 1 /\ Gen_C15.granularity_us = 1000 /\
  0 < Gen_C15.key_update_window /\
  Gen_C15.key_update_window < Gen_C15.aes128_conf_limit /\
  Gen_C15.key_update_window < Gen_C15.aes256_conf_limit /\
  Gen_C15.key_update_window < Gen_C15.chacha_conf_limit.
Proof. repeat split; vm_compute; reflexivity. Qed.

(* ---- one endpoint, every history (any sequence of seal / open / on_timeout operations, any
   confidentiality limit cl, integrity limit il and window win) ---- *)

(* no generation seals more packets than the confidentiality limit *)
Theorem C15_conf_limit_respected : forall cl il win ops g,
  N.of_nat (count_occ N.eq_dec (enc_gens (ks_new cl il win) ops) g) <= cl.
Proof. exact conf_limit_respected. Qed.

(* at the limit the endpoint refuses (AeadLimitReached) and nothing changes, counters included *)
Theorem C15_refuses_at_limit : forall s,
  k_limit (slot s (encryption_phase s)) <= k_enc (slot s (encryption_phase s)) ->
  encrypt_packet s = (s, EncLimit (encryption_phase s)).
Proof. intros s H. apply refuses_at_limit. apply expired_iff. exact H. Qed.

(* the update is due `window` packets before the limit, strictly before expiry ... *)
Theorem C15_update_window_precedes_expiry : forall k win, 0 < win -> 0 < k_limit k ->
  (needs_update k win = true <-> k_limit k - win < k_enc k) /\
  k_limit k - win < k_limit k /\
  (expired k = true -> needs_update k win = true).
Proof. exact update_window_precedes_expiry. Qed.

(* ... and in every reachable state with no update in progress, an active key inside the window
   makes the next packet go out under the pre-derived next generation *)
Theorem C15_update_before_limit : forall cl il win ops,
  let s := ksteps (ks_new cl il win) ops in
  in_progress s = false -> cl - win < k_enc (active s) ->
  encryption_phase s = negb (phase s) /\ gen_of s (negb (phase s)) = act_gen s + 1.
Proof. exact update_before_limit. Qed.

(* a packet that fails authentication when failures + 1 reaches the integrity limit yields
   AEAD_LIMIT_REACHED, and is counted *)
Theorem C15_integrity_limit_closes : forall s g p pn la pto,
  gen_of s p <> g -> integ s <= failures s + 1 ->
  snd (decrypt_packet s g p pn la pto) = DecLimit /\
  failures (fst (decrypt_packet s g p pn la pto)) = failures s + 1.
Proof. exact integrity_limit_closes. Qed.

(* generations never decrease along the packet numbers -- unconditionally (no spacing_ok) *)
Theorem C15_generation_monotone : forall cl il win ops,
  StronglySorted N.le (enc_gens (ks_new cl il win) ops).
Proof. exact generation_monotone. Qed.

(* every reachable state has the two-slot structure: active = generation a with parity = key
   phase; the other slot holds a+1, or a-1 while the derivation timer is armed *)
Theorem C15_generation_structure : forall cl il win ops,
  inv cl il (ksteps (ks_new cl il win) ops).
Proof. exact reach_inv. Qed.

(* ---- two endpoints over a network that drops, duplicates and reorders (composed model) ----
   _partial: the statement characterises exactly when a genuine packet opens -- iff the receiver
   holds its generation (active; or next, when no update is in progress; or previous, while the
   derivation timer of the last update is still armed = reordering within about one PTO).  (H1), that the
   previous generation stays retained for the timer period whatever the schedule does, is derived
   below (C15_old_generation_retained).  (H2), that the peer does not start the following update
   before this endpoint's derivation timer fired, does NOT follow from the code and is refuted
   below (C15_update_spacing_refuted): KeySet does not wait for an acknowledgement (RFC 9001 6.1).
   Outside ep_holds the packet fails to open. *)
Theorem C15_mutual_decryptability_partial : forall cl il win p ops e i pn g ph,
  let d := dsteps (duo_new cl il win p) ops in
  pick (sent d (negb e)) i = Some (pn, (g, ph)) ->
  is_ok (snd (decrypt_packet (ep d e) g ph pn (largest d e) (now d + pto d))) = ep_holds (ep d e) g.
Proof. exact mutual_decryptability_partial. Qed.

(* H1, derived from the schedule: after endpoint e rotated at time T (delivery i armed its timer),
   whatever is sealed, delivered, forged or timed afterwards, every genuine packet of the previous
   generation still opens as long as the clock is at most T + pto - granularity: reordering across a
   key update is tolerated for the derivation-timer period (here: the configured PTO minus 1 ms) *)
Theorem C15_old_generation_retained : forall cl il win p ops e i ops' j pn g ph,
  let d0 := dsteps (duo_new cl il win p) ops in
  let d1 := fst (dstep d0 (DDeliver e i)) in
  let d2 := dsteps d1 ops' in
  timer (ep d0 e) = None -> in_progress (ep d1 e) = true ->
  now d2 + Gen_C15.granularity_us <= now d0 + pto d0 ->
  pick (sent d2 (negb e)) j = Some (pn, (g, ph)) ->
  g + 1 = act_gen (ep d1 e) ->
  is_ok (snd (decrypt_packet (ep d2 e) g ph pn (largest d2 e) (now d2 + pto d2))) = true.
Proof. exact old_generation_retained. Qed.

(* which generations can be in flight, for every schedule (shorter than 2^48 steps, the number
   reserved for forged packets): the endpoints are never more than one generation apart and a
   genuine packet is at most two generations ahead of its receiver.  Together with
   C15_mutual_decryptability_partial: a genuine packet of generation g fails to open at a receiver
   on generation a only if g + 1 < a (older than the previous generation), or g + 1 = a after the
   timer fired (later than the reordering bound of H1), or g = a + 1 while the receiver's timer is
   armed, or g = a + 2 (both: the peer started the following update too early, see H2). *)
Theorem C15_endpoints_in_step : forall cl il win p ops,
  N.of_nat (length ops) < forged_gen ->
  let d := dsteps (duo_new cl il win p) ops in
  forall e, act_gen (ep d e) <= act_gen (ep d (negb e)) + 1 /\
            forall x, In x (sent d (negb e)) -> fst x <= act_gen (ep d e) + 2.
Proof. exact endpoints_in_step. Qed.

(* H2 is refuted: the code lets an endpoint start the following update as soon as its own timer
   fired, without an acknowledgement in the current phase (RFC 9001 6.1 MUST NOT, 6.5 SHOULD wait
   3 PTO); with limit 4 / window 3 a generation-2 packet delivered in order with zero delay cannot
   be opened by the peer whose timer (armed 100 us later) has not fired yet.  Replayed on two real
   KeySets (duo case 4 40 3 1388 0 0 0 0 0 0 1 1 2 0 1 0 1 2 64 1 0 0 2 fa0 0 1 1 0 2 -> decrypt error). *)
Theorem C15_update_spacing_refuted :
  let ops := [DEnc false; DEnc false; DEnc false; DDeliver true 2; DEnc true; DEnc true;
              DTime 100; DDeliver false 0; DTime 4000; DEnc true] in
  let d := dsteps (duo_new 4 64 3 5000) ops in
  pick (sent d true) 2 = Some (2, (2, false)) /\
  act_gen (ep d false) = 1 /\ in_progress (ep d false) = true /\ in_progress (ep d true) = false /\
  is_ok (snd (decrypt_packet (ep d false) 2 false 2 (largest d false) (now d + pto d))) = false.
Proof. exact update_spacing_refuted. Qed.

(* any number n of complete peer-driven key updates (also beyond 2^16, where the u16 event counter
   wraps): every genuine packet opens, the endpoint ends on generation n with key phase n mod 2 and
   no update pending; the generation reported by the last rotation is n mod 2^16 *)
Theorem C15_survives_any_number_of_updates : forall cl il win n,
  let r := N.iter n rot_cycle {| r_i := 1; r_s := ks_new cl il win; r_done := 0; r_opened := 0; r_last := 0 |} in
  r_opened r = n /\ act_gen (r_s r) = n /\ phase (r_s r) = N.odd n /\ in_progress (r_s r) = false /\
  r_last r = n mod 65536.
Proof. exact rot_survives. Qed.

(* ---- the executable judgements accept every run of the model, for every case ---- *)
Theorem C15_rot_judge_model : forall c, rot_judge c (rot_run c) = true.
Proof. exact rot_judge_run. Qed.

Theorem C15_ks_judge_model : forall c, ks_judge c (ks_run c) = true.
Proof. exact ks_judge_run. Qed.

Theorem C15_duo_judge_model : forall c, duo_judge c (duo_run c) = true.
Proof. exact duo_judge_run. Qed.

(* non-vacuity: limit 5, window 2.  Three packets under generation 0, then generation 1 (update
   initiated); the peer answers in phase 1, the endpoint rotates (timer armed) and -- repaired --
   stays on generation 1 although it is already inside its window; a reordered generation-0 packet
   still opens without rolling back; after the timer generation 2 is used; a sixth packet under
   one generation is refused *)
Example C15_example :
  enc_gens (ks_new 5 9 2)
    [KEnc; KEnc; KEnc; KEnc; KEnc; KEnc; KDec 1 true 7 0 5000; KEnc; KDec 0 false 3 7 9000; KEnc;
     KEnc; KTimeout 9000; KEnc] = [0; 0; 0; 0; 1; 1; 1; 1; 1; 2]
  /\ ks_run [5; 9; 2; 1; 1; 1; 7; 0; 5000; 1; 0; 0; 3; 7; 9000; 0]%Z
     = [1; 1; 1; 1; 0; 1; 1; 0;  0; 0; 1; 1; 0; 1; 1; 0;  0; 1; 1; 1; 1; 1; 1; 1; 0]%Z.
Proof. split; vm_compute; reflexivity. Qed.

Print Assumptions C15_aes_limits_are_rfc9001.
Print Assumptions C15_chacha_limits_are_rfc9001.
Print Assumptions C15_window_below_every_limit.
Print Assumptions C15_conf_limit_respected.
Print Assumptions C15_refuses_at_limit.
Print Assumptions C15_update_window_precedes_expiry.
Print Assumptions C15_update_before_limit.
Print Assumptions C15_integrity_limit_closes.
Print Assumptions C15_generation_monotone.
Print Assumptions C15_generation_structure.
Print Assumptions C15_mutual_decryptability_partial.
Print Assumptions C15_old_generation_retained.
Print Assumptions C15_endpoints_in_step.
Print Assumptions C15_update_spacing_refuted.
Print Assumptions C15_survives_any_number_of_updates.
Print Assumptions C15_rot_judge_model.
Print Assumptions C15_ks_judge_model.
Print Assumptions C15_duo_judge_model.
