(* C06 -- only authentic packets have effect, and each at most once.
   Property theorems only; each is closed by [exact] of a lemma proved in proofs/. *)
From SQ Require Import lib.Base gen.Gen_C06.
From Coq Require String Ascii.
From SQ Require model.HeaderProtection proofs.HeaderProtectionProofs model.Nonce proofs.NonceProofs model.RxPipeline proofs.RxPipelineProofs model.ResetMap proofs.ResetMapProofs.
Import HeaderProtection.
Local Open Scope N_scope.

(* ---- header protection (RFC 9001 section 5.4.1) ---- *)

(* the masks, the header form bit, the mask length and the sample offset the source declares are
   the RFC's: 0x0f (long header), 0x1f (short header), 0x80, 5, pn offset + 4 *)
Theorem C06_hp_constants :
  hp_long_header_mask = 15 /\ hp_short_header_mask = 31 /\ hp_long_header_tag = 128
  /\ hp_mask_len = 5 /\ hp_sample_pn_skip = 4 /\ hp_mask_pn_start = 1 /\ pn_len_mask = 3 /\ pn_len_bias = 1.
Proof. repeat split; reflexivity. Qed.

(* hp_roundtrip, sealing direction, for all masks and all headers: removing the mask from a masked
   packet returns the packet, its packet number (big-endian value of the pn bytes) and the pn
   length named by the (unmasked) first byte; masking changes nothing but the low 4/5 bits of the
   first byte and the pn bytes *)
Theorem C06_hp_roundtrip : forall mask hlen pnlen l,
  (1 <= hlen)%nat -> (hlen + pnlen <= length l)%nat -> pnlen = pn_len_of_tag (hd 0 l) ->
  remove_mask mask hlen (apply_mask mask hlen pnlen l) = (be_decode (pn_bytes hlen pnlen l), pnlen, l)
  /\ same_except hlen pnlen (mask_from_tag (hd 0 l)) l (apply_mask mask hlen pnlen l) = true.
Proof.
  exact (fun mask hlen pnlen l H1 H2 H3 =>
    conj (HeaderProtectionProofs.remove_apply mask hlen pnlen l H1 H2 H3)
         (HeaderProtectionProofs.same_except_apply mask hlen pnlen l H1)).
Qed.

(* hp_roundtrip, opening direction, for arbitrary received bytes: the pn length is read from the
   unmasked first byte, the pn from the unmasked bytes, re-masking gives back the received bytes *)
Theorem C06_hp_roundtrip_open : forall mask hlen d pn n e,
  (1 <= hlen)%nat -> (hlen + 4 <= length d)%nat ->
  remove_mask mask hlen d = (pn, n, e) ->
  n = pn_len_of_tag (hd 0 e) /\ pn = be_decode (pn_bytes hlen n e) /\ apply_mask mask hlen n e = d
  /\ same_except hlen n (mask_from_tag (hd 0 e)) e d = true.
Proof. exact HeaderProtectionProofs.apply_remove. Qed.

(* the same through protect/unprotect with any header protection function and sample length: the
   sample (taken at pn offset + 4) is not touched by the mask, so the opener derives the same mask *)
Theorem C06_hp_unprotect_protect : forall prf slen hlen l p,
  (1 <= hlen)%nat -> (hlen + 4 <= length l)%nat ->
  protect prf slen hlen (pn_len_of_tag (hd 0 l)) l = Some p ->
  unprotect prf slen hlen p
    = Some (be_decode (pn_bytes hlen (pn_len_of_tag (hd 0 l)) l), pn_len_of_tag (hd 0 l), l)
  /\ same_except hlen (pn_len_of_tag (hd 0 l)) (mask_from_tag (hd 0 l)) l p = true.
Proof. exact HeaderProtectionProofs.unprotect_protect. Qed.

Theorem C06_hp_protect_unprotect : forall prf slen hlen d pn n e,
  (1 <= hlen)%nat -> (hlen + 4 <= length d)%nat ->
  unprotect prf slen hlen d = Some (pn, n, e) ->
  n = pn_len_of_tag (hd 0 e) /\ pn = be_decode (pn_bytes hlen n e)
  /\ protect prf slen hlen n e = Some d
  /\ same_except hlen n (mask_from_tag (hd 0 e)) e d = true.
Proof. exact HeaderProtectionProofs.protect_unprotect. Qed.

(* the executable judgement applied to the implementation's outputs accepts every run of the model *)
Theorem C06_hp_judge_model : forall c, HeaderProtection.judge c (HeaderProtection.run c) = true.
Proof. exact HeaderProtectionProofs.judge_run. Qed.

(* non-vacuity: a short-header packet (tag 0x41 -> 2 pn bytes), header of 3 bytes *)
Example C06_hp_example :
  let l := [65; 17; 34; 1; 2; 3; 4; 5; 6; 7; 8; 9; 10; 11; 12; 13; 14; 15; 16; 17; 18; 19; 20; 21; 22; 23; 24; 25] in
  let mask := [255; 170; 187; 204; 221] in
  apply_mask mask 3 2 l = 94 :: 17 :: 34 :: 171 :: 185 :: skipn 5 l
  /\ remove_mask mask 3 (apply_mask mask 3 2 l) = (258, 2%nat, l).
Proof. split; vm_compute; reflexivity. Qed.

(* ---- AEAD nonce (RFC 9001 section 5.3) ---- *)

(* the nonce is 4 zero bytes followed by the 8 byte big-endian packet number, XORed with the iv:
   12 bytes = the iv length of the "quic iv" HkdfLabel *)
Theorem C06_nonce_layout : nonce_pad_bytes = 4 /\ nonce_pn_bytes = 8 /\ Nonce.nonce_len = 12%nat
  /\ nth 1 hkdf_quic_iv_12 0 = 12.
Proof. repeat split; reflexivity. Qed.

Theorem C06_nonce_is_iv_xor_pn : forall iv pn, length iv = 12%nat ->
  Nonce.nonce iv pn = firstn 4 iv ++ xor_mask (Nonce.be_bytes 8 pn) (skipn 4 iv).
Proof. exact NonceProofs.nonce_is_iv_xor_pn. Qed.

(* nonce_injective: under one iv, two packet numbers (below 2^62) never share a nonce *)
Theorem C06_nonce_injective : forall iv p q, p < 2 ^ 62 -> q < 2 ^ 62 ->
  Nonce.nonce iv p = Nonce.nonce iv q -> p = q.
Proof. exact NonceProofs.nonce_injective. Qed.

Theorem C06_nonce_judge_model : forall c, NonceProofs.wf_case c -> Nonce.judge c (Nonce.run c) = true.
Proof. exact NonceProofs.judge_run. Qed.

(* ---- RFC 9001 constants, transcribed here and compared with the values read from the source ---- *)
Module Rfc.
  Import String.
  Definition tls13 : string := "tls13 ".
  Definition quic_key : string := "quic key".
  Definition quic_iv : string := "quic iv".
  Definition quic_hp : string := "quic hp".
  Definition quic_ku : string := "quic ku".
  Definition client_in : string := "client in".
  Definition server_in : string := "server in".
End Rfc.
Definition ascii_bytes (s : String.string) : list N := map Ascii.N_of_ascii (String.list_ascii_of_string s).
(* RFC 8446 section 7.1 HkdfLabel with an empty context: uint16 length, opaque label<7..255> = "tls13 " + label, opaque context<0..255> *)
Definition hkdf_label (len : N) (label : String.string) : list N :=
  let full := ascii_bytes (String.append Rfc.tls13 label) in
  [len / 256; len mod 256; N.of_nat (length full)] ++ full ++ [0].

Theorem C06_rfc9001_initial_salt :
  initial_salt = Nonce.be_bytes 20 0x38762cf7f55934b34d179ae6a4c80cadccbb7f0a.
Proof. vm_compute. reflexivity. Qed.

Theorem C06_rfc9001_labels :
  label_quic_key = ascii_bytes Rfc.quic_key /\ label_quic_iv = ascii_bytes Rfc.quic_iv /\ label_quic_hp = ascii_bytes Rfc.quic_hp
  /\ label_client_in = ascii_bytes Rfc.client_in /\ label_server_in = ascii_bytes Rfc.server_in
  /\ hkdf_client_in = hkdf_label 32 Rfc.client_in /\ hkdf_server_in = hkdf_label 32 Rfc.server_in
  /\ hkdf_quic_key_16 = hkdf_label 16 Rfc.quic_key /\ hkdf_quic_iv_12 = hkdf_label 12 Rfc.quic_iv
  /\ hkdf_quic_hp_16 = hkdf_label 16 Rfc.quic_hp /\ hkdf_quic_ku_16 = hkdf_label 16 Rfc.quic_ku
  /\ hkdf_quic_key_32 = hkdf_label 32 Rfc.quic_key /\ hkdf_quic_hp_32 = hkdf_label 32 Rfc.quic_hp
  /\ hkdf_quic_ku_32 = hkdf_label 32 Rfc.quic_ku /\ hkdf_quic_ku_48 = hkdf_label 48 Rfc.quic_ku.
Proof. vm_compute. repeat split; reflexivity. Qed.

(* non-vacuity: RFC 9001 appendix A.5 iv e0459b3474bdd0e44a41c144, packet number 654360564 -> nonce e0459b3474bdd0e46d417eb0 *)
Example C06_nonce_example :
  Nonce.nonce (Nonce.be_bytes 12 0xe0459b3474bdd0e44a41c144) 654360564 = Nonce.be_bytes 12 0xe0459b3474bdd0e46d417eb0.
Proof. vm_compute. reflexivity. Qed.

(* ---- receive pipeline under the IDEAL-AEAD hypothesis (a premise of each theorem, not proved):
   unprotect -> expand -> AEAD open -> duplicate check (SlidingWindow as a set, width read from the
   source) -> frame processing -> insert.  Header protection, expansion, seal/open are arbitrary
   functions; [peer_sealed] is everything the peer holding the keys ever sealed. ---- *)
Definition ideal_aead (seal : N -> list N -> list N -> list N) (aead_open : N -> list N -> list N -> option (list N))
  (peer_sealed : list (N * list N * list N)) : Prop :=
  forall n a c p, aead_open n a c = Some p <-> (In (n, a, p) peer_sealed /\ c = seal n a p).

Theorem C06_sw_width : sw_window_width = 129 /\ reset_token_len = 16.
Proof. split; reflexivity. Qed.

(* only_authentic_processed: every (pn, payload) handed to frame processing in any history of
   datagrams was sealed by the peer and was carried by one of the datagrams received *)
Theorem C06_only_authentic_processed :
  forall D unprot expand seal aead_open limit peer_sealed, ideal_aead seal aead_open peer_sealed ->
  forall (ds : list D) pn p,
  In (pn, p) (RxPipeline.delivered (RxPipeline.rx_all D unprot expand aead_open limit RxPipeline.init ds)) ->
  exists d lg hdr, In d ds /\ RxPipelineProofs.carries D unprot expand seal peer_sealed lg d pn p
                   /\ In (pn, hdr, p) peer_sealed.
Proof. exact RxPipelineProofs.only_authentic_processed. Qed.

(* processed_at_most_once: in every history each packet number is processed at most once *)
Theorem C06_processed_at_most_once :
  forall D unprot expand seal aead_open limit peer_sealed, ideal_aead seal aead_open peer_sealed ->
  forall (ds : list D) pn,
  (count_occ N.eq_dec (map fst (RxPipeline.delivered (RxPipeline.rx_all D unprot expand aead_open limit RxPipeline.init ds))) pn <= 1)%nat.
Proof. exact RxPipelineProofs.count_processed_le_1. Qed.

(* forged_no_effect: a datagram that does not carry a peer-sealed packet leaves the data handed to
   the application, the ack state, the duplicate window and the expansion base unchanged, is
   reported as dropped, and -- with fewer than integrity_limit failures -- the connection stays open *)
Theorem C06_forged_no_effect :
  forall D unprot expand seal aead_open limit peer_sealed, ideal_aead seal aead_open peer_sealed ->
  forall s (d : D), ~ RxPipelineProofs.authentic D unprot expand seal peer_sealed s d ->
  RxPipeline.closed s = false -> RxPipeline.failures s + 1 < limit ->
  let s' := fst (RxPipeline.rx D unprot expand aead_open limit s d) in
  RxPipeline.delivered s' = RxPipeline.delivered s /\ RxPipeline.acked s' = RxPipeline.acked s
  /\ RxPipeline.window s' = RxPipeline.window s /\ RxPipeline.largest s' = RxPipeline.largest s
  /\ RxPipeline.closed s' = false
  /\ exists code, snd (RxPipeline.rx D unprot expand aead_open limit s d) = (code, None).
Proof. exact RxPipelineProofs.forged_no_effect. Qed.

(* a replayed genuine packet changes neither data, acks, window nor the failure counter *)
Theorem C06_replay_no_effect :
  forall D unprot expand seal aead_open limit peer_sealed, ideal_aead seal aead_open peer_sealed ->
  forall s (d : D) pn p, RxPipelineProofs.carries D unprot expand seal peer_sealed (RxPipeline.largest s) d pn p ->
  In pn (RxPipeline.window s) ->
  let s' := fst (RxPipeline.rx D unprot expand aead_open limit s d) in
  RxPipeline.delivered s' = RxPipeline.delivered s /\ RxPipeline.acked s' = RxPipeline.acked s
  /\ RxPipeline.window s' = RxPipeline.window s /\ RxPipeline.failures s' = RxPipeline.failures s.
Proof. exact RxPipelineProofs.replay_no_effect. Qed.

(* acknowledgement state names exactly the processed packet numbers *)
Theorem C06_acked_are_processed :
  forall D unprot expand seal aead_open limit peer_sealed, ideal_aead seal aead_open peer_sealed ->
  forall (ds : list D),
  map fst (RxPipeline.delivered (RxPipeline.rx_all D unprot expand aead_open limit RxPipeline.init ds))
  = rev (RxPipeline.acked (RxPipeline.rx_all D unprot expand aead_open limit RxPipeline.init ds)).
Proof. exact (fun D u e sl o l ps H ds => RxPipelineProofs.acked_are_delivered D u e sl o l ps H ds RxPipeline.init eq_refl). Qed.

(* reset_only_with_peer_token *)
Theorem C06_reset_only_with_peer_token : forall m d c,
  fst (RxPipeline.on_stateless_reset m d) = Some c ->
  exists t, RxPipeline.last16 d = Some t /\ In (t, c) m /\ (16 <= length d)%nat /\ t = skipn (length d - 16) d.
Proof. exact RxPipelineProofs.reset_only_with_peer_token. Qed.

(* the executable reset judgement accepts every run of the model *)
Theorem C06_reset_judge_model : forall c, RxPipeline.reset_judge c (RxPipeline.reset_run c) = true.
Proof. exact RxPipelineProofs.reset_judge_run. Qed.

(* the executable rxpipe judgement accepts every run of the model, for every case *)
Theorem C06_rxpipe_judge_model : forall c, RxPipeline.judge c (RxPipeline.run c) = true.
Proof. exact RxPipelineProofs.rxpipe_judge_run. Qed.

(* the instance the model executes (copies of sealed packets open, nothing else does) satisfies the
   ideal-AEAD hypothesis, so the theorems above apply to the runs compared with the implementation *)
Theorem C06_exec_instance_is_ideal : forall tbl,
  ideal_aead RxPipeline.x_seal (RxPipeline.x_open tbl) (RxPipeline.x_sealed tbl).
Proof. exact RxPipelineProofs.x_instance_ideal. Qed.

(* the glue the harness mirrors: application.rs returns a connection error of decrypt_packet from the
   duplicate branch too (shape read from the source; absent constant = this stops compiling) *)
Theorem C06_dup_branch_propagates_connection_error : dup_branch_propagates_connection_error = 1.
Proof. reflexivity. Qed.

(* the connection is closed exactly when the integrity limit has been reached -- whatever packet
   numbers the failing datagrams carried (also forged copies of processed packet numbers) *)
Theorem C06_closed_iff_limit :
  forall D unprot expand aead_open limit, 0 < limit -> forall (ds : list D),
  RxPipeline.closed (RxPipeline.rx_all D unprot expand aead_open limit RxPipeline.init ds) = true
  <-> limit <= RxPipeline.failures (RxPipeline.rx_all D unprot expand aead_open limit RxPipeline.init ds).
Proof. exact RxPipelineProofs.closed_iff_limit. Qed.

(* once closed nothing is processed or counted *)
Theorem C06_closed_is_final : forall D unprot expand aead_open limit s (d : D), RxPipeline.closed s = true ->
  RxPipeline.rx D unprot expand aead_open limit s d = (s, (5%Z, None)).
Proof. exact RxPipelineProofs.closed_is_final. Qed.

(* non-vacuity: packets 10 and 11 sealed, integrity limit 3; #0 delivered; garbled copies of the
   already processed #0: the third one reaches the limit and closes the connection (6) although its
   packet number is a duplicate; everything after that is 5 *)
Example C06_rxpipe_example :
  let c := [7; 8; 3; 0; 10; 2; 3; 1; 2; 3; 0; 11; 2; 3; 6; 5; 4; 1; 0;
            2; 0; 27; 1; 2; 0; 27; 1; 2; 0; 27; 1; 2; 0; 27; 1; 2; 1; 27; 1; 1; 1]%Z in
  RxPipeline.run c = [0; 10; 3; 1; 2; 3; 1; 1; 6; 5; 5; 5]%Z.
Proof. vm_compute. reflexivity. Qed.

(* reset map shared by several connections (real PeerIdRegistry + ConnectionIdMapper through the hook;
   registration by transport parameter / NEW_CONNECTION_ID, use, retirement by retire_prior_to +
   acknowledged RETIRE_CONNECTION_ID, drop): whenever every mapping of the map was registered by the
   peer for its connection ([sound]), a datagram is matched to connection i only if its last 16
   bytes are a token registered for i.  [sound] holds in every reachable state: it is part of the
   invariant [ResetMapProofs.inv] (inv_init; preserved by every operation inside judge_run_ops). *)
Theorem C06_resetmap_lookup_sound : forall m regs d i, ResetMapProofs.sound m regs ->
  fst (RxPipeline.on_stateless_reset m d) = Some i ->
  exists t, RxPipeline.last16 d = Some t /\ In (i, t) regs.
Proof. exact ResetMapProofs.lookup_sound. Qed.

(* for every history of operations the executable judgement (a match names a token registered for
   that connection earlier in the history) accepts the model's output *)
Theorem C06_resetmap_judge_model : forall c, ResetMap.judge c (ResetMap.run c) = true.
Proof. exact ResetMapProofs.judge_run. Qed.

(* non-vacuity: a token announced by NEW_CONNECTION_ID matches only after its id is taken into use,
   matches once; a token registered by a second connection maps to that connection and is forgotten
   when the connection is dropped; a retired id's token is forgotten once the retirement is acknowledged *)
Example C06_resetmap_example :
  let d := fun t : Z => ([4; 21; 64; 1; 2; 3; 4]%Z ++ map Nz (ResetMap.tok_bytes (zN t))) in
  ResetMap.run ([0; 1; 1000; 1; 0; 1; 77]%Z ++ d 77%Z ++ [2; 0]%Z ++ d 77%Z ++ d 77%Z ++ [0; 1; 1000]%Z ++ d 1000%Z
                ++ [3; 1]%Z ++ d 1000%Z) = [0; 0; 1; 1; 0; 2; 0; 0]%Z
  /\ ResetMap.run ([0; 1; 1000; 5; 0; 1; 77; 2; 0; 6; 0; 1; 7; 0; 1]%Z ++ d 1000%Z ++ d 77%Z) = [0; 1; 1; 0; 0; 1]%Z
  /\ ResetMap.run ([0; 1; 1000; 5; 0; 1; 77; 2; 0; 6; 0; 1]%Z ++ d 1000%Z) = [0; 1; 1; 1]%Z.
Proof. repeat split; vm_compute; reflexivity. Qed.

Print Assumptions C06_hp_constants.
Print Assumptions C06_hp_roundtrip.
Print Assumptions C06_hp_roundtrip_open.
Print Assumptions C06_hp_unprotect_protect.
Print Assumptions C06_hp_protect_unprotect.
Print Assumptions C06_hp_judge_model.
Print Assumptions C06_nonce_layout.
Print Assumptions C06_nonce_is_iv_xor_pn.
Print Assumptions C06_nonce_injective.
Print Assumptions C06_nonce_judge_model.
Print Assumptions C06_rfc9001_initial_salt.
Print Assumptions C06_rfc9001_labels.
Print Assumptions C06_sw_width.
Print Assumptions C06_only_authentic_processed.
Print Assumptions C06_processed_at_most_once.
Print Assumptions C06_forged_no_effect.
Print Assumptions C06_replay_no_effect.
Print Assumptions C06_acked_are_processed.
Print Assumptions C06_reset_only_with_peer_token.
Print Assumptions C06_reset_judge_model.
Print Assumptions C06_rxpipe_judge_model.
Print Assumptions C06_exec_instance_is_ideal.
Print Assumptions C06_dup_branch_propagates_connection_error.
Print Assumptions C06_closed_iff_limit.
Print Assumptions C06_closed_is_final.
Print Assumptions C06_resetmap_lookup_sound.
Print Assumptions C06_resetmap_judge_model.
