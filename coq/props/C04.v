(* C04 -- peer protocol violations are rejected with the right error; buffering is bounded.
   Property theorems only; each is closed by [exact] of a lemma proved in proofs/. *)
From SQ Require Import lib.Base gen.Gen_C04.
From SQ Require model.FramePerm proofs.FramePermProofs.
From SQ Require model.FlowRecv model.FlowRecvSpec proofs.FlowRecvProofs.
From SQ Require model.StreamCtl model.StreamCtlSpec proofs.StreamCtlProofs.
From SQ Require model.FrameVal proofs.FrameValProofs.
From SQ Require model.CryptoRecv proofs.CryptoRecvProofs.
Local Open Scope N_scope.

(* ---- component "matrix": frame kind x packet-number space ---- *)

(* for every packet-number space and every frame kind of RFC 9000 Table 3 (plus DATAGRAM, RFC 9221)
   the space's frame dispatch in space/*.rs accepts the kind iff Table 3 permits it there *)
Theorem C04_frame_matrix_is_rfc : forall sp k, In sp FramePerm.spaces -> In k FramePerm.rfc_kinds ->
  FramePerm.lookup_allowed sp k Gen_C04.frame_allowed = Some (FramePerm.rfc9000_table3 sp k).
Proof. exact FramePermProofs.frame_matrix_is_rfc. Qed.

Theorem C04_frame_matrix_rows : Gen_C04.frame_allowed = FramePerm.rfc_rows.
Proof. exact FramePermProofs.frame_rows_are_rfc. Qed.

(* in the application space a server (and only a server) additionally rejects exactly NEW_TOKEN and
   HANDSHAKE_DONE (RFC 9000 19.7, 19.20) *)
Theorem C04_server_rejects_is_rfc : Gen_C04.server_rejects = FramePerm.rfc_server_rows.
Proof. exact FramePermProofs.server_rejects_is_rfc. Qed.

(* every path that rejects a frame kind in a space uses PROTOCOL_VIOLATION (0x0a), RFC 9000 12.4 *)
Theorem C04_reject_code_is_protocol_violation :
  Gen_C04.frame_reject_codes = [FramePerm.rfc_protocol_violation]
  /\ Gen_C04.code_protocol_violation = FramePerm.rfc_protocol_violation.
Proof. exact FramePermProofs.reject_code_is_protocol_violation. Qed.

(* ---- component "rx": receive-side flow control and final size ---- *)

(* the error codes the source declares are the RFC 9000 section 20.1 values *)
Theorem C04_codes_are_rfc :
  code_flow_control_error = 3 /\ code_final_size_error = 6 /\ code_stream_limit_error = 4
  /\ code_stream_state_error = 5 /\ code_frame_encoding_error = 7 /\ code_protocol_violation = 10.
Proof. exact FlowRecvProofs.codes_are_rfc. Qed.

(* A STREAM frame arriving on an open receive half (state Receiving) in any state satisfying the
   invariant (which every reachable state does, see C04_advertised_credit_bound's proof) is
   rejected exactly when it violates an RFC rule -- offset+length above 2^62-1 (19.8); beyond
   consumed + stream window or, counting every stream's highest offset, beyond consumed +
   connection window (4.1); final size changed / exceeded / below data already received (4.5) --
   and then with FLOW_CONTROL_ERROR (3) resp. FINAL_SIZE_ERROR (6) for a rule that is actually
   broken; an error leaves the state (and what the application can read) untouched, since the
   step returns no new state.  Otherwise it is accepted and the invariant is kept. *)
Theorem C04_rx_rejects_exactly : forall s c off len fin tag,
  FlowRecvProofs.SInv s -> FlowRecvProofs.CInv c -> FlowRecv.rst s = FlowRecv.Receiving ->
  match FlowRecv.on_data s c off len fin tag with
  | FlowRecv.RErr code => FlowRecvProofs.violates s c off len fin
                          /\ FlowRecvProofs.permitted_code s c off len fin code
  | FlowRecv.ROk s' c' => ~ FlowRecvProofs.violates s c off len fin
                          /\ FlowRecvProofs.SInv s' /\ FlowRecvProofs.CInv c'
  | FlowRecv.RPanic => False
  end.
Proof. exact FlowRecvProofs.rx_rejects_exactly. Qed.

(* RESET_STREAM on a stream that is receiving or whose application has sent STOP_SENDING: rejected
   exactly when the final size differs from an established one (FINAL_SIZE_ERROR, 6) or -- no
   final size established -- exceeds consumed + stream window or pushes the connection total
   beyond consumed + connection window (FLOW_CONTROL_ERROR, 3).  A final size below data already
   received is NOT among the reasons: C04_reset_below_received_accepted exhibits it (known
   finding reset_final_size_below_received). *)
Theorem C04_reset_rejects_exactly : forall s c size,
  FlowRecvProofs.SInv s -> FlowRecvProofs.CInv c ->
  (FlowRecv.rst s = FlowRecv.Receiving \/ exists a b d, FlowRecv.rst s = FlowRecv.Stopping a b d) ->
  match FlowRecv.init_reset s c (Some size) with
  | inr code => FlowRecvProofs.reset_violates s c size
                /\ (code = 6 <-> (FlowRecv.rst s = FlowRecv.Receiving /\ exists total, FlowRecv.fin_ s = Some total))
                /\ (code = 3 \/ code = 6)
  | inl (s', c') => ~ FlowRecvProofs.reset_violates s c size /\ FlowRecvProofs.SInv s' /\ FlowRecvProofs.CInv c'
  end.
Proof. exact FlowRecvProofs.reset_rejects_exactly. Qed.

Theorem C04_reset_below_received_accepted :
  exists s c size, FlowRecvProofs.SInv s /\ FlowRecvProofs.CInv c /\ FlowRecv.rst s = FlowRecv.Receiving
                   /\ size < FlowRecv.maxrecv s
                   /\ exists s' c', FlowRecv.init_reset s c (Some size) = inl (s', c').
Proof. exact FlowRecvProofs.reset_below_received_accepted. Qed.

(* For every operation sequence (frames, reads, stop_sending, transmissions, ack, loss, in any
   order, whether or not a frame closed the connection) and all u32 windows: the connection
   credit on offer (the value any MAX_DATA carries) is at most consumed + connection window; per
   stream the credit on offer (the value any MAX_STREAM_DATA carries) is at most released + stream
   window, where released = bytes handed to the application while the stream is receiving; and the
   span of buffered data (highest received offset - consumed) is at most the stream window, so no
   peer can make a stream buffer more than its window. *)
Theorem C04_advertised_credit_bound : forall ws wl wc ops,
  ws <= u32_max -> wl <= u32_max -> wc <= u32_max ->
  let m := FlowRecvProofs.exec (FlowRecv.minit ws wl wc) ops in
  FlowRecv.latest (FlowRecv.csync (FlowRecv.conn m))
    <= FlowRecv.ccons (FlowRecv.conn m) + FlowRecv.cwin (FlowRecv.conn m)
  /\ Forall (fun s =>
        FlowRecv.latest (FlowRecv.rsync s) <= FlowRecv.rel s + FlowRecv.swin s
        /\ (FlowRecv.rst s = FlowRecv.Receiving ->
              FlowRecv.rel s = FlowRecv.cons s
              /\ FlowRecv.maxrecv s - FlowRecv.cons s <= FlowRecv.swin s
              /\ Forall (fun x => fst (fst x) < snd (fst x)) (FlowRecv.segs s))) (FlowRecv.strs m).
Proof. exact FlowRecvProofs.advertised_credit_bound. Qed.

(* what a transmission writes into a MAX_DATA / MAX_STREAM_DATA frame is that credit on offer *)
Theorem C04_transmitted_value : forall s pn v,
  fst (FlowRecv.ivs_transmit s pn) = Some v -> v = FlowRecv.latest s.
Proof. exact FlowRecvProofs.transmitted_value. Qed.

(* non-vacuity: window 10/100; 10 bytes arrive, the application reads them, the window slides to
   20 (MAX_STREAM_DATA 20, MAX_DATA 110 are transmitted), byte 20 is accepted, byte 21 is refused
   with FLOW_CONTROL_ERROR and nothing more is delivered; and the judgement accepts this run *)
Example C04_example :
  FlowRecv.run [10; 10; 100; 1; 0; 0; 10; 0; 3; 0; 10; 5; 1; 0; 10; 10; 0; 1; 0; 20; 1; 0]%Z
    = [0; 10; 0; 1; 1; 10; 110; 20; -1; -1; -1; 0; 3; -1; -1; -1; -1]%Z
  /\ FlowRecvSpec.judge [10; 10; 100; 1; 0; 0; 10; 0; 3; 0; 10; 5; 1; 0; 10; 10; 0; 1; 0; 20; 1; 0]%Z
        [0; 10; 0; 1; 1; 10; 110; 20; -1; -1; -1; 0; 3; -1; -1; -1; -1]%Z = true.
Proof. split; vm_compute; reflexivity. Qed.

(* ---- component "st": stream limits and stream states ---- *)

(* A frame of kind k for the n-th stream of class t is rejected exactly when: the stream is locally
   initiated and the application has not opened it (STREAM_STATE_ERROR, 5); it would create a
   peer-initiated stream at or beyond the MAX_STREAMS value on offer (STREAM_LIMIT_ERROR, 4);
   or it is a MAX_STREAM_DATA for an existing receive-only stream (STREAM_STATE_ERROR).  Every
   other frame is accepted -- including receive-type frames on a send-only stream and
   STOP_SENDING on a receive-only stream, which RFC 9000 19.4/19.5/19.8/19.13 want rejected:
   see C04_st_judge_strict_refuted. *)
Theorem C04_streams_rejects_exactly : forall s t n k,
  StreamCtl.opn (StreamCtl.rb s) <= FlowRecv.latest (StreamCtl.sy (StreamCtl.rb s)) ->
  match snd (StreamCtl.sframe s t n k) with
  | Some code => StreamCtlProofs.srejects s t n k code
  | None => forall code, ~ StreamCtlProofs.srejects s t n k code
  end.
Proof. exact StreamCtlProofs.streams_rejects_exactly. Qed.

(* For every operation sequence and all limits up to 2^60: a MAX_STREAMS frame carries at most
   closed + limit streams (closed = peer streams of that type whose end the application has
   seen), and at most 2^60. *)
Theorem C04_max_streams_bound : forall lb lu ops,
  lb <= StreamCtl.max_streams_max -> lu <= StreamCtl.max_streams_max ->
  let s := StreamCtlProofs.sexec (StreamCtl.sinit lb lu) ops in
  forall vb vu s', StreamCtl.sstep s StreamCtl.STransmit = (s', [vb; vu], false) ->
  (vb = (-1)%Z \/ exists v, vb = Nz v /\ v <= StreamCtl.cls (StreamCtl.rb s) + StreamCtl.lim (StreamCtl.rb s)
                           /\ v <= StreamCtl.max_streams_max)
  /\ (vu = (-1)%Z \/ exists v, vu = Nz v /\ v <= StreamCtl.cls (StreamCtl.ru s) + StreamCtl.lim (StreamCtl.ru s)
                              /\ v <= StreamCtl.max_streams_max).
Proof. exact StreamCtlProofs.max_streams_bound. Qed.

(* the faithful model does NOT satisfy the strict judgement: a STREAM frame for a send-only
   (locally opened unidirectional) stream is accepted.  The witness is replayed on the
   implementation by the fixed family of component "st" (known finding
   wrong_direction_stream_frame_accepted). *)
Theorem C04_st_judge_strict_refuted :
  exists c, StreamCtlSpec.sjudge c (StreamCtl.srun c) = false /\ StreamCtlSpec.sjudge_tolerant c (StreamCtl.srun c) = true.
Proof. exists [1; 5; 5; 2; 0; 1; 3; 0; 0]%Z. split; vm_compute; reflexivity. Qed.

(* likewise for "rx": RESET_STREAM with a final size below received data is accepted by the
   faithful model (known finding reset_final_size_below_received) *)
Theorem C04_rx_judge_strict_refuted :
  exists c, FlowRecvSpec.judge c (FlowRecv.run c) = false /\ FlowRecvSpec.judge_tolerant c (FlowRecv.run c) = true.
Proof. exists [100; 100; 200; 1; 0; 0; 10; 0; 2; 0; 5]%Z. split; vm_compute; reflexivity. Qed.

Example C04_st_example :
  StreamCtl.srun [1; 2; 2; 1; 1; 0; 1; 3; 1; 0; 5; 1; 1; 2; 0; 1; 1; 3; 0]%Z = [0; 1; -1; 3; 0; 4]%Z
  /\ StreamCtlSpec.sjudge [1; 2; 2; 1; 1; 0; 1; 3; 1; 0; 5; 1; 1; 2; 0; 1; 1; 3; 0]%Z [0; 1; -1; 3; 0; 4]%Z = true.
Proof. split; vm_compute; reflexivity. Qed.

(* ---- component "fv": malformed limit values ---- *)

(* for all values: the decoders of MAX_STREAMS / STREAMS_BLOCKED / NEW_CONNECTION_ID (as modelled)
   accept exactly the well-formed frames (value <= 2^60; retire_prior_to <= sequence number and
   connection id length in 1..20) and reject the others with PROTOCOL_VIOLATION, which RFC 9000
   section 11 permits in place of FRAME_ENCODING_ERROR *)
Theorem C04_fv_judge_model : forall c, FrameVal.fv_judge c (FrameVal.fv_run c) = true.
Proof. exact FrameValProofs.fv_judge_run. Qed.

(* ---- component "crypto": the CRYPTO receive buffer ---- *)

(* the limit the source declares is 128 KiB (at least the 4096 bytes RFC 9000 7.5 requires), and
   the error code is CRYPTO_BUFFER_EXCEEDED = 0x0d *)
Theorem C04_crypto_limit_is_128k :
  crypto_rx_limit = 131072 /\ 4096 <= crypto_rx_limit /\ code_crypto_buffer_exceeded = 13.
Proof. exact CryptoRecvProofs.limit_is_128k. Qed.

(* a CRYPTO frame is rejected (CRYPTO_BUFFER_EXCEEDED) exactly when it reaches beyond 2^62-1 or
   beyond consumed + limit *)
Theorem C04_crypto_rejects_exactly : forall s off len,
  CryptoRecv.on_crypto s off len = None <->
  (varint_max < off + len \/ CryptoRecv.ccon s + CryptoRecv.LIMIT < off + len).
Proof. exact CryptoRecvProofs.crypto_rejects_exactly. Qed.

(* for every sequence of CRYPTO frames and TLS reads: the received-but-not-consumed span, every
   buffered byte, and the in-order bytes waiting for TLS stay within the limit *)
Theorem C04_crypto_buffer_bound : forall ops,
  let s := CryptoRecvProofs.cexec ops in
  CryptoRecv.cmax s - CryptoRecv.ccon s <= CryptoRecv.LIMIT
  /\ Forall (fun x => snd (fst x) <= CryptoRecv.ccon s + CryptoRecv.LIMIT /\ fst (fst x) < snd (fst x)) (CryptoRecv.csegs s)
  /\ CryptoRecv.buffered_in_order s <= CryptoRecv.LIMIT.
Proof. exact CryptoRecvProofs.crypto_buffer_bound. Qed.

(* the executable judgement (from the operations and the answers alone) accepts every run of the model *)
Theorem C04_crypto_judge_model : forall c, CryptoRecv.cjudge c (CryptoRecv.crun c) = true.
Proof. exact CryptoRecvProofs.cjudge_run. Qed.

Print Assumptions C04_frame_matrix_is_rfc.
Print Assumptions C04_frame_matrix_rows.
Print Assumptions C04_server_rejects_is_rfc.
Print Assumptions C04_reject_code_is_protocol_violation.
Print Assumptions C04_codes_are_rfc.
Print Assumptions C04_rx_rejects_exactly.
Print Assumptions C04_advertised_credit_bound.
Print Assumptions C04_transmitted_value.
Print Assumptions C04_streams_rejects_exactly.
Print Assumptions C04_max_streams_bound.
Print Assumptions C04_st_judge_strict_refuted.
Print Assumptions C04_rx_judge_strict_refuted.
Print Assumptions C04_reset_rejects_exactly.
Print Assumptions C04_reset_below_received_accepted.
Print Assumptions C04_fv_judge_model.
Print Assumptions C04_crypto_limit_is_128k.
Print Assumptions C04_crypto_rejects_exactly.
Print Assumptions C04_crypto_buffer_bound.
Print Assumptions C04_crypto_judge_model.
