(* C18 -- dc: packets round-trip and only authenticated packets are acted upon.
   Property theorems only; each is closed by [exact] of a lemma proved in proofs/. *)
From SQ Require Import lib.Base lib.DcBytes gen.Gen_C18.
From SQ Require model.DcPacket proofs.DcPacketProofs model.DcMap proofs.DcMapProofs model.DcKeys proofs.DcKeysProofs.
Import DcPacket.
Local Open Scope N_scope.

(* the constants the reference layout uses are the ones the source declares *)
Theorem C18_sc_constants :
  Gen_C18.unknown_path_secret = 96 /\ Gen_C18.stale_key = 97 /\ Gen_C18.replay_detected = 98 /\
  Gen_C18.sc_has_queue_id = 4 /\ Gen_C18.tag_len = 16 /\ Gen_C18.credential_id_len = 16 /\
  Gen_C18.sc_max_packet_size = 64.
Proof. exact DcPacketProofs.sc_constants. Qed.

(* secret control (UnknownPathSecret, StaleKey, ReplayDetected; with and without queue id):
   what was encoded decodes back, with the header slice the MAC covers and the tag, whatever follows *)
Theorem C18_sc_roundtrip : forall p tag rest, sc_wf p -> length tag = tag_len ->
  sc_decode (sc_encode p tag ++ rest) = Some (sc_header p, p, tag, rest).
Proof. exact DcPacketProofs.sc_roundtrip. Qed.

(* a successful decode splits the input into header ++ tag ++ rest and the value is the parse of
   the header slice alone (no byte outside the authenticated header influences it) *)
Theorem C18_sc_decode_spec : forall bs h v t rest,
  sc_decode bs = Some (h, v, t, rest) ->
  bs = h ++ t ++ rest /\ length t = tag_len /\ sc_kind v < 3 /\
  sc_decode_value (sc_kind v) h = Some (v, []).
Proof. exact DcPacketProofs.sc_decode_spec. Qed.

(* decoders are total functions on byte strings; what they return is well formed and in bounds *)
Theorem C18_sc_decode_wf : forall bs h v t rest, wf_bytes bs = true ->
  sc_decode bs = Some (h, v, t, rest) ->
  sc_wf v /\ wf_bytes h = true /\ wf_bytes t = true /\ wf_bytes rest = true /\
  (length h + length t + length rest = length bs)%nat.
Proof. exact DcPacketProofs.sc_decode_wf. Qed.

Theorem C18_sc_parse_injective : forall bs bs' h v t h' v' t' rest,
  sc_decode bs = Some (h, v, t, rest) -> sc_decode bs' = Some (h', v', t', rest) ->
  bs <> bs' -> (h, t) <> (h', t').
Proof. exact DcPacketProofs.sc_parse_injective. Qed.

Theorem C18_sc_value_of_header : forall bs bs' h v t v' t' rest rest',
  sc_decode bs = Some (h, v, t, rest) -> sc_decode bs' = Some (h, v', t', rest') -> v = v'.
Proof. exact DcPacketProofs.sc_value_of_header. Qed.

(* ideal MAC (premise [ideal]: whatever verifies was produced by the key holder): a byte string
   whose (header, tag) was not produced by the key holder is rejected ... *)
Theorem C18_sc_unsigned_rejected : forall (verify : list N -> list N -> bool) (signed : list N -> list N -> Prop),
  (forall h t, verify h t = true -> signed h t) ->
  forall bs h v t rest,
  sc_decode bs = Some (h, v, t, rest) -> ~ signed h t -> DcPacketProofs.sc_authenticate verify bs = None.
Proof. exact DcPacketProofs.sc_unsigned_rejected. Qed.

(* ... so every change of header or tag bytes (and every truncation) of the one packet that was
   sent is rejected ... *)
Theorem C18_sc_tamper_rejected : forall (verify : list N -> list N -> bool) (signed : list N -> list N -> Prop),
  (forall h t, verify h t = true -> signed h t) ->
  forall p tag bs,
  sc_wf p -> length tag = tag_len ->
  (forall h t, signed h t -> h = sc_header p /\ t = tag) ->
  bs <> sc_encode p tag -> (length bs <= length (sc_encode p tag))%nat ->
  DcPacketProofs.sc_authenticate verify bs = None.
Proof. exact DcPacketProofs.sc_tamper_rejected. Qed.

(* ... and what is accepted carries exactly the encoded value *)
Theorem C18_sc_authentic_value : forall (verify : list N -> list N -> bool) (signed : list N -> list N -> Prop),
  (forall h t, verify h t = true -> signed h t) ->
  forall p tag bs v,
  sc_wf p -> length tag = tag_len ->
  (forall h t, signed h t -> h = sc_header p /\ t = tag) ->
  DcPacketProofs.sc_authenticate verify bs = Some v -> v = p.
Proof. exact DcPacketProofs.sc_authentic_value. Qed.

(* the model of the secret-control harness satisfies the executable property wherever its own
   authentication verdicts are the ones demanded (sc_exh_ok) ... *)
Theorem C18_sc_judge_model : forall case, sc_exh_ok case = true -> sc_judge case (sc_run case) = true.
Proof. exact DcPacketProofs.sc_judge_run. Qed.

(* ... that is the case for every StaleKey / ReplayDetected case (HMAC over the whole header) ... *)
Theorem C18_sc_exh_ok_hmac : forall case,
  sc_kind (fst (sc_case_pkt (tl case))) <> 0 -> sc_exh_ok case = true.
Proof. exact DcPacketProofs.sc_exh_ok_hmac. Qed.

(* ... which is NOT the case for UnknownPathSecret packets that carry a queue id: their tag is the
   stateless-reset tag of the credential id and does not cover the queue id bytes (full statement
   "judge (run c) = true for all c" refuted by a witness, replayed on the implementation by the
   fixed family of tools/props_C18.py; recorded as known finding ups_queue_id_unauthenticated) *)
Theorem C18_sc_ups_queue_refuted : exists case, sc_judge case (sc_run case) = false.
Proof. exact DcPacketProofs.sc_ups_queue_refuted. Qed.

(* non-vacuity of sc_exh_ok beyond the HMAC kinds: an UnknownPathSecret packet without queue id
   (all 255 x 18 single-byte mutations of its header evaluated by vm_compute), and a StaleKey *)
Example C18_example_sc_exh_ok :
  sc_exh_ok [0; 0; 0; 7; 0; 5; 0; 1; 2; 3; 4; 5; 6; 7; 8; 9; 10; 11; 12; 13; 14; 15; 16; 1; 18; 1; 0]%Z = true /\
  sc_exh_ok [0; 1; 1; 7; 1; 16384; 64; 1; 2; 3; 4; 5; 6; 7; 8; 9; 10; 11; 12; 13; 14; 15; 16; 2; 3; 1; 3; 1; 0]%Z = true.
Proof. split; vm_compute; reflexivity. Qed.

(* ---- stream, datagram, control packets *)
Theorem C18_pkt_constants :
  Gen_C18.stream_tag_default = 0 /\ Gen_C18.stream_tag_min = 0 /\ Gen_C18.stream_tag_max = 63 /\
  Gen_C18.stream_has_source_queue_id = 32 /\ Gen_C18.stream_is_recovery_packet = 16 /\
  Gen_C18.stream_has_control_data = 8 /\ Gen_C18.stream_has_final_offset = 4 /\
  Gen_C18.stream_has_application_header = 2 /\ Gen_C18.stream_key_phase = 1 /\
  Gen_C18.datagram_tag_default = 64 /\ Gen_C18.datagram_tag_min = 64 /\ Gen_C18.datagram_tag_max = 79 /\
  Gen_C18.datagram_ack_eliciting = 8 /\ Gen_C18.datagram_is_connected = 4 /\
  Gen_C18.datagram_has_application_header = 2 /\ Gen_C18.datagram_key_phase = 1 /\
  Gen_C18.control_tag_default = 80 /\ Gen_C18.control_tag_min = 80 /\ Gen_C18.control_tag_max = 95 /\
  Gen_C18.control_has_source_queue_id = 8 /\ Gen_C18.control_is_stream = 4 /\
  Gen_C18.control_has_application_header = 2 /\ Gen_C18.aead_tag_len = 16.
Proof. exact DcPacketProofs.pkt_constants. Qed.

(* every optional field present or absent (tag bits), any ciphertext / tag bytes, any continuation *)
Theorem C18_stream_roundtrip : forall p ct tag rest, st_wf p -> lenN ct = st_plen p -> length tag = tag_len ->
  st_decode (st_encode p ct tag ++ rest) = Some (st_dec_of p, st_header p, ct, tag, rest).
Proof. exact DcPacketProofs.st_roundtrip. Qed.

Theorem C18_datagram_roundtrip : forall p ct tag rest, dg_wf p -> lenN ct = dg_plen p -> length tag = tag_len ->
  dg_decode (dg_encode p ct tag ++ rest) = Some (dg_dec_of p, dg_header p, ct, tag, rest).
Proof. exact DcPacketProofs.dg_roundtrip. Qed.

Theorem C18_control_roundtrip : forall p tag rest, ct_wf p -> length tag = tag_len ->
  ct_decode (ct_encode p tag ++ rest) = Some (ct_dec_of p, ct_header p, tag, rest).
Proof. exact DcPacketProofs.ct_roundtrip. Qed.

(* parse injectivity: a decode splits the input into header ++ payload ++ tag ++ rest, and the
   fields are the parse of the header slice alone *)
Theorem C18_stream_decode_spec : forall bs d h pl tg rest,
  st_decode bs = Some (d, h, pl, tg, rest) ->
  bs = h ++ pl ++ tg ++ rest /\ length tg = tag_len /\ st_parse h = Some ((d, lenN pl), []).
Proof. exact DcPacketProofs.st_decode_spec. Qed.

Theorem C18_datagram_decode_spec : forall bs d h pl tg rest,
  dg_decode bs = Some (d, h, pl, tg, rest) ->
  bs = h ++ pl ++ tg ++ rest /\ length tg = tag_len /\ dg_parse h = Some ((d, lenN pl), []).
Proof. exact DcPacketProofs.dg_decode_spec. Qed.

Theorem C18_control_decode_spec : forall bs d h tg rest,
  ct_decode bs = Some (d, h, tg, rest) ->
  bs = h ++ tg ++ rest /\ length tg = tag_len /\ ct_parse h = Some (d, []).
Proof. exact DcPacketProofs.ct_decode_spec. Qed.

Theorem C18_stream_parse_injective : forall bs bs' d h pl tg d' h' pl' tg' rest,
  st_decode bs = Some (d, h, pl, tg, rest) -> st_decode bs' = Some (d', h', pl', tg', rest) ->
  bs <> bs' -> (h, pl, tg) <> (h', pl', tg').
Proof. exact DcPacketProofs.st_parse_injective. Qed.

Theorem C18_datagram_parse_injective : forall bs bs' d h pl tg d' h' pl' tg' rest,
  dg_decode bs = Some (d, h, pl, tg, rest) -> dg_decode bs' = Some (d', h', pl', tg', rest) ->
  bs <> bs' -> (h, pl, tg) <> (h', pl', tg').
Proof. exact DcPacketProofs.dg_parse_injective. Qed.

Theorem C18_control_parse_injective : forall bs bs' d h tg d' h' tg' rest,
  ct_decode bs = Some (d, h, tg, rest) -> ct_decode bs' = Some (d', h', tg', rest) ->
  bs <> bs' -> (h, tg) <> (h', tg').
Proof. exact DcPacketProofs.ct_parse_injective. Qed.

Theorem C18_stream_fields_of_header : forall bs bs' d d' h pl pl' tg tg' rest rest',
  st_decode bs = Some (d, h, pl, tg, rest) -> st_decode bs' = Some (d', h, pl', tg', rest') ->
  d = d' /\ lenN pl = lenN pl'.
Proof. exact DcPacketProofs.st_fields_of_header. Qed.

(* ideal AEAD / MAC (premise): every change of a header, payload or tag byte, and every truncation,
   of the one packet that was sealed is rejected *)
Theorem C18_stream_tamper_rejected :
  forall (opens : N -> list N -> list N -> list N -> bool) (sealed : N -> list N -> list N -> list N -> Prop),
  (forall n a c t, opens n a c t = true -> sealed n a c t) ->
  forall p ct tag bs,
  st_wf p -> lenN ct = st_plen p -> length tag = tag_len ->
  (forall n a c t, sealed n a c t -> a = st_header p /\ c = ct /\ t = tag) ->
  bs <> st_encode p ct tag -> (length bs <= length (st_encode p ct tag))%nat ->
  DcPacketProofs.st_accept opens bs = false.
Proof. exact DcPacketProofs.st_tamper_rejected. Qed.

Theorem C18_datagram_tamper_rejected :
  forall (opens : N -> list N -> list N -> list N -> bool) (sealed : N -> list N -> list N -> list N -> Prop),
  (forall n a c t, opens n a c t = true -> sealed n a c t) ->
  forall p ct tag bs,
  dg_wf p -> lenN ct = dg_plen p -> length tag = tag_len ->
  (forall n a c t, sealed n a c t -> a = dg_header p /\ c = ct /\ t = tag) ->
  bs <> dg_encode p ct tag -> (length bs <= length (dg_encode p ct tag))%nat ->
  DcPacketProofs.dg_accept opens bs = false.
Proof. exact DcPacketProofs.dg_tamper_rejected. Qed.

Theorem C18_control_tamper_rejected :
  forall (opens : N -> list N -> list N -> list N -> bool) (sealed : N -> list N -> list N -> list N -> Prop),
  (forall n a c t, opens n a c t = true -> sealed n a c t) ->
  forall p tag bs,
  ct_wf p -> length tag = tag_len ->
  (forall n a c t, sealed n a c t -> a = ct_header p /\ c = [] /\ t = tag) ->
  bs <> ct_encode p tag -> (length bs <= length (ct_encode p tag))%nat ->
  DcPacketProofs.ct_accept opens bs = false.
Proof. exact DcPacketProofs.ct_tamper_rejected. Qed.

Theorem C18_stream_accept_is_sent :
  forall (opens : N -> list N -> list N -> list N -> bool) (sealed : N -> list N -> list N -> list N -> Prop),
  (forall n a c t, opens n a c t = true -> sealed n a c t) ->
  forall p ct tag bs,
  st_wf p -> lenN ct = st_plen p -> length tag = tag_len ->
  (forall n a c t, sealed n a c t -> a = st_header p /\ c = ct /\ t = tag) ->
  DcPacketProofs.st_accept opens bs = true ->
  exists rest, st_decode bs = Some (st_dec_of p, st_header p, ct, tag, rest).
Proof. exact DcPacketProofs.st_accept_is_sent. Qed.

(* the model of the pkt harness satisfies the executable property on every case that does not
   retransmit a stream packet ... *)
Theorem C18_pkt_judge_model : forall case, pkt_rt_clean case = true -> pkt_judge case (pkt_run case) = true.
Proof. exact DcPacketProofs.pkt_judge_run. Qed.

(* ... and not on those that do: in a retransmitted stream packet the IS_RECOVERY_PACKET bit of the
   tag byte is cleared before the AEAD check and is not covered by the retransmission mask (known
   finding retransmit_space_bit_unauthenticated; witness replayed by the fixed family) *)
Theorem C18_pkt_rt_refuted : exists case, pkt_judge case (pkt_run case) = false.
Proof. exact DcPacketProofs.pkt_rt_refuted. Qed.

(* non-vacuity: a stream packet with every optional field, and its header bytes *)
Example C18_example_stream :
  let p := mk_st false false [1;2;3;4;5;6;7;8;9;10;11;12;13;14;15;16] 70 (Some 64) 5 true true 16384 7 100 (Some 200) [1;2;3] [4;5] 2 in
  st_decode (st_encode p [9;9] (repeat 0 16)) = Some (st_dec_of p, st_header p, [9;9], repeat 0 16, [])
  /\ hd 0 (st_header p) = 46 /\ length (st_header p) = 46%nat.
Proof. vm_compute. repeat split; reflexivity. Qed.

(* ---- path secret map: handlers authenticate before they touch anything *)
(* a packet that names no entry, or does not authenticate under the entry it names, leaves the map
   (ids, sender key ids), the handshake-request counter and the accepted counter unchanged *)
Theorem C18_dc_forged_no_effect : forall (auth : DcMap.entry -> DcMap.cpkt -> bool) s p,
  (forall e, DcMap.lookup (DcMap.c_id p) (DcMap.m_entries s) = Some e -> auth e p = false) ->
  DcMap.proj (DcMap.handle auth s p) = DcMap.proj s /\
  DcMap.m_acc (DcMap.handle auth s p) = DcMap.m_acc s.
Proof. exact DcMapProofs.forged_no_effect. Qed.

(* eviction, key id advance and handshake request happen only after authenticate succeeded *)
Theorem C18_dc_effect_only_if_authentic : forall (auth : DcMap.entry -> DcMap.cpkt -> bool) s p,
  DcMap.proj (DcMap.handle auth s p) <> DcMap.proj s ->
  exists e, DcMap.lookup (DcMap.c_id p) (DcMap.m_entries s) = Some e /\ auth e p = true.
Proof. exact DcMapProofs.effect_only_if_authentic. Qed.

(* all histories: interleaving any number of forged packets gives the map, key ids and handshake
   counter of the history without them *)
Theorem C18_dc_forged_history_no_effect : forall (auth : DcMap.entry -> DcMap.cpkt -> bool) ps s s',
  DcMap.proj s = DcMap.proj s' -> DcMap.m_evict s = DcMap.m_evict s' ->
  DcMap.proj (DcMapProofs.deliver auth (fun _ _ => true) s ps) =
  DcMap.proj (DcMapProofs.deliver auth (fun st p => negb (DcMapProofs.forged auth st p)) s' ps).
Proof. exact DcMapProofs.forged_history_no_effect. Qed.

Theorem C18_dc_authentic_effects : forall (auth : DcMap.entry -> DcMap.cpkt -> bool) s p e,
  DcMap.lookup (DcMap.c_id p) (DcMap.m_entries s) = Some e -> auth e p = true ->
  let s' := DcMap.handle auth s p in
  DcMap.m_acc s' = DcMap.m_acc s + 1 /\
  (DcMap.c_kind p = 0 -> DcMap.m_hs s' = DcMap.m_hs s + 1 /\
      DcMap.m_entries s' = (if DcMap.m_evict s && DcMap.e_aged e then DcMap.remove (DcMap.c_id p) (DcMap.m_entries s) else DcMap.m_entries s) /\
      DcMap.m_peers s' = (if DcMap.m_evict s && DcMap.e_aged e then DcMap.remove_exact (DcMap.e_peer e) (DcMap.c_id p) (DcMap.m_peers s) else DcMap.m_peers s)) /\
  (DcMap.c_kind p = 1 -> DcMap.m_hs s' = DcMap.m_hs s /\ DcMap.m_peers s' = DcMap.m_peers s /\
      DcMap.m_entries s' = DcMap.update (DcMap.c_id p) (DcMap.mk_entry (N.max (DcMap.e_cur e) (DcMap.c_val p)) (DcMap.e_aged e) (DcMap.e_peer e)) (DcMap.m_entries s)) /\
  (2 <= DcMap.c_kind p -> DcMap.m_hs s' = DcMap.m_hs s + 1 /\ DcMap.m_entries s' = DcMap.m_entries s /\ DcMap.m_peers s' = DcMap.m_peers s).
Proof. exact DcMapProofs.authentic_effects. Qed.

(* eviction is exact: handling a packet that names credential id X -- authentic or not -- leaves
   every other credential id's entry untouched, and every peer address whose current secret is
   not X keeps its binding (PeerMap::remove_exact compares by credential id, not by address) *)
Theorem C18_dc_handle_touches_only_named : forall (auth : DcMap.entry -> DcMap.cpkt -> bool) s p,
  (forall id, id <> DcMap.c_id p ->
     DcMap.lookup id (DcMap.m_entries (DcMap.handle auth s p)) = DcMap.lookup id (DcMap.m_entries s)) /\
  (forall a i, DcMap.plookup a (DcMap.m_peers s) = Some i -> i <> DcMap.c_id p ->
     DcMap.plookup a (DcMap.m_peers (DcMap.handle auth s p)) = Some i).
Proof. exact DcMapProofs.handle_touches_only_named. Qed.

(* after a re-handshake with a peer address, an UnknownPathSecret (or any other) packet naming an
   older secret cannot remove the newer secret from the address map *)
Theorem C18_dc_rehandshake_then_old_ups : forall (auth : DcMap.entry -> DcMap.cpkt -> bool) s a aged p,
  DcMap.c_id p <> DcMap.m_next s ->
  DcMap.plookup a (DcMap.m_peers (DcMap.handle auth (DcMap.rehandshake s a aged) p)) = Some (DcMap.m_next s).
Proof. exact DcMapProofs.rehandshake_then_old_ups. Qed.

Theorem C18_map_judge_model : forall case, DcMap.judge case (DcMap.run case) = true.
Proof. exact DcMapProofs.judge_run. Qed.

Theorem C18_map_run_forged_no_effect : forall mode s p, mode <> 0 ->
  DcMap.proj (DcMap.handle (DcMap.case_auth mode) s p) = DcMap.proj s /\
  DcMap.m_acc (DcMap.handle (DcMap.case_auth mode) s p) = DcMap.m_acc s.
Proof. exact DcMapProofs.run_forged_no_effect. Qed.

(* ---- receiver key state: the rotating application opener (path/secret/key.rs, stream/crypto.rs) *)
(* a packet that opens under neither key the receiver holds is rejected and leaves the key state
   (generation / rotation of the opener) unchanged, whatever its key-phase bit *)
Theorem C18_pkt_forged_key_state_unchanged : forall (opens : N -> DcKeys.kpkt -> bool) s p,
  (forall g, opens g p = false) -> DcKeys.recv opens s p = (s, false).
Proof. exact DcKeysProofs.forged_key_state_unchanged. Qed.

(* the opener rotates only after a packet opened under the next generation's key *)
Theorem C18_pkt_rotation_only_if_opened : forall (opens : N -> DcKeys.kpkt -> bool) s p,
  fst (DcKeys.recv opens s p) <> s ->
  opens (DcKeys.k_recv_gen s + 1) p = true /\ snd (DcKeys.recv opens s p) = true.
Proof. exact DcKeysProofs.rotation_only_if_opened. Qed.

(* all histories: a forged packet anywhere in a history leaves the final key state that of the
   history without it *)
Theorem C18_pkt_forged_history_key_state : forall (opens : N -> DcKeys.kpkt -> bool) ps s p qs,
  (forall g, opens g p = false) ->
  fst (DcKeysProofs.deliver opens s (ps ++ p :: qs)) = fst (DcKeysProofs.deliver opens s (ps ++ qs)).
Proof. exact DcKeysProofs.forged_history_key_state. Qed.

Theorem C18_keys_judge_model : forall case, DcKeys.judge case (DcKeys.run case) = true.
Proof. exact DcKeysProofs.judge_run. Qed.

Theorem C18_keys_run_forged_no_effect : forall gs s p,
  DcKeys.recv (DcKeys.case_opens gs true) s p = (s, false).
Proof. exact DcKeysProofs.run_forged_no_effect. Qed.

Print Assumptions C18_sc_constants.
Print Assumptions C18_sc_roundtrip.
Print Assumptions C18_sc_decode_spec.
Print Assumptions C18_sc_decode_wf.
Print Assumptions C18_sc_parse_injective.
Print Assumptions C18_sc_value_of_header.
Print Assumptions C18_sc_unsigned_rejected.
Print Assumptions C18_sc_tamper_rejected.
Print Assumptions C18_sc_authentic_value.
Print Assumptions C18_sc_judge_model.
Print Assumptions C18_sc_ups_queue_refuted.
Print Assumptions C18_pkt_constants.
Print Assumptions C18_stream_roundtrip.
Print Assumptions C18_datagram_roundtrip.
Print Assumptions C18_control_roundtrip.
Print Assumptions C18_stream_decode_spec.
Print Assumptions C18_datagram_decode_spec.
Print Assumptions C18_control_decode_spec.
Print Assumptions C18_stream_tamper_rejected.
Print Assumptions C18_datagram_tamper_rejected.
Print Assumptions C18_control_tamper_rejected.
Print Assumptions C18_stream_accept_is_sent.
Print Assumptions C18_dc_forged_no_effect.
Print Assumptions C18_dc_effect_only_if_authentic.
Print Assumptions C18_dc_forged_history_no_effect.
Print Assumptions C18_dc_authentic_effects.
Print Assumptions C18_map_judge_model.
Print Assumptions C18_map_run_forged_no_effect.
Print Assumptions C18_sc_exh_ok_hmac.
Print Assumptions C18_pkt_judge_model.
Print Assumptions C18_stream_parse_injective.
Print Assumptions C18_datagram_parse_injective.
Print Assumptions C18_control_parse_injective.
Print Assumptions C18_stream_fields_of_header.
Print Assumptions C18_pkt_rt_refuted.
Print Assumptions C18_dc_handle_touches_only_named.
Print Assumptions C18_dc_rehandshake_then_old_ups.
Print Assumptions C18_pkt_forged_key_state_unchanged.
Print Assumptions C18_pkt_rotation_only_if_opened.
Print Assumptions C18_pkt_forged_history_key_state.
Print Assumptions C18_keys_judge_model.
Print Assumptions C18_keys_run_forged_no_effect.
