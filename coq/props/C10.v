(* C10 -- congestion control keeps its window and sending within RFC 9002 bounds.
   Property theorems only; each is closed by [exact] of a lemma proved in proofs/.
   Window values are in FX = 4096-ths of a byte (every f32 >= 2048 is such a multiple). *)
From SQ Require Import lib.Base gen.Gen_C10.
From SQ Require model.Cubic model.Bbr model.CcGate proofs.Round24 proofs.CubicProofs proofs.CubicJudge proofs.BbrProofs proofs.CcGateProofs proofs.CcGateJudge.
Import Cubic CubicProofs.
Local Open Scope N_scope.

(* ---- generated constants are the values the RFCs name ---- *)
(* RFC 9002 7.2: minimum window = 2 * max_datagram_size *)
Theorem C10_cubic_min_window_is_2_mds : forall m, Cubic.min_window m = FX * (2 * m) /\ Cubic.floor_u32 m = 2 * m.
Proof. exact min_window_is_2_mds. Qed.
(* RFC 9002 7.2: initial window = min(10 mds, max(14720, 2 mds)) *)
Theorem C10_cubic_initial_window_rfc : forall m, m < 65536 ->
  Cubic.initial_window m = N.min (10 * m) (N.max 14720 (2 * m)).
Proof. exact initial_window_rfc. Qed.
(* RFC 9438: beta_cubic = 0.7, C = 0.4 (as the nearest binary32 values) *)
Theorem C10_beta_is_0_7 : beta_cubic_bits = 1060320051 /\ beta_cubic_man = 11744051 /\ beta_cubic_sh = 24
  /\ 10 * beta_cubic_man < 7 * 2 ^ 24 + 5 /\ 7 * 2 ^ 24 < 10 * beta_cubic_man + 5.
Proof. exact beta_is_0_7. Qed.
Theorem C10_c_is_0_4 : cubic_c_man = 13421773 /\ cubic_c_sh = 25
  /\ 10 * cubic_c_man < 4 * 2 ^ 25 + 5 /\ 4 * 2 ^ 25 < 10 * cubic_c_man + 5.
Proof. exact c_is_0_4. Qed.

(* ---- CUBIC ---- *)
(* every history from a new controller (any datagram size a u16 can hold), whatever the oracle
   answers, provided the one monitored assumption [oracle_ok]: where congestion_avoidance() is
   reached the window it produces is at least the minimum (the code only debug_asserts that) *)
Theorem C10_cubic_floor : forall m l s', m < 65536 -> steps (cinit m) l = Some s' -> oracle_ok (cinit m) l ->
  FX * (2 * mds s') <= cwnd s' /\ 2 * mds s' <= wnd s'.
Proof. exact cubic_floor. Qed.

Theorem C10_cubic_loss_never_increases : forall s o a s', floor_inv s -> is_congestion_signal o = true ->
  step s o a = Some s' -> cwnd s' <= cwnd s /\ wnd s' <= wnd s.
Proof. exact cubic_loss_never_increases. Qed.

Theorem C10_cubic_once_per_recovery : forall s o a s' t r, kind s = Recovery t r -> is_congestion_signal o = true ->
  (forall b now, o <> Lost b true now) -> step s o a = Some s' ->
  cwnd s' = cwnd s /\ exists r', kind s' = Recovery t r'.
Proof. exact cubic_once_per_recovery. Qed.

Theorem C10_cubic_recovery_ends_only_by_ack : forall s o a s' t r, kind s = Recovery t r -> step s o a = Some s' ->
  (exists r', kind s' = Recovery t r') \/
  (exists b st now, o = Ack b st now /\ t < st /\ uu s = false) \/
  (exists b now, o = Lost b true now).
Proof. exact cubic_recovery_ends_only_by_ack. Qed.

Theorem C10_cubic_app_limited_frozen : forall s b st now a s', uu s = true -> step s (Ack b st now) a = Some s' ->
  cwnd s' = cwnd s /\ kind s' = kind s /\ bif s' = bif s - b.
Proof. exact cubic_app_limited_frozen. Qed.

Theorem C10_cubic_persistent_collapse : forall s b now a s', mds s < 65536 -> step s (Lost b true now) a = Some s' ->
  cwnd s' = FX * (2 * mds s) /\ wnd s' = 2 * mds s /\ kind s' = SlowStart /\ mds s' = mds s.
Proof. exact cubic_persistent_collapse. Qed.

Theorem C10_cubic_bif_matches_outstanding : forall l s s', steps s l = Some s' ->
  bif s' + total removed_of l = bif s + total sent_of l /\ (bif s <= u32_max -> bif s' <= u32_max).
Proof. exact bif_matches_outstanding. Qed.

Theorem C10_cubic_no_panic_iff_valid : forall l s, steps s l <> None <-> hist_valid (bif s) (has_sent s) l = true.
Proof. exact no_panic_iff_valid. Qed.

(* no saturation: one step keeps the window at or below 2^31 bytes while at most 2^30 bytes have
   been sent (growth is capped by twice bytes_in_flight_hi); on_mtu_update carries a premise on the
   window the model itself computes for it *)
Theorem C10_cubic_no_saturation_step : forall s o a s' S, csat s S -> S + sent_of o <= SENT_CAP ->
  step s o a = Some s' -> cmtu_step_ok o s' -> csat s' (S + sent_of o).
Proof. exact step_sat. Qed.
Theorem C10_cubic_no_saturation : forall s S, csat s S -> wnd s < u32_max.
Proof. exact csat_wnd. Qed.

(* the executable judgement applied to the implementation's rows accepts every replay of the
   model, whatever the oracle answers, when at most 2^30 bytes are sent in the history (generator
   side: at most 320 operations of at most 65535 bytes) and [replay_ok] holds: the monitored floor
   assumption at the congestion-avoidance site, u16 datagram sizes, and a window of at most 2^31
   bytes after on_mtu_update (computed by the model).  No per-step hypothesis on the window. *)
Theorem C10_cubic_judge_model : forall m t rows, (0 <= m < 65536)%Z ->
  CubicJudge.sent_ops (decode 0 t) <= SENT_CAP ->
  CubicJudge.replay_ok (cinit (zN m)) (decode 0 t) (snd (next_answer rows)) ->
  Cubic.judge (m :: t) (Cubic.replay (m :: t) rows) = true.
Proof. exact CubicJudge.judge_replay. Qed.

(* hybrid slow start: N_SAMPLING = 8 samples per round, threshold divisor 8 *)
Theorem C10_hystart_constants : hss_n_sampling = 8 /\ hss_threshold_dividend = 8.
Proof. split; reflexivity. Qed.
(* on_rtt_update changes neither the window, the datagram size, the bytes in flight nor the
   application-limited flag, and does not leave a recovery period *)
Theorem C10_cubic_rtt_update_preserves : forall s st now rtt last,
  mds (on_rtt_update s st now rtt last) = mds s /\ cwnd (on_rtt_update s st now rtt last) = cwnd s /\
  bif (on_rtt_update s st now rtt last) = bif s /\ uu (on_rtt_update s st now rtt last) = uu s /\
  tls (hs (on_rtt_update s st now rtt last)) = tls (hs s) /\
  (forall t r, kind s = Recovery t r -> kind (on_rtt_update s st now rtt last) = Recovery t r).
Proof. exact on_rtt_update_proj. Qed.

(* ---- BBRv2 ---- *)
Import Bbr BbrProofs.
(* MIN_PIPE_CWND_PACKETS = 4; the initial window is max(RFC 9002 7.2 initial window, 4 mds) *)
Theorem C10_bbr_min_window_is_4_mds : forall m, Bbr.bbr_min_window m = 4 * m /\ Bbr.bbr_initial_window m = N.max (N.min (10 * m) (N.max 14720 (2 * m))) (4 * m).
Proof. exact (fun m => conj (bbr_min_window_eq m) (bbr_initial_window_rfc m)). Qed.
(* the u32 product in minimum_window cannot overflow for any datagram size a u16 can hold *)
Theorem C10_bbr_min_window_no_overflow : forall m, m < 65536 -> Bbr.bbr_min_window_checked m = Some (4 * m).
Proof. exact bbr_min_window_no_overflow. Qed.

(* bbr_floor, at each place that assigns cwnd, for arbitrary values of BBR's model quantities *)
Theorem C10_bbr_floor_set_cwnd : forall cwnd m acked o c', bbr_set_cwnd cwnd m acked o = Some c' ->
  4 * m <= c' /\ c' <= bound_cwnd_for_model m o.
Proof. exact bbr_floor_set_cwnd. Qed.
Theorem C10_bbr_floor_restore_cwnd : forall cwnd prior m, 4 * m <= cwnd -> 4 * m <= bbr_restore_cwnd cwnd prior.
Proof. exact bbr_floor_restore_cwnd. Qed.
Theorem C10_bbr_floor_mtu : forall raw m, 4 * m <= bbr_mtu_cwnd raw m.
Proof. exact bbr_floor_mtu. Qed.
Theorem C10_bbr_floor_init : forall m, 4 * m <= bcwnd (binit m).
Proof. exact bbr_floor_init. Qed.
(* no_overflow: the unchecked `cwnd += newly_acked` cannot overflow when cwnd + newly_acked fits u32
   (this is the explicit guard; it follows from bytes_in_flight <= u32::MAX only when cwnd < 2^31),
   and set_cwnd never grows the window by more than the newly acknowledged bytes *)
Theorem C10_bbr_no_overflow_guard : forall cwnd m acked o, cwnd + acked <= u32_max ->
  bbr_set_cwnd cwnd m acked o <> None.
Proof. exact bbr_set_cwnd_no_overflow_guard. Qed.
Theorem C10_bbr_set_cwnd_envelope : forall cwnd m acked o c', bbr_set_cwnd cwnd m acked o = Some c' ->
  c' <= N.max (cwnd + acked) (4 * m).
Proof. exact bbr_set_cwnd_envelope. Qed.
(* the lower bound of the final clamp in set_cwnd never binds (each ingredient applies the minimum
   window itself): changing that bound alone cannot change any window *)
Theorem C10_bbr_lower_clamp_redundant : forall cwnd m acked o c', m < 65536 -> 4 * m <= cwnd ->
  bbr_set_cwnd cwnd m acked o = Some c' -> c' = bbr_set_cwnd_unclamped cwnd m acked o.
Proof. exact bbr_lower_clamp_redundant. Qed.
(* every history of the executable model, whatever the oracle answers (state kind, filled_pipe,
   inflight bounds, window) *)
Theorem C10_bbr_floor : forall l m s', bsteps (binit m) l = Some s' -> 4 * bmds s' <= bcwnd s'.
Proof. exact bbr_floor. Qed.
(* every valid history is accepted without panic and bytes_in_flight is what was sent minus what
   was acknowledged, lost or discarded *)
Theorem C10_bbr_bif_matches_outstanding : forall l s, qinv s -> bhist_valid (bbif s) l = true ->
  exists s', bsteps s l = Some s' /\
    bbif s' + btotal removed_of l = bbif s + btotal sent_of l /\ (bbif s <= u32_max -> bbif s' <= u32_max).
Proof. exact bbr_bif_matches_outstanding. Qed.
(* saturation: one step keeps max(cwnd, prior_cwnd) <= 2^30 + delivered bytes *)
Theorem C10_bbr_no_saturation_step : forall s o a s' S, bsat s S -> bstep s o a = Some s' -> mtu_step_ok o s' ->
  bsat s' (S + sent_of o).
Proof. exact bstep_sat. Qed.
(* the judgement accepts every replay of the model in which at most 2^30 bytes are sent
   (generator side: at most 320 operations of at most 65535 bytes) and every on_mtu_update leaves a
   window of at most 2^30 (computed by the model, not an oracle); no per-step window hypothesis *)
Theorem C10_bbr_judge_model : forall m t rows, (0 <= m < 65536)%Z ->
  sent_ops (decode 0 t) <= 1073741824 ->
  breplay_ok (binit (zN m)) (decode 0 t) (times 0 t) (snd (bnext_answer rows)) ->
  Bbr.judge (m :: t) (breplay (m :: t) rows) = true.
Proof. exact bbr_judge_replay. Qed.

(* ---- the sending gate ---- *)
Theorem C10_gate : forall amp s, 0 < mds s ->
  (CcGate.cubic_constraint amp s = CcGate.Unconstrained -> amp = false /\ bif s + mds s <= wnd s) /\
  (CcGate.cubic_constraint amp s = CcGate.RetransmissionOnly ->
     amp = false /\ wnd s < bif s + mds s /\ exists t, kind s = Recovery t true) /\
  (amp = false -> wnd s < bif s + mds s -> (forall t, kind s <> Recovery t true) ->
     CcGate.cubic_constraint amp s = CcGate.CongestionLimited).
Proof. exact CcGateProofs.gate. Qed.

(* the executable clause "the fast-retransmission allowance turns on only at a loss / ECN-CE event and at
   most once per recovery period" (component cubic_gate) accepts every replay of the CUBIC model: every
   case, every oracle answer sequence, runs in which the implementation's checked counters panic included;
   no side condition *)
Theorem C10_cubic_gate_judge_model : forall case rows,
  CcGate.cubic_gate_judge case (Cubic.replay case rows) = true.
Proof. exact CcGateJudge.gate_judge_replay. Qed.

(* non-vacuity of the judgement: it rejects an allowance that turns on at an ACK, and a second allowance
   inside one recovery period (loss, packet sent, loss again with no ACK in between); it accepts the latter
   history when the allowance stays off *)
Example C10_cubic_gate_judge_rejects :
  let z9 (f : Z) := [0; 0; 0; 0; 0; f; 0; 0; 0]%Z in
  CcGate.cubic_gate_judge [1200; 2;0;0;0;0]%Z (z9 0 ++ z9 1)%Z = false /\
  CcGate.cubic_gate_judge [1200; 3;100;0;0;0; 1;100;0;0;0; 3;100;0;0;0]%Z (z9 0 ++ z9 1 ++ z9 0 ++ z9 1)%Z = false /\
  CcGate.cubic_gate_judge [1200; 3;100;0;0;0; 1;100;0;0;0; 3;100;0;0;0]%Z (z9 0 ++ z9 1 ++ z9 0 ++ z9 0)%Z = true.
Proof. vm_compute. repeat split. Qed.

(* non-vacuity: slow start, a loss (12000 -> 8400), a second loss inside the recovery period
   (unchanged), then persistent congestion (-> 2400) *)
Example C10_example :
  option_map (fun s => (wnd s, bif s, kind s))
    (steps (cinit 1200) [(Sent 1200 1 1, 0); (Sent 1200 1 2, 0); (Sent 1200 1 3, 0); (Lost 1200 false 7, 0);
                         (Lost 1200 false 9, 0); (Lost 1200 true 11, 0)])
  = Some (2400, 0, SlowStart)
  /\ option_map wnd (steps (cinit 1200) [(Sent 1200 1 1, 0); (Sent 1200 1 2, 0); (Lost 1200 false 7, 0); (Ecn 8, 0)]) = Some 8400.
Proof. split; vm_compute; reflexivity. Qed.

Print Assumptions C10_cubic_min_window_is_2_mds.
Print Assumptions C10_cubic_initial_window_rfc.
Print Assumptions C10_beta_is_0_7.
Print Assumptions C10_c_is_0_4.
Print Assumptions C10_cubic_floor.
Print Assumptions C10_cubic_loss_never_increases.
Print Assumptions C10_cubic_once_per_recovery.
Print Assumptions C10_cubic_recovery_ends_only_by_ack.
Print Assumptions C10_cubic_app_limited_frozen.
Print Assumptions C10_cubic_persistent_collapse.
Print Assumptions C10_cubic_bif_matches_outstanding.
Print Assumptions C10_cubic_no_panic_iff_valid.
Print Assumptions C10_cubic_judge_model.
Print Assumptions C10_cubic_no_saturation_step.
Print Assumptions C10_cubic_no_saturation.
Print Assumptions C10_hystart_constants.
Print Assumptions C10_cubic_rtt_update_preserves.
Print Assumptions C10_bbr_min_window_is_4_mds.
Print Assumptions C10_bbr_min_window_no_overflow.
Print Assumptions C10_bbr_floor_set_cwnd.
Print Assumptions C10_bbr_floor_restore_cwnd.
Print Assumptions C10_bbr_floor_mtu.
Print Assumptions C10_bbr_floor_init.
Print Assumptions C10_bbr_no_overflow_guard.
Print Assumptions C10_bbr_set_cwnd_envelope.
Print Assumptions C10_bbr_lower_clamp_redundant.
Print Assumptions C10_bbr_no_saturation_step.
Print Assumptions C10_bbr_floor.
Print Assumptions C10_bbr_bif_matches_outstanding.
Print Assumptions C10_bbr_judge_model.
Print Assumptions C10_gate.
Print Assumptions C10_cubic_gate_judge_model.
