(* C20 -- dc: streams deliver bytes exactly, or fail promptly with an error.   PARTIAL:
   the theorems are about the abstract ARQ model of model/DcStream.v (which ranges are in which set
   after which event), not about the 1400 + 1080 lines of send/state.rs and recv/state.rs; the real
   state machines are tied to the statement only by the simulation monitor [dcsim_judge]
   (component dcsim) and by the state-machine driver (component dcstate).
   Property theorems only; each is closed by [exact] of a lemma proved in proofs/. *)
From SQ Require Import lib.Base gen.Gen_C20.
From SQ Require model.DcStream proofs.DcStreamProofs.
Import DcStream.

(* generated constants: the testing parameters installed by stream::testing::{Client, Server} *)
Theorem C20_test_idle_timeout_is_30s : Gen_C20.test_idle_timeout_secs = 30%N.
Proof. reflexivity. Qed.
Theorem C20_loss_threshold_is_2 : Gen_C20.loss_threshold_gap = 2%N.
Proof. reflexivity. Qed.

(* for every configuration, every network oracle (which transmitted packet is delivered when and how
   often: never = loss, twice = duplicate, late = reorder; same for control packets) and every
   schedule of application writes/reads/shutdown, transmissions, retransmissions, loss declarations,
   congestion-window changes, timer ticks, peer disappearance and secret loss:
   the bytes read are a prefix of the bytes written and equal to them once EOF was returned *)
Theorem C20_dc_exact : forall c evs, (0 < c_idle c)%N ->
  let w := run c evs in
  is_prefix (read w) (written w) /\ (eof w -> read w = written w /\ sd_closed (w_s w) = true).
Proof. exact DcStreamProofs.dc_exact. Qed.

(* the statement of DESIGN.md 5.20 (weaker: the model never needs the error disjunct) *)
Theorem C20_dc_exact_or_error : forall c evs, (0 < c_idle c)%N ->
  let w := run c evs in
  (is_prefix (read w) (written w) /\ (eof w -> read w = written w)) \/ error_reported w.
Proof. exact DcStreamProofs.dc_exact_or_error. Qed.

(* every packet ever transmitted carries the written bytes of its range ... *)
Theorem C20_dc_packets_carry_written_bytes : forall c evs, (0 < c_idle c)%N ->
  let w := run c evs in
  Forall (fun p => p_bytes p = slice (written w) (s_off (p_seg p)) (s_len (p_seg p)) /\
                   p_end p <= length (written w)) (w_net w).
Proof. exact DcStreamProofs.dc_packets_carry_written_bytes. Qed.

(* ... so a retransmission carries the bytes originally sent for its range *)
Theorem C20_dc_retransmission_same_bytes : forall c evs p q, (0 < c_idle c)%N ->
  let w := run c evs in
  In p (w_net w) -> In q (w_net w) ->
  s_off (p_seg p) = s_off (p_seg q) -> s_len (p_seg p) = s_len (p_seg q) -> p_bytes p = p_bytes q.
Proof. exact DcStreamProofs.dc_retransmission_same_bytes. Qed.

(* flow control: a transmission of new bytes ends at or below flow_offset() = min(congestion credit,
   local window, peer max_data) ... *)
Theorem C20_transmit_within_flow_offset : forall s k s' p,
  s_transmit s k = (s', Some p) -> 0 < s_len (p_seg p) ->
  p_end p <= flow_offset s /\
  flow_offset s <= sd_max_data s /\
  flow_offset s <= una s + sd_local_win s /\
  flow_offset s <= sd_next_off s + sd_cwnd s.
Proof. exact DcStreamProofs.transmit_within_flow_offset. Qed.

(* ... and over the whole history nothing on the wire (first transmission or retransmission) lies
   beyond the peer's window; every first transmission was within the flow offset recorded for it *)
Theorem C20_dc_flow_offset : forall c evs, (0 < c_idle c)%N ->
  let w := run c evs in
  Forall (fun p => p_end p <= sd_max_data (w_s w) /\
                   (p_retx p = false -> 0 < s_len (p_seg p) -> p_end p <= p_limit p)) (w_net w).
Proof. exact DcStreamProofs.dc_flow_offset. Qed.

Theorem C20_p_limit_is_flow_offset : forall s k s' p,
  s_transmit s k = (s', Some p) -> p_limit p = flow_offset s /\ p_retx p = false.
Proof. exact DcStreamProofs.p_limit_is_flow_offset. Qed.

(* idle timeout, sender half: if no control packet is processed after T (peer vanished / secret
   unknown), then once virtual time has reached T + idle (fairness: time advances and the runtime
   wakes the stream at its armed deadline -- the definition of [Tick]) the half has finished or
   reports an error stamped no later than T + idle.  Timer logic of the model only. *)
Theorem C20_dc_fails_within_idle : forall c evs1 evs2 T, (0 < c_idle c)%N ->
  let w1 := run c evs1 in
  let w2 := run_from w1 evs2 in
  (t_last (sd_tm (w_s w1)) <= T)%N ->
  forallb DcStreamProofs.quiet_s evs2 = true ->
  (T + c_idle c <= t_now (sd_tm (w_s w2)))%N ->
  t_off (sd_tm (w_s w2)) = true \/
  exists k te, t_err (sd_tm (w_s w2)) = Some (k, te) /\ (te <= T + c_idle c)%N.
Proof. exact DcStreamProofs.dc_fails_within_idle. Qed.

(* receiver half *)
Theorem C20_dc_fails_within_idle_recv : forall c evs1 evs2 T, (0 < c_idle c)%N ->
  let w1 := run c evs1 in
  let w2 := run_from w1 evs2 in
  (t_last (rc_tm (w_r w1)) <= T)%N ->
  forallb DcStreamProofs.quiet_r evs2 = true ->
  (T + c_idle c <= t_now (rc_tm (w_r w2)))%N ->
  t_off (rc_tm (w_r w2)) = true \/
  exists k te, t_err (rc_tm (w_r w2)) = Some (k, te) /\ (te <= T + c_idle c)%N.
Proof. exact DcStreamProofs.dc_fails_within_idle_recv. Qed.

Theorem C20_dead_receiver_ignores_packets : forall r p,
  rc_alive r = false \/ rc_secret r = false -> r_on_pkt r p = r.
Proof. exact DcStreamProofs.dead_receiver_ignores_packets. Qed.

(* coverage: acknowledged, in-flight and pending-retransmission ranges cover everything sent, none
   reaches beyond max_sent_offset, which lies within what was written; a sent fin stays in one of the sets *)
Theorem C20_dc_coverage : forall c evs, (0 < c_idle c)%N ->
  let s := w_s (run c evs) in
  (forall o, o < sd_next_off s -> DcStreamProofs.cov s o = true) /\
  Forall (fun sg => DcStreamProofs.seg_end sg <= sd_next_off s)
         (sd_acked s ++ map snd (sd_inflight s) ++ sd_retx s) /\
  sd_next_off s <= length (sd_data s) /\
  (sd_fin_sent s = true ->
   DcStreamProofs.has_fin (sd_acked s) || DcStreamProofs.has_fin (map snd (sd_inflight s))
   || DcStreamProofs.has_fin (sd_retx s) = true).
Proof. exact DcStreamProofs.dc_coverage. Qed.

(* liveness, measure: after shutdown, for EVERY schedule (any losses, duplicates, delays, interleaving)
   the receiver's deficit (bytes it lacks + 1 while the final size is unknown) plus the number of helpful
   deliveries so far never exceeds the initial deficit *)
Theorem C20_dc_measure : forall c evs0 evs, (0 < c_idle c)%N ->
  let w := run c evs0 in
  sd_closed (w_s w) = true ->
  DcStreamProofs.missing (run_from w evs) + DcStreamProofs.count_useful w evs <= DcStreamProofs.missing w.
Proof. exact DcStreamProofs.dc_measure. Qed.

(* liveness, eventual delivery.  Hypotheses, all explicit: the writer has shut down; finite loss /
   network fairness: at least [missing w] helpful deliveries occur in the schedule (a delivery is helpful
   when an accepting receiver gets an unseen packet carrying a byte or the final size it lacks) --
   the network may lose, duplicate and delay everything else; fairness of time: the receiver is alive and
   error-free at the end; the application reads enough.  Then the reader holds exactly the written
   stream and has seen EOF. *)
Theorem C20_dc_eventual_delivery : forall c evs0 evs k, (0 < c_idle c)%N ->
  let w := run c evs0 in
  let w1 := run_from w evs in
  sd_closed (w_s w) = true ->
  DcStreamProofs.missing w <= DcStreamProofs.count_useful w evs ->
  rc_alive (w_r w1) = true -> tm_live (rc_tm (w_r w1)) = true ->
  length (written w1) - length (read w1) <= k ->
  let w2 := step w1 (AppRead k) in
  read w2 = written w2 /\ rc_eof (w_r w2) = true.
Proof. exact DcStreamProofs.dc_eventual_delivery. Qed.

(* no deadlock on the protocol's side: a pending range holding something the receiver lacks becomes, by
   the sender's own Retransmit, a fresh-numbered packet whose delivery is a helpful step *)
Theorem C20_dc_retransmit_useful : forall c evs sg rest, (0 < c_idle c)%N ->
  let w := run c evs in
  tm_live (sd_tm (w_s w)) = true ->
  sd_retx (w_s w) = sg :: rest ->
  DcStreamProofs.accepting (w_r w) = true ->
  (existsb (fun o => DcStreamProofs.isnone (lookup o (rc_buf (w_r w)))) (seq (s_off sg) (s_len sg))
   || (s_fin sg && DcStreamProofs.isnone (rc_final (w_r w)))) = true ->
  DcStreamProofs.useful (step w Retransmit) (Deliver (length (w_net w))) = true.
Proof. exact DcStreamProofs.dc_retransmit_useful. Qed.

(* the simulation monitor: what acceptance of an observed exchange means *)
Theorem C20_dcsim_judge_sound : forall pay0 pay1 case out,
  dcsim_judge case out = true -> DcStreamProofs.sim_meaning pay0 pay1 case out.
Proof. exact DcStreamProofs.dcsim_judge_sound. Qed.

(* the receiver state machine driven alone: what acceptance means *)
Theorem C20_dcrecv_judge_sound : forall case out,
  dcrecv_judge case out = true -> DcStreamProofs.recv_meaning out.
Proof. exact DcStreamProofs.dcrecv_judge_sound. Qed.

(* ... and its content conditions follow from the model: every reachable model state is accepted *)
Theorem C20_monitor_accepts_model : forall c evs, (0 < c_idle c)%N ->
  dir_ok (DcStreamProofs.obs_of (run c evs)) = true.
Proof. exact DcStreamProofs.monitor_accepts_model. Qed.

(* non-vacuity: 5 bytes written in two writes; packet 0 (bytes 0..3) is lost, packet 1 (bytes 3..5 + fin)
   arrives twice and first; loss is declared, the range is retransmitted as packet 2; the receiver
   reads everything and sees EOF; the ack of all three numbers finishes the sender.
   Second run: the receiver vanishes, time passes, the sender reports an idle timeout at exactly 30. *)
Example C20_example :
  let c := mkCfg 30 100 100 100 100 in
  let w := run c [AppWrite [10;11;12]%N; Transmit 3; AppWrite [13;14]%N; AppShutdown; Transmit 9;
                  Deliver 1; Deliver 1; AppRead 10; Lose 0%N; Retransmit; Deliver 2; EmitAck;
                  AppRead 10; DeliverAck 0; Tick 50%N] in
  read w = [10;11;12;13;14]%N /\ rc_eof (w_r w) = true /\ length (w_net w) = 3 /\
  t_off (sd_tm (w_s w)) = true /\ t_err (sd_tm (w_s w)) = None /\
  let v := run c [AppWrite [1;2;3]%N; Tick 5%N; Transmit 3; Vanish; Deliver 0; Tick 20%N; Retransmit; Tick 47%N] in
  t_err (sd_tm (w_s v)) = Some (EIdle, 30%N) /\ read v = [].
Proof. vm_compute. repeat split; reflexivity. Qed.

Print Assumptions C20_test_idle_timeout_is_30s.
Print Assumptions C20_loss_threshold_is_2.
Print Assumptions C20_dc_exact.
Print Assumptions C20_dc_exact_or_error.
Print Assumptions C20_dc_packets_carry_written_bytes.
Print Assumptions C20_dc_retransmission_same_bytes.
Print Assumptions C20_transmit_within_flow_offset.
Print Assumptions C20_dc_flow_offset.
Print Assumptions C20_p_limit_is_flow_offset.
Print Assumptions C20_dc_fails_within_idle.
Print Assumptions C20_dc_fails_within_idle_recv.
Print Assumptions C20_dead_receiver_ignores_packets.
Print Assumptions C20_dc_coverage.
Print Assumptions C20_dc_measure.
Print Assumptions C20_dc_eventual_delivery.
Print Assumptions C20_dc_retransmit_useful.
Print Assumptions C20_dcsim_judge_sound.
Print Assumptions C20_dcrecv_judge_sound.
Print Assumptions C20_monitor_accepts_model.
