(* C03 -- placeholder while the correspondence is brought up *)
From SQ Require Import lib.Base gen.Gen_C12.
From SQ Require model.DataSender model.SendJudge.
Theorem C03_min_write_size_is_32 : Gen_C12.min_write_size = 32%N.
Proof. reflexivity. Qed.
Print Assumptions C03_min_write_size_is_32.
