(* C03 -- a sender never exceeds the flow-control and stream limits its peer granted.
   Property theorems only; each is closed by [exact] of a lemma proved in proofs/. *)
From SQ Require Import lib.Base gen.Gen_C12.
From SQ Require model.DataSender model.SendJudge model.StreamId proofs.SendProofs proofs.StreamIdProofs.
Import DataSender SendJudge.
Local Open Scope N_scope.

(* every acquisition of connection credit by a stream is exact: what the stream gains the connection
   loses, the total (the peer's MAX_DATA) is untouched, the window handed back is the minimum of the
   stream limit and the credit acquired, and a request that is not blocked is granted in full *)
Theorem C03_conn_credit_exact : forall c f e c' f' w, sfc_acquire c f e = (c', f', w) ->
  c_total c' = c_total c /\ f_acq f' + c_avail c' = f_acq f + c_avail c /\ f_acq f <= f_acq f' /\
  f_maxsd f' = f_maxsd f /\ w = N.min (f_maxsd f') (f_acq f') /\
  (sfc_is_blocked f' = false -> f_st f <> 3 -> e <= w) /\ (f_st f' = 3 -> f_st f = 3).
Proof. exact SendProofs.acquire_ok. Qed.

(* MAX_DATA: the total becomes the maximum of everything received (non-increasing values are ignored)
   and only the increase is credited *)
Theorem C03_max_data_is_max : forall c v,
  c_total (cfc_max_data c v) = N.max (c_total c) v /\
  c_avail (cfc_max_data c v) + c_total c = c_avail c + c_total (cfc_max_data c v).
Proof.
  intros c v. unfold cfc_max_data. destruct (v <=? c_total c) eqn:E; cbn;
    [apply N.leb_le in E|apply N.leb_gt in E]; lia.
Qed.

(* what transmit_interval puts on the wire: one STREAM frame of the stream, carrying exactly the
   position-keyed bytes lo .. h, ending inside the requested interval, inside the stream limit and
   inside the connection credit the stream holds *)
Theorem C03_stream_frame_within_window : forall salt s c p lo hi h s' c' p',
  tx_interval salt s c p lo hi = (Some h, s', c', p') ->
  (exists size fin, p' = p_write p size (mk_frame 1 (s_sid s) lo 0 fin (slice salt (s_k s) lo (h - lo))) /\ size <= p_rem p)
  /\ lo < h /\ h <= hi
  /\ h <= f_maxsd (s_fc s') /\ h <= f_acq (s_fc s')
  /\ c_total c' = c_total c /\ f_acq (s_fc s') + c_avail c' = f_acq (s_fc s) + c_avail c
  /\ f_maxsd (s_fc s') = f_maxsd (s_fc s) /\ f_acq (s_fc s) <= f_acq (s_fc s').
Proof. exact SendProofs.tx_interval_frame. Qed.

(* one packet, any target / capacity / constraint / mode: every frame the model emits is accepted by
   the C03 monitor (STREAM end offset <= largest MAX_STREAM_DATA received so far; connection-wide sum of
   highest offsets and announced final sizes <= largest MAX_DATA received so far), and the invariant
   "monitor usage <= acquired credit, sum of acquired credit + available = total = largest MAX_DATA"
   is re-established *)
Theorem C03_packet_within_limits : forall salt n k m t cap cons md k' fs,
  SendProofs.INV03 n k m -> cap < cap_bound ->
  conn_transmit salt k t cap cons md = (k', fs) ->
  exists m', chk_frames (chk03 salt n) n m fs = Some m' /\ SendProofs.INV03 n k' m'.
Proof. exact SendProofs.conn_transmit_ok. Qed.

(* conn_credit_exact, all histories: in every state the driver can reach (any number of streams, any
   operation sequence) the credit held by the streams plus the credit still available equals the
   total granted by the peer; the invariant INV03 also carries: total = largest MAX_DATA received *)
Theorem C03_credit_exact_reachable : forall fuel salt n k ops, 0 < n ->
  (exists m, SendProofs.INV03 n k m) ->
  let k' := SendProofs.exec fuel salt n k ops in
  SendProofs.sum_acq (k_streams k') + c_avail (k_flow k') = c_total (k_flow k').
Proof. exact SendProofs.credit_exact_reachable. Qed.

Theorem C03_credit_invariant_step : forall salt n k m op r out k' r', 0 < n -> SendProofs.INV03 n k m ->
  step salt n k op r = Some (out, k', r') -> exists m', SendProofs.INV03 n k' m'.
Proof. exact SendProofs.INV03_step. Qed.

(* all histories: the executable judgement (stream_frame_within_limits and the connection-limit half of
   reset_final_size_within_limits, recomputed from the operations alone) accepts every run of the model *)
Theorem C03_ss_judge_run : forall case, judge03 case (DataSender.run case) = true.
Proof. exact SendProofs.judge03_run. Qed.

(* the stream-limit half of reset_final_size_within_limits is FALSE of the faithful model (and of the
   implementation: KNOWN_FINDINGS class reset_final_size_is_acquired_conn_credit_above_stream_limit):
   MAX_DATA 1000, MAX_STREAM_DATA 10, write 100, transmit, reset, transmit -> final size 100 *)
Theorem C03_reset_final_size_within_stream_limit_refuted :
  judge03r [1; 1000; 0; 0; 10; 1; 0; 100; 5; 1; 200; 0; 0; 3; 0; 7; 5; 1; 200; 0; 0]%Z
           (DataSender.run [1; 1000; 0; 0; 10; 1; 0; 100; 5; 1; 200; 0; 0; 3; 0; 7; 5; 1; 200; 0; 0]%Z) = false.
Proof. vm_compute. reflexivity. Qed.

(* streams: an id is handed out only while opened < largest MAX_STREAMS received, so its stream index
   is below that limit *)
Theorem C03_streams_opened_within_limit : forall server t c y id c',
  StreamIdProofs.Inv server t c y -> StreamId.l_open server t c = (Some id, c') ->
  StreamId.ok03 server t y id = true.
Proof. exact StreamIdProofs.open_ok03. Qed.

Theorem C03_st_judge_run : forall case, StreamId.judge03 case (StreamId.run case) = true.
Proof. exact StreamIdProofs.judge03_run. Qed.

(* the bound on packet capacities used by the drivers, by the generator and as hypothesis of
   C03_packet_within_limits is one constant: the value transmit_interval clamps capacities to
   (read from transmissions.rs: u16::MAX), plus one *)
Theorem C03_cap_bound : cap_bound = Gen_C12.transmit_capacity_clamp + 1 /\ cap_bound = 65536.
Proof. split; reflexivity. Qed.

Theorem C03_stream_id_step_is_4 : Gen_C12.stream_id_step = 4.
Proof. reflexivity. Qed.

(* non-vacuity: a run with two streams sharing a connection window of 50 *)
Example C03_example :
  judge03 [5; 50; 1; 0; 1000; 1000; 1; 0; 100; 1; 1; 100; 5; 0; 1200; 0; 0; 9; 40; 9; 60; 5; 0; 1200; 0; 0]%Z
    (DataSender.run [5; 50; 1; 0; 1000; 1000; 1; 0; 100; 1; 1; 100; 5; 0; 1200; 0; 0; 9; 40; 9; 60; 5; 0; 1200; 0; 0]%Z) = true
  /\ length (DataSender.run [5; 50; 1; 0; 1000; 1000; 1; 0; 100; 1; 1; 100; 5; 0; 1200; 0; 0; 9; 40; 9; 60; 5; 0; 1200; 0; 0]%Z) = 165%nat.
Proof. split; vm_compute; reflexivity. Qed.

Print Assumptions C03_conn_credit_exact.
Print Assumptions C03_max_data_is_max.
Print Assumptions C03_stream_frame_within_window.
Print Assumptions C03_packet_within_limits.
Print Assumptions C03_credit_exact_reachable.
Print Assumptions C03_credit_invariant_step.
Print Assumptions C03_ss_judge_run.
Print Assumptions C03_reset_final_size_within_stream_limit_refuted.
Print Assumptions C03_streams_opened_within_limit.
Print Assumptions C03_st_judge_run.
Print Assumptions C03_cap_bound.
Print Assumptions C03_stream_id_step_is_4.
