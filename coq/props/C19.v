(* C19 -- dc: a key ID is accepted at most once and issued at most once.
   Property theorems only; each is closed by [exact] of a lemma proved in proofs/. *)
From SQ Require Import lib.Base gen.Gen_C19.
From SQ Require model.DcReceiver model.DcSender proofs.DcReceiverProofs proofs.DcSenderProofs model.DcDedup proofs.DcDedupProofs.
From Coq Require Import Sorting.Sorted.
Import DcReceiver.
Local Open Scope N_scope.

(* the replay window the source declares is the 896 the property names *)
Theorem C19_window_is_896 : Gen_C19.window = 896.
Proof. exact DcReceiverProofs.window_is_896. Qed.

(* Receiver, every history: after any sequence of key ids (each below 2^62), a further id is
   accepted exactly when it is not the reserved maximum, has not been accepted before, and is
   above, or less than 896 below, the highest id accepted so far. *)
Theorem C19_dcr_accept_iff : forall ids id s acc,
  Forall (fun x => x < 4611686018427387904) ids -> id < 4611686018427387904 ->
  DcReceiverProofs.steps rinit [] ids = (s, acc) ->
  (snd (post s id) = ROk <->
   id <> varint_max /\ ~ In id acc /\
   (acc = [] \/ exists m, max_list acc = Some m /\ m < id + 896)).
Proof. exact DcReceiverProofs.accept_iff. Qed.

(* ... and so no id is ever accepted twice *)
Theorem C19_dcr_at_most_once : forall ids,
  Forall (fun x => x < 4611686018427387904) ids ->
  NoDup (snd (DcReceiverProofs.steps rinit [] ids)).
Proof.
  exact (fun ids H => DcReceiverProofs.steps_nodup ids rinit [] DcReceiverProofs.rinit_inv (NoDup_nil N) H).
Qed.

(* the executable judgement applied to the implementation's outputs accepts every run of the model *)
Theorem C19_dcr_judge_model : forall ids, Forall DcReceiverProofs.in_range ids ->
  DcReceiver.judge ids (DcReceiver.run ids) = true.
Proof. exact DcReceiverProofs.judge_run. Qed.

(* Sender, every sequence of next_key_id / update_for_stale_key (each an atomic read-modify-write,
   so every concurrent execution is one such sequence): issued ids strictly increase, none repeats *)
Theorem C19_dcs_strictly_increasing : forall ops,
  StronglySorted Z.lt (DcSender.issued (DcSender.run ops)) /\ NoDup (DcSender.issued (DcSender.run ops)).
Proof. exact DcSenderProofs.issued_strictly_increasing. Qed.

Theorem C19_dcs_judge_model : forall ops, DcSender.judge ops (DcSender.run ops) = true.
Proof. exact DcSenderProofs.judge_run. Qed.

Theorem C19_dcs_judge_sound : forall out lo, DcSender.incr_ok lo out = true ->
  StronglySorted Z.lt (DcSender.issued out) /\ Forall (fun a => (lo <= a)%Z) (DcSender.issued out).
Proof. exact (fun out lo => DcSenderProofs.incr_ok_sorted out lo). Qed.

(* non-vacuity: a concrete history with a duplicate, a window-edge miss (1000 - 896 = 104 > 100)
   and an accepted old id *)
Example C19_example :
  snd (DcReceiverProofs.steps rinit [] [5; 3; 5; 1000; 100; 105]) = [105; 1000; 3; 5]
  /\ DcSender.run [0; 0; 1; 7; 0; 1; 2; 0]%Z = [0; 1; 7; 8]%Z.
Proof. split; vm_compute; reflexivity. Qed.

(* Map level (open::Once -> Dedup::check -> map::State::check_dedup -> post_authentication): the
   model of the delivery-schedule component is the receiver model restricted to the result codes,
   and it satisfies the same executable judgement (at most once; every unseen id inside the
   896-window opens -- in particular the id exactly 895 below the highest one) *)
Theorem C19_dedup_judge_model : forall ids, Forall DcReceiverProofs.in_range ids ->
  DcDedup.judge ids (DcDedup.run ids) = true.
Proof. exact DcDedupProofs.judge_run. Qed.

Print Assumptions C19_window_is_896.
Print Assumptions C19_dcr_accept_iff.
Print Assumptions C19_dcr_at_most_once.
Print Assumptions C19_dcr_judge_model.
Print Assumptions C19_dcs_strictly_increasing.
Print Assumptions C19_dcs_judge_model.
Print Assumptions C19_dcs_judge_sound.
Print Assumptions C19_dedup_judge_model.
