(* C17 -- lock-free spsc queue and wakers lose nothing under any thread interleaving.
   PARTIAL: the model is an interleaving (sequentially consistent) semantics; reorderings that the
   C11 memory model allows beyond interleavings are not covered (see C17_orderings).
   Property theorems only; each is closed by [exact] of a lemma proved in proofs/. *)
From SQ Require Import lib.Base gen.Gen_C17.
From SQ Require model.Spsc proofs.SpscClose proofs.SpscData proofs.SpscProofs proofs.SpscWake.
Import Spsc.
Local Open Scope N_scope.

(* The `Ordering::*` argument found in the source at every atomic access the model has a step for
   (0 Relaxed, 1 Acquire, 2 Release, 3 AcqRel, 4 SeqCst), and the program order of "publish the index,
   then wake the peer" / "swap `open`, then wake the peer".  The model treats every access as
   sequentially consistent; this theorem only pins the source text to the orderings under which the
   message-passing argument (Release store / Acquire load of head and tail) and the
   register-then-recheck argument (AcqRel read-modify-writes inside AtomicWaker, SeqCst swap in close)
   are usually made.  Weakening one of them in the source breaks this obligation.  It is a syntactic
   tie, NOT a weak-memory proof. *)
Theorem C17_orderings :
  Gen_C17.tail_store_ordering = 2 /\ Gen_C17.head_store_ordering = 2 /\
  Gen_C17.cap_head_load_ordering = 1 /\ Gen_C17.cap_open_load_ordering = 1 /\
  Gen_C17.filled_tail_load_ordering = 1 /\ Gen_C17.filled_open_load_ordering = 1 /\
  Gen_C17.drop_head_load_ordering = 1 /\ Gen_C17.drop_tail_load_ordering = 1 /\
  Gen_C17.close_swap_ordering = 4 /\
  Gen_C17.persist_tail_store_before_wake = 1 /\ Gen_C17.persist_head_store_before_wake = 1 /\
  Gen_C17.close_swap_before_wake_r = 1 /\ Gen_C17.close_swap_before_wake_s = 1 /\
  Gen_C17.aw_reg_cas1_success_ordering = 1 /\ Gen_C17.aw_reg_cas2_success_ordering = 3 /\
  Gen_C17.aw_reg_swap_ordering = 3 /\ Gen_C17.aw_take_fetch_or_ordering = 3 /\
  Gen_C17.aw_take_fetch_and_ordering = 2 /\
  Gen_C17.pair_is_open_load_ordering = 1 /\ Gen_C17.pair_is_open_store_ordering = 2 /\
  Gen_C17.cursor_acq_producer_load_ordering = 1 /\ Gen_C17.cursor_rel_producer_add_ordering = 2 /\
  Gen_C17.cursor_acq_consumer_load_ordering = 1 /\ Gen_C17.cursor_rel_consumer_add_ordering = 2 /\
  Gen_C17.worker_remaining_swap_ordering = 1 /\ Gen_C17.worker_senders_load_ordering = 1 /\
  Gen_C17.worker_submit_add_ordering = 2 /\ Gen_C17.worker_drop_sub_ordering = 2 /\
  Gen_C17.minimum_capacity = 2.
Proof. repeat split; reflexivity. Qed.

(* Every schedule (list of thread choices), every producer / consumer program, every internal
   capacity >= 2: the received sequence is a prefix of the pushed sequence, and a receiver that has
   been told Err(ClosedError) (sender closed, queue drained) has received exactly what was pushed. *)
Theorem C17_spsc_fifo_exactly_once : forall cap sched pp cp, 2 <= cap ->
  let s := y_st (exec cap sched pp cp) in
  SpscProofs.prefix_of (received s) (pushed s) /\
  (cpc s = Idle -> ccode s = 4 -> received s = pushed s).
Proof. exact SpscProofs.fifo_exactly_once. Qed.

(* No slot is ever read unwritten (pop and drop_contents); a slot about to be read lies in the
   published window [head, tail) and holds the value written before the tail was published. *)
Theorem C17_spsc_no_unwritten_slot : forall cap sched pp cp, 2 <= cap ->
  let s := y_st (exec cap sched pp cp) in
  bad s = false /\
  (cpc s = Work ->
     hpub s <= SpscData.nr s /\ SpscData.nr s < ctc s /\ ctc s <= npub s /\ npub s <= SpscData.nw s /\
     head s = hpub s mod cap /\ tail s = npub s mod cap /\ ch s = SpscData.nr s mod cap /\
     nth (N.to_nat (ch s)) (slots s) None = Some (nth (N.to_nat (SpscData.nr s)) (pushed s) 0)).
Proof. exact SpscProofs.no_unwritten_slot. Qed.

(* NOT PROVED in general: "in every reachable state a parked receiver with the queue non-empty or
   closed has a pending wake; symmetric for the sender" (SpscWake.no_lost_wakeup_at is that statement as
   a predicate on states; the inductive invariant over the AtomicWaker protocol for all schedules is
   missing).  What is proved is the bounded version: for internal capacity 2, EVERY interleaving of
   (drop sender || receiver poll) on an empty and on a non-empty queue and of (sender poll on a full
   queue || drop receiver): in every intermediate state the predicate holds, a pending wake is
   delivered by the waking thread's next four steps, and no unwritten slot is read. *)
Theorem C17_spsc_no_lost_wakeup_partial :
  SpscWake.scenario 2 [] [] [ODropS] [ORPoll 1] = true /\
  SpscWake.scenario 2 [OPush [1]] [] [ODropS] [ORPoll 1] = true /\
  SpscWake.scenario 2 [OPush [1]] [] [OSPoll [2]] [ODropR] = true.
Proof.
  exact (conj SpscWake.scen_drops_vs_rpoll (conj SpscWake.scen_drops_vs_rpoll_nonempty SpscWake.scen_spoll_vs_dropr)).
Qed.

(* FINDING (memory safety of concurrent drop, not one of the three clauses above): "no access to the
   channel header after it was deallocated" is FALSE of the model -- and of the code: after its swap
   the first closer still calls peer.wake() on the header, which the second closer may have freed. *)
Theorem C17_spsc_close_no_use_after_free_refuted :
  exists sched pp cp, uaf (y_st (exec 2 sched pp cp)) = true.
Proof.
  exists SpscWake.uaf_schedule, [ODropS], [ODropR]. exact (proj1 SpscWake.close_use_after_free).
Qed.

Print Assumptions C17_orderings.
Print Assumptions C17_spsc_fifo_exactly_once.
Print Assumptions C17_spsc_no_unwritten_slot.
Print Assumptions C17_spsc_no_lost_wakeup_partial.
Print Assumptions C17_spsc_close_no_use_after_free_refuted.
