(* C17 -- lock-free spsc queue and wakers lose nothing under any thread interleaving.
   PARTIAL: the model is an interleaving (sequentially consistent) semantics; reorderings that the
   C11 memory model allows beyond interleavings are not covered (see C17_orderings).
   Property theorems only; each is closed by [exact] of a lemma proved in proofs/. *)
From SQ Require Import lib.Base gen.Gen_C17.
From SQ Require model.Spsc model.SpscExplore proofs.SpscClose proofs.SpscData proofs.SpscProofs proofs.SpscWake proofs.SpscWakeInv proofs.SpscWakeThm proofs.SpscFix proofs.SpscJudge proofs.SpscNoSelf.
From SQ Require model.CursorRing model.Worker model.RxRing model.TxRings proofs.CursorProofs proofs.WorkerProofs proofs.RxRingProofs proofs.TxRingsProofs proofs.TxRingsJudge.
Import Spsc.
Local Open Scope N_scope.

(* The `Ordering::*` argument found in the source at every atomic access the model has a step for
   (0 Relaxed, 1 Acquire, 2 Release, 3 AcqRel, 4 SeqCst), and the program order of "publish the index,
   then wake the peer" / "swap `open`, then wake the peer".  The model treats every access as
   sequentially consistent; this theorem only pins the source text to the orderings under which the
   message-passing argument (Release store / Acquire load of head and tail) and the
   register-then-recheck argument (AcqRel read-modify-writes inside AtomicWaker, SeqCst swap in close)
   are usually made.  Weakening one of them in the source breaks this obligation.  It is a syntactic
   tie, NOT a weak-memory proof. *)
Theorem C17_orderings :
  Gen_C17.tail_store_ordering = 2 /\ Gen_C17.head_store_ordering = 2 /\
  Gen_C17.cap_head_load_ordering = 1 /\ Gen_C17.cap_open_load_ordering = 1 /\
  Gen_C17.filled_tail_load_ordering = 1 /\ Gen_C17.filled_open_load_ordering = 1 /\
  Gen_C17.drop_head_load_ordering = 1 /\ Gen_C17.drop_tail_load_ordering = 1 /\
  Gen_C17.close_swap_ordering = 4 /\
  Gen_C17.persist_tail_store_before_wake = 1 /\ Gen_C17.persist_head_store_before_wake = 1 /\
  Gen_C17.close_swap_before_wake_r = 1 /\ Gen_C17.close_swap_before_wake_s = 1 /\
  Gen_C17.aw_reg_cas1_success_ordering = 1 /\ Gen_C17.aw_reg_cas2_success_ordering = 3 /\
  Gen_C17.aw_reg_swap_ordering = 3 /\ Gen_C17.aw_take_fetch_or_ordering = 3 /\
  Gen_C17.aw_take_fetch_and_ordering = 2 /\
  Gen_C17.pair_is_open_load_ordering = 1 /\ Gen_C17.pair_is_open_store_ordering = 2 /\
  Gen_C17.cursor_acq_producer_load_ordering = 1 /\ Gen_C17.cursor_rel_producer_add_ordering = 2 /\
  Gen_C17.cursor_acq_consumer_load_ordering = 1 /\ Gen_C17.cursor_rel_consumer_add_ordering = 2 /\
  Gen_C17.worker_remaining_swap_ordering = 1 /\ Gen_C17.worker_senders_load_ordering = 1 /\
  Gen_C17.worker_submit_add_ordering = 2 /\ Gen_C17.worker_drop_sub_ordering = 2 /\
  Gen_C17.minimum_capacity = 2 /\
  (* the close protocol the model's theorems are proved for: the result of open.swap decides who frees *)
  Gen_C17.close_last_out_frees = 0 /\
  (* ... and each side wakes its peer both before and after open.swap(false) *)
  Gen_C17.close_pre_wake_sender = 1 /\ Gen_C17.close_post_wake_sender = 1 /\
  Gen_C17.close_pre_wake_receiver = 1 /\ Gen_C17.close_post_wake_receiver = 1 /\
  (* platform rx task: the deferred consumer wake-up is also issued on the early-return path of poll_ring! *)
  Gen_C17.rx_early_return_wakes = 1 /\
  (* platform tx queue: push wakes the ring it leaves, flush_channel wakes channels.get_mut(channel_index) *)
  Gen_C17.tx_spill_flushes = 1 /\ Gen_C17.tx_flush_clamps = 0.
Proof. repeat split; reflexivity. Qed.

(* Every schedule (list of thread choices), every producer / consumer program, every internal
   capacity >= 2, for the step order the source has (Spsc.code_fixed is generated from it): the
   received sequence is a prefix of the pushed sequence, and a receiver that has been told
   Err(ClosedError) (sender closed, queue drained) has received exactly what was pushed. *)
Theorem C17_spsc_fifo_exactly_once : forall cap sched pp cp, 2 <= cap ->
  let s := y_st (exec code_fixed cap sched pp cp) in
  SpscProofs.prefix_of (received s) (pushed s) /\
  (cpc s = Idle -> ccode s = 4 -> received s = pushed s).
Proof. exact SpscWakeThm.fifo_exactly_once_code. Qed.

(* No slot is ever read unwritten (pop and drop_contents); a slot about to be read lies in the
   published window [head, tail) and holds the value written before the tail was published. *)
Theorem C17_spsc_no_unwritten_slot : forall cap sched pp cp, 2 <= cap ->
  let s := y_st (exec code_fixed cap sched pp cp) in
  bad s = false /\
  (cpc s = Work ->
     hpub s <= SpscData.nr s /\ SpscData.nr s < ctc s /\ ctc s <= npub s /\ npub s <= SpscData.nw s /\
     head s = hpub s mod cap /\ tail s = npub s mod cap /\ ch s = SpscData.nr s mod cap /\
     nth (N.to_nat (ch s)) (slots s) None = Some (nth (N.to_nat (SpscData.nr s)) (pushed s) 0)).
Proof. exact SpscWakeThm.no_unwritten_slot_code. Qed.

(* No lost wake-up, every schedule, capacity and program (inductive invariant over the AtomicWaker
   protocol, proofs/SpscWakeInv.v): in every reachable state,
     - a parked receiver (its last poll returned Pending, it has not started anything since and its
       waker has not been invoked) that faces a published tail different from its head, or a closed
       channel, has a producer inside a wake() on its waker that is going to invoke it
       (SpscExplore.wake_pending_r: about to fetch_or on an armed waker, or holding the taken waker);
     - symmetrically a parked sender facing room behind the shared head, or a closed channel.
   The argument is the classic one: the poller re-checks after registering, the notifier publishes
   before waking, and under sequential consistency one of them observes the other. *)
Theorem C17_spsc_no_lost_wakeup : forall cap sched pp cp, 2 <= cap ->
  SpscExplore.no_lost_wakeup_at cap (y_st (exec code_fixed cap sched pp cp)) = true.
Proof. exact SpscWakeThm.no_lost_wakeup_code. Qed.

(* Operation granularity -- what the scheduled correspondence observes: when the peer thread is
   between operations (or gone), a parked receiver faces an empty and open queue, a parked sender a full
   and open one (nobody can have a wake in flight). *)
Theorem C17_spsc_quiescent_wake : forall cap sched pp cp, 2 <= cap ->
  let s := y_st (exec code_fixed cap sched pp cp) in
  (quiet (ppc s) = true -> SpscExplore.parked_r s = true -> SpscExplore.nonempty_or_closed s = false) /\
  (quiet (cpc s) = true -> SpscExplore.parked_s s = true -> SpscExplore.space_or_closed cap s = false).
Proof. exact SpscWakeThm.quiescent_wake. Qed.

(* Towards judge_run for the spsc component (PARTIAL).  Operation-level termination: from any state,
   a producer / consumer operation run alone reaches a quiescent program counter within the fuel that
   `run` gives it (the measure 5 * items-to-go + rank of the program counter decreases at every step). *)
Theorem C17_spsc_op_terminates : forall fuel cap s,
  ((SpscJudge.pm s <= fuel)%nat -> quiet (ppc (p_run false fuel cap s)) = true) /\
  ((SpscJudge.cm s <= fuel)%nat -> SpscJudge.cj s -> quiet (cpc (c_run false fuel cap s)) = true).
Proof. exact (fun fuel cap s => conj (SpscJudge.p_run_quiet fuel cap s) (SpscJudge.c_run_quiet fuel cap s)). Qed.

(* PARTIAL judge_run: for every capacity >= 2 and every schedule over the alphabet
   { try_slice + push k, try_slice + pop k, drop sender, drop receiver } (operations after a drop are
   skipped as in the harness; no polls, no inline mode) the per-operation part of the executable
   judgement (SpscJudge.judge_ops_nt = Spsc.judge_ops without the trailer of the final drops) accepts the
   model's own output.  Missing for the full judge_run: the wake-up rules for the poll operations
   (no-self-notify at operation granularity), the inline mode, and the trailer (the values freed by
   drop_contents are exactly the unreceived ones). *)
Theorem C17_spsc_judge_model_partial : forall cap c pl, 2 <= cap -> Forall SpscJudge.op0245 pl ->
  SpscJudge.judge_ops_nt (S (length (SpscJudge.flat pl))) c (SpscJudge.flat pl) false (mkJ [] [] None None false false)
    (snd (run_ops (S (length (SpscJudge.flat pl))) cap (SpscJudge.flat pl) false (init cap))) = true.
Proof. exact SpscJudge.spsc_judge_ops_partial2. Qed.

(* Another ingredient of judge_run for the poll operations: no self-notification at operation
   granularity.  While the peer thread is quiescent, "calm" (the waker word is not WAKING unless this
   thread itself holds it in drop_contents, the thread is not in the late branches of register(), its
   waker has not been invoked) is preserved by the thread's own steps: a poll run alone never wakes
   itself, so the wake count it reports with Pending is the one the later wake must exceed. *)
Theorem C17_spsc_no_self_notify : forall cap s,
  SpscClose.cinv s = true ->
  (SpscWakeInv.winv_r s = true -> quiet (ppc s) = true -> SpscNoSelf.calm_r s = true ->
     SpscNoSelf.calm_r (cstep false cap s) = true) /\
  (SpscWakeInv.winv_s cap s = true -> quiet (cpc s) = true -> SpscNoSelf.calm_s s = true ->
     SpscNoSelf.calm_s (pstep false cap s) = true).
Proof.
  exact (fun cap s HC => conj (SpscNoSelf.no_self_notify_c cap s HC) (SpscNoSelf.no_self_notify_p cap s HC)).
Qed.

(* the bounded exploration of phase 1, kept as an example: every interleaving of three close/drop
   scenarios at internal capacity 2, every intermediate state, including delivery of the pending wake
   within the waking thread's next four steps *)
Example C17_spsc_wakeup_scenarios :
  SpscExplore.scenario 2 [] [] [ODropS] [ORPoll 1] = true /\
  SpscExplore.scenario 2 [OPush [1]] [] [ODropS] [ORPoll 1] = true /\
  SpscExplore.scenario 2 [OPush [1]] [] [OSPoll [2]] [ODropR] = true.
Proof.
  exact (conj SpscWake.scen_drops_vs_rpoll (conj SpscWake.scen_drops_vs_rpoll_nonempty SpscWake.scen_spoll_vs_dropr)).
Qed.

(* FINDING (memory safety of concurrent drop, not one of the three clauses above): "no access to the
   channel header after it was deallocated" is FALSE of the model of the current code -- and of the
   code: after its swap the first closer still calls peer.wake() on the header, which the second
   closer may have freed. *)
Theorem C17_spsc_close_no_use_after_free_refuted :
  exists sched pp cp, uaf (y_st (exec false 2 sched pp cp)) = true.
Proof.
  exists SpscWake.uaf_schedule, [ODropS], [ODropR]. exact (proj1 SpscWake.close_use_after_free).
Qed.

(* ... and TRUE, for every schedule, capacity and program, of the candidate repair (model parameter
   fx = true: `released.swap(true)` after the last wake, the last side out frees). *)
Theorem C17_spsc_close_no_use_after_free : forall cap sched pp cp,
  uaf (y_st (exec true cap sched pp cp)) = false.
Proof. exact SpscFix.fixed_no_use_after_free. Qed.

(* ---------------------------------------------------------------------------------------- *)
(* sync/cursor.rs                                                                            *)
(* ---------------------------------------------------------------------------------------- *)
(* Every sequence of cursor operations -- which is every SC interleaving of a producer and a consumer
   thread, since each operation contains at most one shared access -- for every ring size up to 2^31,
   u32 index wrap-around included: the consumer's acquired window lies inside the written-and-unread
   entries, and the producer's acquired window never reaches an unread entry. *)
Theorem C17_cursor_safe : forall size, 0 < size -> size <= 2147483648 -> forall ops,
  let s := fold_left (CursorProofs.cstep1 size) ops (CursorRing.cinit size) in
  CursorRing.c_len s <= CursorRing.tw s - CursorRing.tr s /\
  CursorRing.p_len s + (CursorRing.tw s - CursorRing.tr s) <= size /\
  CursorRing.tr s <= CursorRing.tw s /\ CursorRing.tw s - CursorRing.tr s <= size.
Proof. exact CursorProofs.cursor_safe. Qed.

(* ... and after any history a consume operation returns exactly the next sequence numbers in order
   (entries are read once each, in the order written), for every power-of-two ring size up to 2^31 *)
Theorem C17_cursor_fifo : forall k2, k2 <= 31 -> forall ops k,
  let size := 2 ^ k2 in
  let s := fold_left (CursorProofs.cstep1 size) ops (CursorRing.cinit size) in
  snd (CursorRing.consume size k s)
  = CursorProofs.cseq (CursorRing.tr s + 1) (N.to_nat (N.min k (CursorRing.c_len s))).
Proof. exact CursorProofs.cursor_fifo. Qed.

(* the executable judgement of the `cursor` component accepts every run of the model *)
Theorem C17_cursor_judge_model : forall case, CursorRing.judge case (CursorRing.run case) = true.
Proof. exact CursorProofs.cursor_judge_run. Qed.

(* ---------------------------------------------------------------------------------------- *)
(* sync/worker.rs (one Sender handle)                                                        *)
(* ---------------------------------------------------------------------------------------- *)
(* Every schedule, every sender program (submits, then possibly drop), any number of polls: a parked
   receiver (last poll_acquire returned Pending, waker not invoked since) with submitted work waiting
   or with the sender gone has a sender inside a wake() that is going to invoke its waker. *)
Theorem C17_worker_no_lost_wakeup : forall sched sp rp,
  let s := Worker.z_st (Worker.wexec sched sp rp) in
  implb (WorkerProofs.wparked s && ((0 <? Worker.remaining s) || (Worker.senders s =? 0)))
        (WorkerProofs.wk_pending s) = true.
Proof. exact WorkerProofs.worker_no_lost_wakeup. Qed.

(* ... and credits are conserved: everything submitted is waiting, held by the receiver, or finished *)
Theorem C17_worker_conservation : forall sched sp rp,
  let s := Worker.z_st (Worker.wexec sched sp rp) in
  Worker.submitted s < Worker.two64 ->
  Worker.remaining s + Worker.credits s + Worker.finished s = Worker.submitted s.
Proof. exact WorkerProofs.worker_conservation. Qed.

(* ---------------------------------------------------------------------------------------- *)
(* platform socket ring + rx socket task (socket/ring.rs, socket/task/rx.rs), sequential     *)
(* ---------------------------------------------------------------------------------------- *)
(* Receiver::poll of the rx socket task, for every socket script, ring size and prior state of the
   ring and wakers: if the poll released at least one message into the ring and the consumer has not
   been dropped, then on whichever path poll returns the consumer's waker cell is empty, and a
   consumer that was parked (waker registered) has had its waker invoked during this poll. *)
Theorem C17_rxring_no_lost_wakeup : forall size script s s' code,
  RxRing.task_poll size script s = (s', code) -> RxRing.ropen s' = true ->
  RxRing.released s < RxRing.released s' ->
  RxRing.cw s' = false /\ (RxRing.cw s = true -> RxRing.cwakes s < RxRing.cwakes s').
Proof. exact RxRingProofs.rx_task_no_lost_wakeup. Qed.

(* ---------------------------------------------------------------------------------------- *)
(* platform tx queue over several socket rings (socket/io/tx.rs), sequential                 *)
(* ---------------------------------------------------------------------------------------- *)
(* Tx::queue with any burst of pushes, any number of rings, any ring size and any prior state of the
   rings and wakers: afterwards every ring that received at least one message has its consumer's
   (socket task's) waker cell empty, a consumer that was parked has had its waker invoked during the
   call, and no ring is left owed a wake-up. *)
Theorem C17_txrings_no_lost_wakeup : forall size n s s' done,
  (forall j x, nth_error (TxRings.rings s) j = Some x -> TxRings.towed x = false) ->
  TxRings.queue_push size n s = (s', done) ->
  forall j x0 x', nth_error (TxRings.rings s) j = Some x0 -> nth_error (TxRings.rings s') j = Some x' ->
    TxRings.towed x' = false /\
    (CursorRing.tw (TxRings.tc x0) < CursorRing.tw (TxRings.tc x') ->
     TxRings.tcw x' = false /\ (TxRings.tcw x0 = true -> TxRings.tcwk x0 < TxRings.tcwk x')).
Proof. exact TxRingsProofs.tx_no_lost_wakeup. Qed.

(* the executable judgement of the `txrings` component accepts every run of the model *)
Theorem C17_txrings_judge_model : forall case, TxRings.judge case (TxRings.run case) = true.
Proof. exact TxRingsJudge.txrings_judge_run. Qed.

(* the executable judgement of the `rxring` component accepts every run of the model *)
Theorem C17_rxring_judge_model : forall case, RxRing.judge case (RxRing.run case) = true.
Proof. exact RxRingProofs.rxring_judge_run. Qed.

Print Assumptions C17_orderings.
Print Assumptions C17_spsc_fifo_exactly_once.
Print Assumptions C17_spsc_no_unwritten_slot.
Print Assumptions C17_spsc_no_lost_wakeup.
Print Assumptions C17_spsc_close_no_use_after_free_refuted.
Print Assumptions C17_spsc_close_no_use_after_free.
Print Assumptions C17_cursor_safe.
Print Assumptions C17_worker_no_lost_wakeup.
Print Assumptions C17_worker_conservation.
Print Assumptions C17_cursor_fifo.
Print Assumptions C17_rxring_no_lost_wakeup.
Print Assumptions C17_cursor_judge_model.
Print Assumptions C17_spsc_quiescent_wake.
Print Assumptions C17_rxring_judge_model.
Print Assumptions C17_txrings_no_lost_wakeup.
Print Assumptions C17_txrings_judge_model.
Print Assumptions C17_spsc_op_terminates.
Print Assumptions C17_spsc_judge_model_partial.
Print Assumptions C17_spsc_no_self_notify.
