(* E2E -- soundness of the end-to-end trace monitors (model/E2E.v) that judge traces of real
   s2n-quic endpoints recorded by harness/h_e2e.  Running a monitor on a trace is testing, not
   proof; the theorems below say what every accepted trace satisfies.
   Property theorems only; each is closed by [exact] of a lemma proved in proofs/E2EProofs.v. *)
From SQ Require Import lib.Base.
From SQ Require model.E2E proofs.E2EProofs.
Import E2E E2EProofs.
Local Open Scope Z_scope.

(* the judge of e2e_stream is the conjunction of the four monitors *)
Theorem E2E_stream_judge_parts : forall case out,
  e2e_stream_judge case out = true ->
  exists t, parse_stream out = Some t /\
    c01_ok (t_flows t) = true /\
    c02_ok (t_watchdog t) (t_connect_ok t) (t_n_bidi t) (t_n_uni t) (t_idle_ms t) (t_hs_ms t) (t_perm_bh t)
           (t_client t) (t_server t) (t_flows t) = true /\
    c12_ok (t_recs t) (t_opened t) = true /\
    c03_ok (t_recs t) = true.
Proof. exact stream_judge_parts. Qed.

(* the per-property judges (used when the component is attached to a single property) are exactly
   the conjuncts of the combined judge *)
Theorem E2E_stream_judge_split : forall case out,
  e2e_stream_judge case out =
  e2e_stream_judge_c01 case out && e2e_stream_judge_c02 case out &&
  e2e_stream_judge_c12 case out && e2e_stream_judge_c03 case out.
Proof. exact stream_judge_split. Qed.

(* C01.  [w] = the byte the sending application wrote at each offset, [rd] = the bytes the
   receiving application read (the harness reports length rd and first_wrong w 0 rd): what was
   read is a prefix of what was written, and the whole of it on a clean end of stream. *)
Theorem E2E_c01_sound : forall (w : Z -> Z) (rd : list Z) (f : flow),
  flow_ok f = true ->
  f_read f = Z.of_nat (length rd) ->
  f_wrong f = first_wrong w 0 rd ->
  is_prefix rd (wseq w 0 (Z.to_nat (f_written f))) /\
  (f_eos f = 1 -> f_fin f = 1 /\ rd = wseq w 0 (Z.to_nat (f_written f))).
Proof. exact c01_sound. Qed.

Theorem E2E_c01_all : forall fl f, c01_ok fl = true -> In f fl -> flow_ok f = true.
Proof. exact c01_all. Qed.

(* C02.  No stall; with finite faults everything completes; under a permanent blackhole either
   everything had completed or both endpoints report the failure no later than
   idle base + max(idle timeout, 3 PTO) (+ slack), and every application task resolved. *)
Theorem E2E_c02_sound : forall wd cok nb nu idle hs pbh c s fl,
  c02_ok wd cok nb nu idle hs pbh c s fl = true ->
  wd = 0 /\
  (pbh <> 1 -> cok = 1 /\ AllDone nb nu c s fl) /\
  (pbh = 1 -> AllDone nb nu c s fl \/ (Reports idle hs c /\ Reports idle hs s)).
Proof. exact c02_sound. Qed.

(* C12.  Any two frames of the trace, the earlier first, satisfy the pairwise relation ... *)
Theorem E2E_c12_pairs : forall recs pre o mid r post,
  pairs_ok compat [] recs = true -> recs = pre ++ o :: mid ++ r :: post -> compat o r = true.
Proof. exact c12_pairs. Qed.

(* ... whose meaning is: *)
Theorem E2E_c12_retransmission_identical : forall o r, compat o r = true -> SameStream o r ->
  r_kind o = K_STREAM -> r_kind r = K_STREAM -> r_off o = r_off r -> r_len o = r_len r ->
  r_ck o = r_ck r.
Proof. exact retransmission_identical. Qed.

Theorem E2E_c12_frames_are_slices : forall recs r, forallb slice_ok recs = true -> In r recs ->
  r_dir r = 0 -> r_kind r = K_STREAM -> r_badw r = -1 /\ r_badf r = -1.
Proof. exact frames_are_slices. Qed.

Theorem E2E_c12_nothing_beyond_final : forall o r z, compat o r = true -> SameStream o r ->
  final_of o = Some z -> r_kind r = K_STREAM -> rend r <= z.
Proof. exact nothing_beyond_final_after. Qed.

Theorem E2E_c12_final_not_below_sent : forall o r z, compat o r = true -> SameStream o r ->
  final_of r = Some z -> r_kind o = K_STREAM -> rend o <= z.
Proof. exact final_not_below_sent. Qed.

Theorem E2E_c12_final_size_stable : forall o r z z', compat o r = true -> SameStream o r ->
  final_of o = Some z -> final_of r = Some z' -> z' = z.
Proof. exact final_size_stable. Qed.

Theorem E2E_c12_quiet_after_reset : forall o r, compat o r = true -> SameStream o r ->
  r_kind o = K_RESET -> r_kind r = K_RESET.
Proof. exact quiet_after_reset. Qed.

Theorem E2E_c12_close_only_close : forall o r, compat o r = true -> SameSender o r ->
  r_kind o = K_CLOSE -> r_kind r = K_CLOSE.
Proof. exact close_only_close. Qed.

Theorem E2E_c12_ids_increase_no_reuse : forall l, ids_ok 0 2 l = true -> IdsFrom 0 2 l /\ NoDup l.
Proof. exact ids_sound. Qed.

(* C03.  Every sent STREAM frame ends within a stream-data limit, and (own streams) lies within a
   stream-count limit, that the same endpoint received earlier in the trace (transport
   parameters or MAX_* frames); the connection-wide sum stays within a received MAX_DATA. *)
Theorem E2E_c03_stream_limits : forall recs pre r post,
  c03_ok recs = true -> recs = pre ++ r :: post ->
  r_dir r = 0 -> r_kind r = K_STREAM ->
  Granted (grant_stream (r_ep r) (r_sid r)) (filter (fun x => r_dir x =? 1) pre) (rend r) /\
  (sid_initiator (r_sid r) = r_ep r ->
   Granted (grant_count (r_ep r) (r_sid r)) (filter (fun x => r_dir x =? 1) pre) (r_sid r / 4 + 1)).
Proof. exact c03_stream_limits. Qed.

Theorem E2E_c03_conn_limit : forall recs pre r post,
  c03_ok recs = true -> recs = pre ++ r :: post ->
  r_dir r = 0 -> r_kind r = K_STREAM ->
  Granted (grant_conn (r_ep r)) (filter (fun x => r_dir x =? 1) pre)
          (conn_used (r_ep r) (highs (fold_left upd03 (pre ++ [r]) st03_init))).
Proof. exact c03_conn_limit. Qed.

(* ... where the bookkeeping list holds, per (endpoint, stream), exactly the largest end offset
   among the STREAM frames sent so far, one entry per stream *)
Theorem E2E_c03_highs_meaning : forall pre s,
  NoDup (hkeys (highs s)) ->
  NoDup (hkeys (highs (fold_left upd03 pre s))) /\
  forall ep sid, hlookup ep sid (highs (fold_left upd03 pre s)) = hmax ep sid (hlookup ep sid (highs s)) pre.
Proof. exact highs_meaning. Qed.

(* C11.  The judge of e2e_amp runs amp_scan over the wire log ... *)
Theorem E2E_amp_judge_parts : forall case out, e2e_amp_judge case out = true ->
  exists rws, take_rows 7 (nz out 8) (skipn 10 out) = Some (rws, []) /\
    nz out 6 = 0 /\
    amp_scan (nz out 1) (nz out 2) [] 0 0 false (amp_log1 (nz out 9) (map mk_wrec rws)) = true /\
    (nz out 9 <> -1 ->
     amp_scan (nz out 1) (nz out 9) [] 0 0 false (amp_log2 (nz out 2) (nz out 9) (map mk_wrec rws)) = true).
Proof. exact amp_judge_parts. Qed.

(* the client's address after a rebinding is judged by the same scan on the rows that do not
   involve its first address, the path-validated marker playing the role of the address-validated one *)
Theorem E2E_amp_log2_rows : forall cli cli2 l e', In e' (amp_log2 cli cli2 l) ->
  exists e, In e l /\ e' = remark cli2 e /\ (involves cli e = false \/ w_kind e = 2).
Proof. exact amp_log2_rows. Qed.

(* ... and an accepted log satisfies, at every event [e] with the events [pre] before it: *)
Theorem E2E_amp_sound : forall srv cli l pre e post,
  amp_scan srv cli [] 0 0 false l = true -> l = pre ++ e :: post ->
  (srv_to srv cli e = true -> existsb is_marker pre = false ->
     sum_len (srv_to srv cli) pre < 3 * sum_len (to_srv_from srv cli) pre) /\
  (w_kind e = 0 -> w_src e = srv -> w_dst e <> cli -> reply_ok srv (rev pre) e = true) /\
  (w_kind e = 0 -> w_src e = cli -> w_class e = 1 -> 1200 <= w_len e).
Proof. exact amp_sound. Qed.

Theorem E2E_amp_reply_sound : forall srv seen e, reply_ok srv seen e = true ->
  exists l1 t l2, seen = l1 ++ t :: l2 /\
    to_srv_from srv (w_dst e) t = true /\
    (forall x, In x l1 -> srv_to srv (w_dst e) x = false /\ to_srv_from srv (w_dst e) x = false) /\
    (w_class e = 3 -> 1200 <= w_len t /\ w_class t <> 3) /\
    (w_class e <> 3 -> w_len e < w_len t).
Proof. exact reply_sound. Qed.

(* C06.  The judge of e2e_inject: data intact and complete, connections alive, and for both
   endpoints every processed packet genuine and each (space, packet number) at most once. *)
Theorem E2E_inject_judge_parts : forall case out, e2e_inject_judge case out = true ->
  exists fl prc prs,
    nz out 1 = 0 /\ nz out 2 = 1 /\
    c01_ok fl = true /\ (forall f, In f fl -> Complete f) /\
    Z.of_nat (length fl) = 2 * nz out 3 + nz out 4 /\
    ep_alive (mk_ep (firstn 12 (skipn 5 out))) = true /\
    ep_alive (mk_ep (firstn 12 (skipn 17 out))) = true /\
    processed_ok prc = true /\ processed_ok prs = true.
Proof. exact inject_judge_parts. Qed.

Theorem E2E_processed_sound : forall l, processed_ok l = true ->
  (forall p, In p l -> p_genuine p = 1) /\ NoDup (map pkey l).
Proof. exact processed_sound. Qed.

(* C08 (e2e_pn).  The judge runs pn_monitor over the event log ... *)
Theorem E2E_pn_judge_parts : forall case out, e2e_pn_judge case out = true ->
  exists rws, take_rows 8 (nz out 6) (skipn 8 out) = Some (rws, []) /\
    pn_monitor (nz out 3) (nz out 4) (nz out 7) (map mk_xrow rws) = true.
Proof. exact pn_judge_parts. Qed.

(* each endpoint is held to the max_ack_delay it advertised itself: mad0 client, mad1 server *)
Theorem E2E_pn_monitor_parts : forall endt mad0 mad1 l, pn_monitor endt mad0 mad1 l = true ->
  (forall ep sp, (ep = 0 \/ ep = 1) -> (sp = 0 \/ sp = 1 \/ sp = 2) ->
     incr1 ep sp (-1) l = true /\ ack1 ep sp [] l = true) /\
  ackt 0 (mad0 + ACK_SLACK_US) endt [] (-1) l = true /\
  ackt 1 (mad1 + ACK_SLACK_US) endt [] (-1) l = true.
Proof. exact pn_monitor_parts. Qed.

(* packet numbers built for sending by one endpoint in one space strictly increase (also across a Retry) *)
Theorem E2E_pn_strictly_increase : forall ep sp l pre o mid r post,
  incr1 ep sp (-1) l = true -> l = pre ++ o :: mid ++ r :: post ->
  row_is 0 ep sp o = true -> row_is 0 ep sp r = true -> x_a o < x_a r.
Proof. exact pn_strictly_increase. Qed.

(* every packet number inside a range of an ACK frame an endpoint sends was processed by that
   endpoint in that space earlier in the log *)
Theorem E2E_pn_ack_ranges_processed : forall ep sp l pre r post x,
  ack1 ep sp [] l = true -> l = pre ++ r :: post -> row_is 2 ep sp r = true ->
  x_a r <= x <= x_b r ->
  exists o, In o pre /\ row_is 1 ep sp o = true /\ x_a o = x.
Proof. exact ack_ranges_processed. Qed.

(* every obligation the monitor creates (an ack-eliciting application-space packet that is the
   largest processed so far, deadline = processing time + max_ack_delay + slack) is discharged *)
Theorem E2E_pn_acks_timely : forall ep d endt l pend largest,
  ackt ep d endt pend largest l = true ->
  (forall p, In p pend -> Discharged ep endt p l) /\
  (forall ob, In ob (obligations ep d largest l) -> Discharged ep endt (fst ob) (snd ob)).
Proof. exact ackt_sound. Qed.

Theorem E2E_pn_discharged_meaning : forall ep endt p l, Discharged ep endt p l ->
  (exists pre r post, l = pre ++ r :: post /\
     (forall o, In o pre -> x_t o <= snd p) /\ x_t r <= snd p /\
     (closes ep r = true \/ (row_is 2 ep 2 r = true /\ x_a r <= fst p <= x_b r))) \/
  ((forall o, In o l -> x_t o <= snd p) /\ endt <= snd p).
Proof. exact discharged_meaning. Qed.

(* C13 (e2e_cid).  Every row of the log is checked against the rows before it ... *)
Theorem E2E_cid_judge_parts : forall case out, e2e_cid_judge case out = true ->
  exists rws, take_rows 8 (nz out 6) (skipn 7 out) = Some (rws, []) /\
    cid_scan (nz out 3) (nz out 4) [] (map mk_xrow rws) = true.
Proof. exact cid_judge_parts. Qed.

Theorem E2E_cid_rows_checked : forall lc ls l p r post, cid_scan lc ls [] l = true ->
  l = p ++ r :: post -> cid_check lc ls (rev p) r = true.
Proof. exact cid_rows_checked. Qed.

(* ... which for a NEW_CONNECTION_ID frame sent means: retire_prior_to <= sequence number;
   sequence numbers consecutive; a repeated sequence number repeats id and token, a new one has
   an id and token never used before (the handshake id included); and the ids issued, not yet
   retired by the peer and not below the largest retire_prior_to sent stay within the
   active_connection_id_limit received from the peer *)
Theorem E2E_cid_new_sound : forall lc ls pre r, cid_check lc ls pre r = true -> x_k r = 0 ->
  c_rpt r <= c_seq r /\
  1 <= c_seq r <= max_of c_seq (filter (kind_of 0 (x_ep r)) pre) + 1 /\
  (forall o, In o pre -> kind_of 0 (x_ep r) o = true ->
     (c_seq o = c_seq r -> c_id o = c_id r /\ c_tok o = c_tok r) /\
     (c_seq o <> c_seq r -> c_id o <> c_id r /\ c_tok o <> c_tok r)) /\
  (forall o, In o pre -> kind_of 5 (x_ep r) o = true -> c_id o <> c_id r) /\
  (let rp := Z.max (c_rpt r) (max_of c_rpt (filter (kind_of 0 (x_ep r)) pre)) in
   let retired := map c_seq (filter (kind_of 3 (x_ep r)) pre) in
   let seqs := dedup (0 :: c_seq r :: map c_seq (filter (kind_of 0 (x_ep r)) pre)) in
   Z.of_nat (length (filter (fun s => (rp <=? s) && negb (mem_z s retired)) seqs))
     <= Z.max 2 (max_of c_seq (filter (kind_of 6 (x_ep r)) pre))).
Proof. exact cid_new_sound. Qed.

(* for a RETIRE_CONNECTION_ID frame sent: the sequence number was issued by the peer (or lies
   below a retire_prior_to received), and the frame does not travel in a packet addressed to
   the id it retires *)
Theorem E2E_cid_retire_sound : forall lc ls pre r, cid_check lc ls pre r = true -> x_k r = 1 ->
  (c_seq r <= max_of c_seq (filter (kind_of 2 (x_ep r)) pre) \/
   c_seq r < max_of c_rpt (filter (kind_of 2 (x_ep r)) pre)) /\
  (c_dcid r <> -1 ->
   (forall o, In o pre -> kind_of 2 (x_ep r) o = true -> c_seq o = c_seq r -> c_id o <> c_dcid r) /\
   (forall o, In o pre -> kind_of 5 (1 - x_ep r) o = true -> c_seq r = 0 -> c_id o <> c_dcid r)).
Proof. exact cid_retire_sound. Qed.

(* a datagram addressed to an id this endpoint issued is dropped as unknown only after the peer
   retired that id or this endpoint asked for its retirement *)
Theorem E2E_cid_drop_sound : forall lc ls pre r, cid_check lc ls pre r = true -> x_k r = 4 ->
  forall o, In o pre -> (kind_of 0 (x_ep r) o = true \/ kind_of 5 (x_ep r) o = true) ->
  c_id o = c_id r ->
  In (c_seq o) (map c_seq (filter (kind_of 3 (x_ep r)) pre)) \/
  c_seq o < max_of c_rpt (filter (kind_of 0 (x_ep r)) pre).
Proof. exact cid_drop_sound. Qed.

(* C09 / C10 (e2e_cc).  Each endpoint's rows up to the close are checked against the state the
   earlier rows produce ... *)
Theorem E2E_cc_judge_parts : forall case out, e2e_cc_judge case out = true ->
  exists rws, take_rows 8 (nz out 5) (skipn 6 out) = Some (rws, []) /\
    cc_scan (nz out 3) cc_init (filter (fun r => x_ep r =? 0) (map mk_xrow rws)) = true /\
    cc_scan (nz out 3) cc_init (filter (fun r => x_ep r =? 1) (map mk_xrow rws)) = true /\
    (nz out 3 = 0 ->
     once_scan once_init (filter (fun r => x_ep r =? 0) (map mk_xrow rws)) = true /\
     once_scan once_init (filter (fun r => x_ep r =? 1) (map mk_xrow rws)) = true).
Proof. exact cc_judge_parts. Qed.

(* C10, CUBIC: at most one window reduction per round trip *)
Theorem E2E_cc_once_scan_sound : forall l s, once_scan s l = true ->
  forall pre r post, l = pre ++ r :: post ->
  (forall o, In o pre -> x_k o <> 7) -> x_k r <> 7 ->
  once_check (fold_left once_upd pre s) r = true.
Proof. exact once_scan_sound. Qed.

Theorem E2E_cc_once_reduction_sound : forall s r, once_check s r = true ->
  x_k r = 3 -> o_lost s = true -> 0 <= o_rec s ->
  is_md (o_cwnd s) (g_a r) = false \/ g_a r <= 2 * o_mtu s.
Proof. exact once_reduction_sound. Qed.

Theorem E2E_cc_once_period_rule : forall s r, x_k r = 3 ->
  let s' := once_upd s r in
  (o_rec s < 0 -> 0 <= o_rec s' ->
     o_lost s = true /\ is_md (o_cwnd s) (g_a r) = true /\ o_rec s' = g_time r) /\
  (0 <= o_rec s -> o_rec s' < 0 ->
     o_rec s < o_ack_t s \/ (o_lost s = true /\ g_a r <= 2 * o_mtu s)).
Proof. exact once_period_rule. Qed.


Theorem E2E_cc_scan_sound : forall cc l s, cc_scan cc s l = true ->
  forall pre r post, l = pre ++ r :: post ->
  (forall o, In o pre -> x_k o <> 7) -> x_k r <> 7 ->
  cc_check cc (fold_left cc_upd pre s) r = true.
Proof. exact cc_scan_sound. Qed.

(* C09: a packet declared lost was in flight (so no packet is resolved twice), and a packet
   with a larger number had been acknowledged *)
Theorem E2E_cc_lost_sound : forall cc s r, cc_check cc s r = true -> x_k r = 2 ->
  exists u, In u (s_unres s) /\ u_sp u = g_x r /\ u_pn u = g_a r /\
            (g_c r <> 1 -> g_a r < s_largest s (g_x r)).
Proof. exact cc_lost_sound. Qed.

(* C09: a loss not justified by the packet threshold (3) or by the time threshold at the rtt
   values before the ACK is queued ... *)
Theorem E2E_cc_pending_rule : forall s r, x_k r = 2 ->
  s_pending (cc_upd s r) = s_pending s \/
  (exists age, s_pending (cc_upd s r) = (age, g_a r) :: s_pending s /\
     g_c r <> 1 /\ s_largest s (g_x r) - g_a r < 3 /\ age < time_threshold (s_srtt s) (s_latest s)).
Proof. exact cc_pending_rule. Qed.

(* ... and every queued loss meets the time threshold 9/8 max(srtt, latest) (>= 1 ms) at the rtt
   values of the next recovery metrics *)
Theorem E2E_cc_pending_sound : forall cc s r, cc_check cc s r = true -> x_k r = 3 ->
  forall p, In p (s_pending s) -> time_threshold (g_c r) (g_d r) <= fst p.
Proof. exact cc_pending_sound. Qed.

(* C09 / C10: reported bytes_in_flight equals the bookkeeping sum (except at the instant of a key
   space discard), is never negative; the window never drops below 2 (cubic) / 4 (bbr) datagrams *)
Theorem E2E_cc_metrics_sound : forall cc s r, cc_check cc s r = true -> x_k r = 3 ->
  (g_time r <> s_discard_t s -> g_b r = s_bif s) /\ 0 <= g_b r /\
  (if cc =? 0 then 2 else 4) * s_mtu s <= g_a r.
Proof. exact cc_metrics_sound. Qed.

Theorem E2E_cc_bif_invariant : forall l s, s_bif s = el_bytes (s_unres s) ->
  s_bif (fold_left cc_upd l s) = el_bytes (s_unres (fold_left cc_upd l s)).
Proof. exact cc_bif_invariant. Qed.

(* C10: a congestion controlled packet in normal mode is sent only while bytes in flight are
   below the window, or as the one packet after a congestion event *)
Theorem E2E_cc_sent_sound : forall cc s r, cc_check cc s r = true -> x_k r = 0 ->
  (forall u, In u (s_unres s) -> ~ (u_sp u = g_x r /\ u_pn u = g_a r)) /\
  (g_c r = 1 -> g_d r = 0 -> s_bif s < s_cwnd s \/ s_after_cong s = true).
Proof. exact cc_sent_sound. Qed.

(* C04 (e2e_violate).  After the rewritten packet was built the victim closes the connection
   itself, with a transport error that is the one RFC 9000 prescribes or PROTOCOL_VIOLATION /
   INTERNAL_ERROR, within two network delays + 100 ms, and no wrong byte reached an application *)
Theorem E2E_violate_judge_parts : forall case out, e2e_violate_judge case out = true ->
  exists frows, take_rows 10 (nz out 11) (skipn 12 out) = Some (frows, []) /\
    violate_ok {| v_injected := nz out 2; v_time := nz out 3; v_expected := nz out 4; v_delay_ms := nz out 5;
                  v_closed := nz out 6; v_class := nz out 7; v_code := nz out 8; v_closed_us := nz out 9;
                  v_local := nz out 10; v_flows := map mk_flow frows |} = true.
Proof. exact violate_judge_parts. Qed.

Theorem E2E_violate_sound : forall t, violate_ok t = true -> v_injected t <> 0 ->
  v_closed t = 1 /\ v_class t = 2 /\ v_local t = 1 /\
  (v_code t = v_expected t \/ v_code t = 10 \/ v_code t = 1) /\
  v_closed_us t <= v_time t + 2 * v_delay_ms t * 1000 + 100000 /\
  (forall f, In f (v_flows t) -> f_wrong f = -1).
Proof. exact violate_sound. Qed.

Print Assumptions E2E_stream_judge_parts.
Print Assumptions E2E_c01_sound.
Print Assumptions E2E_c01_all.
Print Assumptions E2E_c02_sound.
Print Assumptions E2E_c12_pairs.
Print Assumptions E2E_c12_retransmission_identical.
Print Assumptions E2E_c12_frames_are_slices.
Print Assumptions E2E_c12_nothing_beyond_final.
Print Assumptions E2E_c12_final_not_below_sent.
Print Assumptions E2E_c12_final_size_stable.
Print Assumptions E2E_c12_quiet_after_reset.
Print Assumptions E2E_c12_close_only_close.
Print Assumptions E2E_c12_ids_increase_no_reuse.
Print Assumptions E2E_c03_stream_limits.
Print Assumptions E2E_c03_conn_limit.
Print Assumptions E2E_amp_judge_parts.
Print Assumptions E2E_amp_sound.
Print Assumptions E2E_amp_reply_sound.
Print Assumptions E2E_inject_judge_parts.
Print Assumptions E2E_processed_sound.
Print Assumptions E2E_c03_highs_meaning.
Print Assumptions E2E_stream_judge_split.
Print Assumptions E2E_pn_judge_parts.
Print Assumptions E2E_pn_monitor_parts.
Print Assumptions E2E_pn_strictly_increase.
Print Assumptions E2E_pn_ack_ranges_processed.
Print Assumptions E2E_pn_acks_timely.
Print Assumptions E2E_pn_discharged_meaning.
Print Assumptions E2E_cid_judge_parts.
Print Assumptions E2E_cid_rows_checked.
Print Assumptions E2E_cid_new_sound.
Print Assumptions E2E_cid_retire_sound.
Print Assumptions E2E_cid_drop_sound.
Print Assumptions E2E_cc_judge_parts.
Print Assumptions E2E_cc_scan_sound.
Print Assumptions E2E_cc_lost_sound.
Print Assumptions E2E_cc_pending_rule.
Print Assumptions E2E_cc_pending_sound.
Print Assumptions E2E_cc_metrics_sound.
Print Assumptions E2E_cc_bif_invariant.
Print Assumptions E2E_cc_sent_sound.
Print Assumptions E2E_cc_once_scan_sound.
Print Assumptions E2E_cc_once_reduction_sound.
Print Assumptions E2E_cc_once_period_rule.
Print Assumptions E2E_violate_judge_parts.
Print Assumptions E2E_violate_sound.
Print Assumptions E2E_amp_log2_rows.
