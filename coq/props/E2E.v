(* E2E -- soundness of the end-to-end trace monitors (model/E2E.v) that judge traces of real
   s2n-quic endpoints recorded by harness/h_e2e.  Running a monitor on a trace is testing, not
   proof; the theorems below say what every accepted trace satisfies.
   Property theorems only; each is closed by [exact] of a lemma proved in proofs/E2EProofs.v. *)
From SQ Require Import lib.Base.
From SQ Require model.E2E proofs.E2EProofs.
Import E2E E2EProofs.
Local Open Scope Z_scope.

(* the judge of e2e_stream is the conjunction of the four monitors *)
Theorem E2E_stream_judge_parts : forall case out,
  e2e_stream_judge case out = true ->
  exists t, parse_stream out = Some t /\
    c01_ok (t_flows t) = true /\
    c02_ok (t_watchdog t) (t_connect_ok t) (t_n_bidi t) (t_n_uni t) (t_idle_ms t) (t_perm_bh t)
           (t_client t) (t_server t) (t_flows t) = true /\
    c12_ok (t_recs t) (t_opened t) = true /\
    c03_ok (t_recs t) = true.
Proof. exact stream_judge_parts. Qed.

(* C01.  [w] = the byte the sending application wrote at each offset, [rd] = the bytes the
   receiving application read (the harness reports length rd and first_wrong w 0 rd): what was
   read is a prefix of what was written, and the whole of it on a clean end of stream. *)
Theorem E2E_c01_sound : forall (w : Z -> Z) (rd : list Z) (f : flow),
  flow_ok f = true ->
  f_read f = Z.of_nat (length rd) ->
  f_wrong f = first_wrong w 0 rd ->
  is_prefix rd (wseq w 0 (Z.to_nat (f_written f))) /\
  (f_eos f = 1 -> f_fin f = 1 /\ rd = wseq w 0 (Z.to_nat (f_written f))).
Proof. exact c01_sound. Qed.

Theorem E2E_c01_all : forall fl f, c01_ok fl = true -> In f fl -> flow_ok f = true.
Proof. exact c01_all. Qed.

(* C02.  No stall; with finite faults everything completes; under a permanent blackhole either
   everything had completed or both endpoints report the failure no later than
   idle base + max(idle timeout, 3 PTO) (+ slack), and every application task resolved. *)
Theorem E2E_c02_sound : forall wd cok nb nu idle pbh c s fl,
  c02_ok wd cok nb nu idle pbh c s fl = true ->
  wd = 0 /\
  (pbh <> 1 -> cok = 1 /\ AllDone nb nu c s fl) /\
  (pbh = 1 -> AllDone nb nu c s fl \/ (Reports idle c /\ Reports idle s)).
Proof. exact c02_sound. Qed.

(* C12.  Any two frames of the trace, the earlier first, satisfy the pairwise relation ... *)
Theorem E2E_c12_pairs : forall recs pre o mid r post,
  pairs_ok compat [] recs = true -> recs = pre ++ o :: mid ++ r :: post -> compat o r = true.
Proof. exact c12_pairs. Qed.

(* ... whose meaning is: *)
Theorem E2E_c12_retransmission_identical : forall o r, compat o r = true -> SameStream o r ->
  r_kind o = K_STREAM -> r_kind r = K_STREAM -> r_off o = r_off r -> r_len o = r_len r ->
  r_ck o = r_ck r.
Proof. exact retransmission_identical. Qed.

Theorem E2E_c12_frames_are_slices : forall recs r, forallb slice_ok recs = true -> In r recs ->
  r_dir r = 0 -> r_kind r = K_STREAM -> r_badw r = -1 /\ r_badf r = -1.
Proof. exact frames_are_slices. Qed.

Theorem E2E_c12_nothing_beyond_final : forall o r z, compat o r = true -> SameStream o r ->
  final_of o = Some z -> r_kind r = K_STREAM -> rend r <= z.
Proof. exact nothing_beyond_final_after. Qed.

Theorem E2E_c12_final_not_below_sent : forall o r z, compat o r = true -> SameStream o r ->
  final_of r = Some z -> r_kind o = K_STREAM -> rend o <= z.
Proof. exact final_not_below_sent. Qed.

Theorem E2E_c12_final_size_stable : forall o r z z', compat o r = true -> SameStream o r ->
  final_of o = Some z -> final_of r = Some z' -> z' = z.
Proof. exact final_size_stable. Qed.

Theorem E2E_c12_quiet_after_reset : forall o r, compat o r = true -> SameStream o r ->
  r_kind o = K_RESET -> r_kind r = K_RESET.
Proof. exact quiet_after_reset. Qed.

Theorem E2E_c12_close_only_close : forall o r, compat o r = true -> SameSender o r ->
  r_kind o = K_CLOSE -> r_kind r = K_CLOSE.
Proof. exact close_only_close. Qed.

Theorem E2E_c12_ids_increase_no_reuse : forall l, ids_ok 0 2 l = true -> IdsFrom 0 2 l /\ NoDup l.
Proof. exact ids_sound. Qed.

(* C03.  Every sent STREAM frame ends within a stream-data limit, and (own streams) lies within a
   stream-count limit, that the same endpoint received earlier in the trace (transport
   parameters or MAX_* frames); the connection-wide sum stays within a received MAX_DATA. *)
Theorem E2E_c03_stream_limits : forall recs pre r post,
  c03_ok recs = true -> recs = pre ++ r :: post ->
  r_dir r = 0 -> r_kind r = K_STREAM ->
  Granted (grant_stream (r_ep r) (r_sid r)) (filter (fun x => r_dir x =? 1) pre) (rend r) /\
  (sid_initiator (r_sid r) = r_ep r ->
   Granted (grant_count (r_ep r) (r_sid r)) (filter (fun x => r_dir x =? 1) pre) (r_sid r / 4 + 1)).
Proof. exact c03_stream_limits. Qed.

Theorem E2E_c03_conn_limit : forall recs pre r post,
  c03_ok recs = true -> recs = pre ++ r :: post ->
  r_dir r = 0 -> r_kind r = K_STREAM ->
  Granted (grant_conn (r_ep r)) (filter (fun x => r_dir x =? 1) pre)
          (conn_used (r_ep r) (highs (fold_left upd03 (pre ++ [r]) st03_init))).
Proof. exact c03_conn_limit. Qed.

Print Assumptions E2E_stream_judge_parts.
Print Assumptions E2E_c01_sound.
Print Assumptions E2E_c01_all.
Print Assumptions E2E_c02_sound.
Print Assumptions E2E_c12_pairs.
Print Assumptions E2E_c12_retransmission_identical.
Print Assumptions E2E_c12_frames_are_slices.
Print Assumptions E2E_c12_nothing_beyond_final.
Print Assumptions E2E_c12_final_not_below_sent.
Print Assumptions E2E_c12_final_size_stable.
Print Assumptions E2E_c12_quiet_after_reset.
Print Assumptions E2E_c12_close_only_close.
Print Assumptions E2E_c12_ids_increase_no_reuse.
Print Assumptions E2E_c03_stream_limits.
Print Assumptions E2E_c03_conn_limit.
