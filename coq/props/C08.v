(* C08 -- ACKs name only packets really received; packet numbers strictly increase and always
   reconstruct.  Property theorems only; each is closed by [exact] of a lemma proved in proofs/. *)
From SQ Require Import lib.Base gen.Gen_C08.
From SQ Require model.PacketNumber proofs.PacketNumberProofs model.TxPn proofs.TxPnProofs.
From SQ Require model.AckManager proofs.AckManagerProofs proofs.AckRangesLemmas proofs.AckJudgeProofs.
From Coq Require Import Sorting.Sorted.
Import PacketNumber.
Local Open Scope N_scope.

(* ---- component pn: truncation (sender) and expansion (receiver) of packet numbers ---- *)

(* the implementation's decoder computes RFC 9000 A.3 (transcribed separately over Z) for every
   largest_pn below 2^62 and every 1..4 byte truncated value: exactly whenever a successor of
   largest_pn exists, and saturated at 2^62 - 1 in general (A.3 itself leaves the packet number range
   when largest_pn = 2^62 - 1, see C08_decode_is_rfc_a3_at_max) *)
Theorem C08_decode_is_rfc_a3 : forall L len t,
  PacketNumberProofs.valid_len len -> L < two62 -> t < win len ->
  Nz (impl_decode L len t) = Z.min (rfc_a3_decode (Nz L) (Nz t) (8 * Nz len)) (Nz varint_max) /\
  (L + 1 < two62 -> Nz (impl_decode L len t) = rfc_a3_decode (Nz L) (Nz t) (8 * Nz len)).
Proof. exact PacketNumberProofs.decode_is_rfc_a3. Qed.

Theorem C08_decode_is_rfc_a3_at_max :
  impl_decode varint_max 1 0 = varint_max /\ rfc_a3_decode (Nz varint_max) 0 8 = Nz two62.
Proof. exact PacketNumberProofs.decode_is_rfc_a3_at_max. Qed.

(* truncation fails exactly when twice the distance to the largest acknowledged number does not
   fit 32 bits (and when the number is below the largest acknowledged one) *)
Theorem C08_truncate_defined : forall la pn, la <= pn -> pn < two62 ->
  (truncate pn la = None <-> 4294967296 <= 2 * (pn - la)).
Proof. exact PacketNumberProofs.truncate_defined. Qed.

Theorem C08_truncate_below : forall la pn, pn < la -> truncate pn la = None.
Proof. exact PacketNumberProofs.truncate_below. Qed.

(* what a truncation is: 1..4 bytes, the low bits of pn, a window of more than twice the distance
   (RFC 9000 section 17.1), and the shortest such length *)
Theorem C08_truncate_some : forall pn la len t, pn < two62 -> truncate pn la = Some (len, t) ->
  PacketNumberProofs.valid_len len /\ t = pn mod win len /\ la <= pn /\ 2 * (pn - la) < win len /\
  (len = 1 \/ win (len - 1) <= 2 * (pn - la)).
Proof. exact PacketNumberProofs.truncate_some. Qed.

(* relation to the informative A.2 pseudo code: same length, or one byte more exactly at distance 2^(8b-1) *)
Theorem C08_truncate_vs_rfc_a2 : forall pn la len t, pn < two62 -> truncate pn la = Some (len, t) ->
  exists b, rfc_a2_num_bytes pn la = Some b /\ (len = b \/ (len = b + 1 /\ pn - la = win b / 2)).
Proof. exact PacketNumberProofs.truncate_vs_rfc_a2. Qed.

(* for EVERY expansion base L at or above the largest acknowledged number used by the sender, with
   pn inside the RFC window around L + 1, expansion gives back exactly pn *)
Theorem C08_reconstruct : forall la L pn len t, la <= pn -> pn < two62 ->
  truncate pn la = Some (len, t) -> la <= L -> L < two62 ->
  L + 1 < pn + win len / 2 -> pn <= L + 1 + win len / 2 ->
  impl_decode L len t = pn.
Proof. exact PacketNumberProofs.reconstruct. Qed.

(* a peer that knows only the largest acknowledged number (its largest received number is anywhere
   between that and pn - 1) reconstructs pn, without any window hypothesis *)
Theorem C08_reconstruct_in_order : forall la L pn len t, pn < two62 ->
  truncate pn la = Some (len, t) -> la <= L -> L < pn ->
  impl_decode L len t = pn.
Proof. exact PacketNumberProofs.reconstruct_in_order. Qed.

(* receiver alone: any number in the window congruent to the received bits is what is returned *)
Theorem C08_reconstruct_rx : forall L len pn, PacketNumberProofs.valid_len len -> L < two62 -> pn < two62 ->
  L + 1 < pn + win len / 2 -> pn <= L + 1 + win len / 2 ->
  impl_decode L len (pn mod win len) = pn.
Proof. exact PacketNumberProofs.reconstruct_rx. Qed.

Theorem C08_pn_judge_model : forall c, PacketNumberProofs.wf_case c ->
  PacketNumber.judge c (PacketNumber.run c) = true.
Proof. exact PacketNumberProofs.judge_run. Qed.

(* non-vacuity: RFC 9000 A.2 / A.3 examples and the O4 replay (1127 sent in one byte against 1000
   decodes for every base in 1000..1126, and not for the regressed base 950) *)
Example C08_pn_example :
  truncate 11295746 11266236 = Some (2, 23554) /\ impl_decode 2821665002 2 39730 = 2821692210
  /\ truncate 1127 1000 = Some (1, 103) /\ impl_decode 1000 1 103 = 1127 /\ impl_decode 950 1 103 = 871.
Proof. repeat split; vm_compute; reflexivity. Qed.

(* ---- component txpn: TxPacketNumbers with the skip logic of ApplicationSpace::on_transmit ---- *)

(* every sequence of transmissions (with PTO / optimistic-ack skips, abandoned packets, jumps),
   acknowledgements (accepted or rejected): the packet numbers put on the wire strictly increase *)
Theorem C08_pn_strictly_increase : forall ops,
  StronglySorted N.lt (TxPnProofs.sent_of (TxPn.steps TxPn.tinit ops)).
Proof. exact TxPnProofs.sent_strictly_increasing. Qed.

(* a number skipped for optimistic-ack mitigation is never used for a packet *)
Theorem C08_skipped_never_sent : forall ops k,
  In k (TxPnProofs.skipped_of (TxPn.steps TxPn.tinit ops)) -> ~ In k (TxPnProofs.sent_of (TxPn.steps TxPn.tinit ops)).
Proof. exact TxPnProofs.skipped_never_sent. Qed.

(* the truncation base (largest_sent_acked) never exceeds the next packet number, which stays in range:
   together with C08_truncate_defined, truncation can only fail by distance *)
Theorem C08_base_le_next : forall ops,
  TxPn.lsa (TxPn.final TxPn.tinit ops) <= TxPn.next (TxPn.final TxPn.tinit ops) /\
  TxPn.next (TxPn.final TxPn.tinit ops) <= varint_max.
Proof. exact TxPnProofs.base_le_next. Qed.

(* the judgement (strict increase, skipped numbers strictly between neighbours, base never above the
   largest number acknowledged so far, next above everything sent) accepts every run of the model *)
Theorem C08_txpn_judge_model : forall c, TxPn.judge c (TxPn.run c) = true.
Proof. exact TxPnProofs.judge_run. Qed.

Example C08_txpn_example :
  TxPn.run [0; 0; 0; 2; 0; 1; 1; 1; 5; 0; 0; 0; 1; 0; 0; 5; 2; 100; 0; 3]%Z
  = [0; -1; 2; 1; 4; -1; 1; 0; 5; 0; 5; -1; 0; 0; 6; 1; 106; -1; 108; 107]%Z.
Proof. vm_compute. reflexivity. Qed.

(* ---- component ackmgr: AckManager (ack ranges, delay timer, transmission state, ack-of-ack pruning) ---- *)

(* every configuration, every sequence of processed packets (any order, gaps, duplicates, ECN marks),
   packet assemblies under any constraint / mode, acknowledgements and losses of ACK-carrying packets,
   timeouts: each packet number named by each emitted ACK frame was handed to on_processed_packet
   before that frame was written *)
Theorem C08_acks_subset_processed : forall c ops fr P',
  In (fr, P') (AckManagerProofs.emitted 1 (AckManager.init c) [] ops) ->
  forall x, AckManager.in_ranges x (AckManager.f_ranges fr) = true -> In x P'.
Proof. exact AckManagerProofs.acks_subset_processed. Qed.

(* an ack-eliciting packet that is not the successor of the largest number in ack_ranges (gap,
   reordering, duplicate) or is CE-marked makes the manager demand a transmission in the same step *)
Theorem C08_immediate_on_reorder : forall s pn now0 ecnc pc,
  1 <= AckManager.ranges_limit (AckManager.cfg s) ->
  (ecnc = 3 \/ exists m, AckManager.max_value (AckManager.rng s) = Some m /\ m < varint_max /\ pn <> m + 1) ->
  AckManager.is_active (AckManager.ts (AckManager.on_processed_packet s pn true now0 ecnc pc)) = true.
Proof. exact AckManagerProofs.immediate_on_reorder. Qed.

(* ack::Ranges holds only inserted numbers (insertion with eviction, ack-of-ack removal) *)
Theorem C08_ranges_only_inserted : forall l pn lim x,
  AckManager.in_ranges x (AckManager.insert_packet_number pn l lim) = true -> x = pn \/ AckManager.in_ranges x l = true.
Proof. exact AckManagerProofs.insert_packet_number_in. Qed.

(* the defaults the property names: max_ack_delay 25 ms, exponent 3, PING every 4th pure-ACK packet,
   10 ranges, an ACK at least every 10th packet *)
Theorem C08_ack_defaults : AckManager.default_settings =
  {| AckManager.max_ack_delay := 25000; AckManager.exponent := 3;
     AckManager.elicitation_interval := 4; AckManager.ranges_limit := 10 |} /\ packet_tolerance = 10.
Proof. exact AckManagerProofs.ack_defaults. Qed.

(* ack_deadline, for every configuration and every operation sequence (packet numbers below 2^62 - 1):
   running the model together with the reference bookkeeping of the judgement (AckJudgeProofs.exec), every
   ack-eliciting packet that is owed an acknowledgement -- processed, above the largest acknowledged of
   every ACK frame whose carrier was acknowledged (RFC 9000 13.2.4), and not covered by an ACK frame
   whose carrier is still in flight (a frame emitted after ack_ranges_limit packets were processed
   counts as covering everything that arrived before it, 13.2.3; a covered packet is owed again when all
   covering frames travelled in ack-eliciting packets declared lost) -- has the manager demanding a
   transmission, or the delay timer armed no later than its arrival + max_ack_delay *)
Theorem C08_ack_deadline : forall c ops, 1 <= AckManager.ranges_limit c -> Forall AckJudgeProofs.op_wf ops ->
  let '(now', s', rf') := AckJudgeProofs.exec 1 (AckManager.init c) AckManager.ref0 ops in
  forall p t, In (p, t) (AckManager.pend rf') ->
    AckManager.is_active (AckManager.ts s') = true \/
    exists d, AckManager.timer s' = Some d /\ d <= t + AckManager.max_ack_delay c.
Proof. exact AckJudgeProofs.ack_deadline. Qed.

(* the executable judgement (acks_subset_processed, immediate_on_reorder, ack_deadline evaluated on an
   implementation's frames and timer values) accepts every run of the model *)
Theorem C08_ackmgr_judge_model : forall c, Forall (fun z => (z < 4611686018427387903)%Z) c ->
  AckManager.judge c (AckManager.run c) = true.
Proof. exact AckJudgeProofs.judge_run. Qed.

(* every reachable ack_ranges value is well formed, ascending with a gap between neighbouring intervals,
   and within ack_ranges_limit -- the hypotheses of C08_ranges_drop_only_lowest *)
Theorem C08_ranges_ascending : forall c ops, 1 <= AckManager.ranges_limit c -> Forall AckJudgeProofs.op_wf ops ->
  let '(now', s', rf') := AckJudgeProofs.exec 1 (AckManager.init c) AckManager.ref0 ops in
  AckRangesLemmas.WF (AckManager.rng s') /\ AckRangesLemmas.Asc (AckManager.rng s') /\
  AckManager.len (AckManager.rng s') <= AckManager.ranges_limit c.
Proof. exact AckJudgeProofs.ranges_ascending. Qed.

(* capacity eviction: what insert_packet_number sheds lies in the lowest interval, below the inserted
   number, every other interval is retained; on an ascending list it is below every retained number *)
Theorem C08_ranges_drop_only_lowest : forall l pn lim x,
  AckRangesLemmas.WF l -> AckManager.len l <= lim -> 1 <= lim ->
  AckManager.in_ranges x l = true -> AckManager.in_ranges x (AckManager.insert_packet_number pn l lim) = false ->
  (exists a b t, l = (a, b) :: t /\ a <= x <= b /\ b < pn /\
     (forall y, AckManager.in_ranges y t = true ->
                AckManager.in_ranges y (AckManager.insert_packet_number pn l lim) = true)) /\
  (AckRangesLemmas.Asc l ->
   forall y, AckManager.in_ranges y (AckManager.insert_packet_number pn l lim) = true -> x < y).
Proof. exact AckJudgeProofs.ranges_drop_only_lowest. Qed.

(* non-vacuity (O4 shape): in-order eliciting packets arm the 25 ms timer, a gap activates, the ACK
   names exactly the processed numbers *)
Example C08_ackmgr_example :
  AckManager.run [0; 0;0;5;1; 0;10;6;1; 0;0;8;1; 1;0;16;7]%Z
  = [25001;0;0; 25001;0;0; 25001;1;0; 1;0;0;-1;-1;-1;2;8;8;5;6; -1;0;8]%Z.
Proof. vm_compute. reflexivity. Qed.

Print Assumptions C08_decode_is_rfc_a3.
Print Assumptions C08_decode_is_rfc_a3_at_max.
Print Assumptions C08_truncate_defined.
Print Assumptions C08_truncate_below.
Print Assumptions C08_truncate_some.
Print Assumptions C08_truncate_vs_rfc_a2.
Print Assumptions C08_reconstruct.
Print Assumptions C08_reconstruct_in_order.
Print Assumptions C08_reconstruct_rx.
Print Assumptions C08_pn_judge_model.
Print Assumptions C08_pn_strictly_increase.
Print Assumptions C08_skipped_never_sent.
Print Assumptions C08_base_le_next.
Print Assumptions C08_txpn_judge_model.
Print Assumptions C08_acks_subset_processed.
Print Assumptions C08_immediate_on_reorder.
Print Assumptions C08_ranges_only_inserted.
Print Assumptions C08_ack_defaults.
Print Assumptions C08_ack_deadline.
Print Assumptions C08_ackmgr_judge_model.
Print Assumptions C08_ranges_drop_only_lowest.
Print Assumptions C08_ranges_ascending.
