(* C12 -- placeholder while the correspondence is brought up *)
From SQ Require Import lib.Base gen.Gen_C12.
From SQ Require model.DataSender model.SendJudge.
Theorem C12_stream_id_step_is_4 : Gen_C12.stream_id_step = 4%N.
Proof. reflexivity. Qed.
Print Assumptions C12_stream_id_step_is_4.
