(* C12 -- what an endpoint sends on a stream and at close is self-consistent.
   Property theorems only; each is closed by [exact] of a lemma proved in proofs/. *)
From SQ Require Import lib.Base gen.Gen_C12.
From SQ Require model.DataSender model.SendJudge model.StreamId model.CloseSender.
From SQ Require proofs.SendProofs proofs.SendProofs12 proofs.StreamIdProofs proofs.CloseSenderProofs.
Import DataSender SendJudge.
Local Open Scope N_scope.

(* frames_are_slices: the one place that writes stream data, transmit_interval, writes a STREAM frame
   whose payload is exactly the slice [lo, h) of what was written on that stream (position-keyed
   payload), with lo < h <= the requested end *)
Theorem C12_frames_are_slices : forall salt s c p lo hi h s' c' p',
  tx_interval salt s c p lo hi = (Some h, s', c', p') ->
  (exists size fin, p' = p_write p size (mk_frame 1 (s_sid s) lo 0 fin (slice salt (s_k s) lo (h - lo))) /\ size <= p_rem p)
  /\ lo < h /\ h <= hi
  /\ h <= f_maxsd (s_fc s') /\ h <= f_acq (s_fc s')
  /\ c_total c' = c_total c /\ f_acq (s_fc s') + c_avail c' = f_acq (s_fc s) + c_avail c
  /\ f_maxsd (s_fc s') = f_maxsd (s_fc s) /\ f_acq (s_fc s) <= f_acq (s_fc s').
Proof. exact SendProofs.tx_interval_frame. Qed.

(* retransmission_identical: two such payloads that both cover offset o carry the same byte at o,
   whatever the segmentation *)
Theorem C12_retransmission_identical : forall salt k lo1 len1 lo2 len2 o,
  lo1 <= o -> o < lo1 + len1 -> lo2 <= o -> o < lo2 + len2 ->
  nth (N.to_nat (o - lo1)) (slice salt k lo1 len1) 0 = nth (N.to_nat (o - lo2)) (slice salt k lo2 len2) 0.
Proof. exact SendProofs.retransmission_identical. Qed.

(* quiet_after_reset: a reset puts the stream into a shape (SendStreamState <> Sending, DataSender
   cancelled and cleared, STREAM_DATA_BLOCKED sync cancelled) that is stable under transmission and in
   which on_transmit writes nothing but the RESET_STREAM with the final size fixed at reset time *)
Theorem C12_reset_enters_quiet_shape : forall s code app, s_ss s = 0 -> s_ds s <> 5 ->
  SendProofs.reset_shape (ss_reset s code app).
Proof. exact SendProofs.reset_shape_reset. Qed.

Theorem C12_quiet_after_reset : forall salt s c p r s' c' p',
  SendProofs.reset_shape s -> ss_transmit salt s c p = (r, s', c', p') ->
  (p_out p' = p_out p \/
   p_out p' = p_out p ++ [mk_frame 2 (s_sid s) (s_rst_final s) (s_rst_code s) false []])
  /\ SendProofs.reset_shape s'.
Proof. exact SendProofs.quiet_after_reset. Qed.

(* all histories: for every case (any number of streams, any sequence of writes, finish, reset,
   STOP_SENDING, packets of any capacity / constraint / mode, acks, losses, MAX_* in any order) the
   extracted stream judgement accepts the run of the model.  The judgement walks the frames in emission
   order with the monitor state (bytes written, highest end offset sent, announced final size,
   RESET_STREAM sent) recomputed from the operations alone, and applies chk12 to every frame *)
Theorem C12_ss_judge_run : forall case, judge12 case (DataSender.run case) = true.
Proof. exact SendProofs12.judge12_run. Qed.

(* what acceptance of a frame means (with C12_ss_judge_run: for every frame of every history):
   frames_are_slices, quiet_after_reset, nothing_beyond_final, final_size_stable *)
Theorem C12_stream_frame_meaning : forall salt n m f, fr_kind f = 1 -> chk12 salt n m f = true ->
  exists i, frame_stream n f = Some i /\
    let s := get_ms m i in let e := fr_val f + N.of_nat (length (fr_data f)) in
    m_rst s = false /\ e <= m_w s /\
    fr_data f = slice salt i (fr_val f) (N.of_nat (length (fr_data f))) /\
    (forall z, m_fin s = Some z -> e <= z) /\
    (fr_fin f = true -> m_hi s <= e /\ forall z, m_fin s = Some z -> z = e).
Proof. exact SendProofs12.chk12_stream_meaning. Qed.

Theorem C12_final_size_stable : forall salt n m f, fr_kind f = 2 -> chk12 salt n m f = true ->
  exists i, frame_stream n f = Some i /\
    m_hi (get_ms m i) <= fr_val f /\ forall z, m_fin (get_ms m i) = Some z -> z = fr_val f.
Proof. exact SendProofs12.chk12_reset_meaning. Qed.

Theorem C12_no_blocked_after_reset : forall salt n m f, fr_kind f = 3 -> chk12 salt n m f = true ->
  exists i, frame_stream n f = Some i /\ m_rst (get_ms m i) = false.
Proof. exact SendProofs12.chk12_blocked_meaning. Qed.

(* ids_increase_no_reuse: every id handed out has the low bits of its type and is strictly above the
   previous id of that type (ids are initial + 4 * number opened before) *)
Theorem C12_ids_increase_no_reuse : forall server t c y id c',
  StreamIdProofs.Inv server t c y -> StreamId.l_open server t c = (Some id, c') ->
  StreamId.ok12 server t y id = true /\ StreamIdProofs.Inv server t c' (StreamId.mk_mty (Some id) (StreamId.y_lim y)).
Proof. exact StreamIdProofs.open_ok12. Qed.

Theorem C12_st_judge_run : forall case, StreamId.judge12 case (StreamId.run case) = true.
Proof. exact StreamIdProofs.judge12_run. Qed.

(* close_only_close: the close sender only ever writes its stored close packet, and every copy after
   the first is written in response to a datagram received since the previous copy (all histories; the
   driver offers an opportunity to send after every event, as the connection's event loop does) *)
Theorem C12_cs_judge_run : forall case, CloseSender.judge case (CloseSender.run case) = true.
Proof. exact CloseSenderProofs.judge_run. Qed.

(* a copy is accepted only if it is the first one or a datagram was received since the previous copy *)
Theorem C12_close_copy_in_response : forall sent fresh s' f',
  CloseSender.copy_ok sent fresh 1%Z = Some (s', f') ->
  (sent = false \/ fresh = true) /\ s' = true /\ f' = false.
Proof. exact CloseSenderProofs.copy_in_response. Qed.

Theorem C12_stream_id_step_is_4 : Gen_C12.stream_id_step = 4.
Proof. reflexivity. Qed.

Theorem C12_min_write_size_is_32 : Gen_C12.min_write_size = 32.
Proof. reflexivity. Qed.

(* non-vacuity: loss and retransmission in a different segmentation, then FIN *)
Example C12_example :
  judge12 [9; 10000; 0; 0; 10000; 1; 0; 200; 5; 1; 120; 0; 0; 5; 1; 120; 0; 0; 7; 0; 0; 5; 1; 33; 0; 0; 2; 0; 5; 1; 1200; 0; 0]%Z
    (DataSender.run [9; 10000; 0; 0; 10000; 1; 0; 200; 5; 1; 120; 0; 0; 5; 1; 120; 0; 0; 7; 0; 0; 5; 1; 33; 0; 0; 2; 0; 5; 1; 1200; 0; 0]%Z) = true.
Proof. vm_compute. reflexivity. Qed.

Print Assumptions C12_frames_are_slices.
Print Assumptions C12_retransmission_identical.
Print Assumptions C12_reset_enters_quiet_shape.
Print Assumptions C12_quiet_after_reset.
Print Assumptions C12_ss_judge_run.
Print Assumptions C12_stream_frame_meaning.
Print Assumptions C12_final_size_stable.
Print Assumptions C12_no_blocked_after_reset.
Print Assumptions C12_ids_increase_no_reuse.
Print Assumptions C12_st_judge_run.
Print Assumptions C12_cs_judge_run.
Print Assumptions C12_close_copy_in_response.
Print Assumptions C12_stream_id_step_is_4.
Print Assumptions C12_min_write_size_is_32.
