(* C12 -- what an endpoint sends on a stream and at close is self-consistent.
   Property theorems only; each is closed by [exact] of a lemma proved in proofs/. *)
From SQ Require Import lib.Base gen.Gen_C12.
From SQ Require model.DataSender model.SendJudge model.StreamId model.CloseSender.
From SQ Require proofs.SendProofs proofs.StreamIdProofs proofs.CloseSenderProofs.
Import DataSender SendJudge.
Local Open Scope N_scope.

(* frames_are_slices: the one place that writes stream data, transmit_interval, writes a STREAM frame
   whose payload is exactly the slice [lo, h) of what was written on that stream (position-keyed
   payload), with lo < h <= the requested end *)
Theorem C12_frames_are_slices : forall salt s c p lo hi h s' c' p',
  tx_interval salt s c p lo hi = (Some h, s', c', p') ->
  (exists size fin, p' = p_write p size (mk_frame 1 (s_sid s) lo 0 fin (slice salt (s_k s) lo (h - lo))) /\ size <= p_rem p)
  /\ lo < h /\ h <= hi
  /\ h <= f_maxsd (s_fc s') /\ h <= f_acq (s_fc s')
  /\ c_total c' = c_total c /\ f_acq (s_fc s') + c_avail c' = f_acq (s_fc s) + c_avail c
  /\ f_maxsd (s_fc s') = f_maxsd (s_fc s) /\ f_acq (s_fc s) <= f_acq (s_fc s').
Proof. exact SendProofs.tx_interval_frame. Qed.

(* retransmission_identical: two such payloads that both cover offset o carry the same byte at o,
   whatever the segmentation *)
Theorem C12_retransmission_identical : forall salt k lo1 len1 lo2 len2 o,
  lo1 <= o -> o < lo1 + len1 -> lo2 <= o -> o < lo2 + len2 ->
  nth (N.to_nat (o - lo1)) (slice salt k lo1 len1) 0 = nth (N.to_nat (o - lo2)) (slice salt k lo2 len2) 0.
Proof. exact SendProofs.retransmission_identical. Qed.

(* quiet_after_reset: a reset puts the stream into a shape (SendStreamState <> Sending, DataSender
   cancelled and cleared, STREAM_DATA_BLOCKED sync cancelled) that is stable under transmission and in
   which on_transmit writes nothing but the RESET_STREAM with the final size fixed at reset time *)
Theorem C12_reset_enters_quiet_shape : forall s code app, s_ss s = 0 -> s_ds s <> 5 ->
  SendProofs.reset_shape (ss_reset s code app).
Proof. exact SendProofs.reset_shape_reset. Qed.

Theorem C12_quiet_after_reset : forall salt s c p r s' c' p',
  SendProofs.reset_shape s -> ss_transmit salt s c p = (r, s', c', p') ->
  (p_out p' = p_out p \/
   p_out p' = p_out p ++ [mk_frame 2 (s_sid s) (s_rst_final s) (s_rst_code s) false []])
  /\ SendProofs.reset_shape s'.
Proof. exact SendProofs.quiet_after_reset. Qed.

(* the judgement of the stream component (slices, nothing beyond the final size, final size stable and
   not below what was sent, nothing but RESET_STREAM after RESET_STREAM) accepts the model whenever an
   invariant linking model and monitor is preserved by the nine operations: the plumbing half of
   judge_run (parsing of the rendered output, monitor walk); see the report for what is not closed *)
Theorem C12_ss_judge_run_partial : forall salt n (I : conn -> mon -> Prop),
  0 < n ->
  (forall k m, I k m -> length (k_streams k) = N.to_nat n) ->
  (forall k m i len res s', I k m -> i < n -> ss_push (get_stream k i) len = (res, s') ->
     (-1 <= res <= Nz len)%Z /\
     I (with_stream k i (fun _ => s'))
       (with_ms m i (fun s => mk_ms (m_w s + zN res) (m_hi s) (m_fin s) (m_rst s) (m_lim s)))) ->
  (forall k m i res s', I k m -> i < n -> ss_finish (get_stream k i) = (res, s') -> I (with_stream k i (fun _ => s')) m) ->
  (forall k m i code app, I k m -> i < n -> I (with_stream k i (fun s => ss_reset s code app)) m) ->
  (forall k m t cap c md k' fs, I k m -> t < n + 1 -> c < 4 -> cap < 65536 ->
     conn_transmit salt k t cap c md = (k', fs) ->
     exists m', chk_frames (chk12 salt n) n m fs = Some m' /\ I k' m') ->
  (forall k m lo hi, I k m -> I (conn_ack k lo hi) m) ->
  (forall k m lo hi, I k m -> I (conn_loss k lo hi) m) ->
  (forall k m i v, I k m -> i < n ->
     I (with_stream k i (fun s => ss_max_stream_data s v))
       (with_ms m i (fun s => mk_ms (m_w s) (m_hi s) (m_fin s) (m_rst s) (N.max (m_lim s) v)))) ->
  (forall k m v, I k m -> I (conn_max_data k v) (mk_mon (m_streams m) (N.max (m_limd m) v))) ->
  forall fuel k m ops rest, I k m ->
  walk (chk12 salt n) fuel n m ops (run_ops fuel salt n k ops ++ rest) = true.
Proof. exact (SendProofs.walk_run_ops chk12). Qed.

(* ids_increase_no_reuse: every id handed out has the low bits of its type and is strictly above the
   previous id of that type (ids are initial + 4 * number opened before) *)
Theorem C12_ids_increase_no_reuse : forall server t c y id c',
  StreamIdProofs.Inv server t c y -> StreamId.l_open server t c = (Some id, c') ->
  StreamId.ok12 server t y id = true /\ StreamIdProofs.Inv server t c' (StreamId.mk_mty (Some id) (StreamId.y_lim y)).
Proof. exact StreamIdProofs.open_ok12. Qed.

Theorem C12_st_judge_run : forall case, StreamId.judge12 case (StreamId.run case) = true.
Proof. exact StreamIdProofs.judge12_run. Qed.

(* close_only_close: the close sender only ever writes its stored close packet, and the number of
   copies written never exceeds 1 + the number of datagrams received (all histories) *)
Theorem C12_cs_judge_run : forall case, CloseSender.judge case (CloseSender.run case) = true.
Proof. exact CloseSenderProofs.judge_run. Qed.

Theorem C12_close_rate_limited : forall s sent recv, CloseSenderProofs.Inv s sent recv -> sent <= 1 + recv.
Proof. exact CloseSenderProofs.close_rate_limited. Qed.

Theorem C12_stream_id_step_is_4 : Gen_C12.stream_id_step = 4.
Proof. reflexivity. Qed.

Theorem C12_min_write_size_is_32 : Gen_C12.min_write_size = 32.
Proof. reflexivity. Qed.

(* non-vacuity: loss and retransmission in a different segmentation, then FIN *)
Example C12_example :
  judge12 [9; 10000; 0; 0; 10000; 1; 0; 200; 5; 1; 120; 0; 0; 5; 1; 120; 0; 0; 7; 0; 0; 5; 1; 33; 0; 0; 2; 0; 5; 1; 1200; 0; 0]%Z
    (DataSender.run [9; 10000; 0; 0; 10000; 1; 0; 200; 5; 1; 120; 0; 0; 5; 1; 120; 0; 0; 7; 0; 0; 5; 1; 33; 0; 0; 2; 0; 5; 1; 1200; 0; 0]%Z) = true.
Proof. vm_compute. reflexivity. Qed.

Print Assumptions C12_frames_are_slices.
Print Assumptions C12_retransmission_identical.
Print Assumptions C12_reset_enters_quiet_shape.
Print Assumptions C12_quiet_after_reset.
Print Assumptions C12_ss_judge_run_partial.
Print Assumptions C12_ids_increase_no_reuse.
Print Assumptions C12_st_judge_run.
Print Assumptions C12_cs_judge_run.
Print Assumptions C12_close_rate_limited.
Print Assumptions C12_stream_id_step_is_4.
Print Assumptions C12_min_write_size_is_32.
