(* C16 (range-set part) -- SlidingWindow, IntervalSet, ack::Ranges and the packet number Map contain
   exactly what a plain reference set / map would contain after the same operations.
   Property theorems only; each is closed by [exact] of a lemma proved in proofs/. *)
From SQ Require Import lib.Base gen.Gen_C16.
From SQ Require model.SlidingWindow proofs.SlidingWindowProofs.
From SQ Require model.IntervalSet proofs.IntervalSetProofs model.AckRanges model.PnMap.
From SQ Require proofs.IntervalSetRemove proofs.IntervalSetSearch proofs.IntervalSetOps proofs.IntervalSetRun proofs.AckRangesProofs.
From SQ Require proofs.IntervalSetInter proofs.IntervalSetRun2 proofs.AckRangesRun proofs.PnMapProofs.
Local Open Scope N_scope.

(* ------------------------------------------------------------------------------------------ *)
(* SlidingWindow                                                                              *)
(* ------------------------------------------------------------------------------------------ *)

(* the window the source declares is the 128 bits (+1 for the right edge) the property names *)
Theorem C16_sw_window_is_128 :
  Gen_C16.sw_window_bits = 128 /\ Gen_C16.sw_window_width = 129 /\ Gen_C16.sw_full_delta = 128.
Proof. exact SlidingWindowProofs.window_consts. Qed.

(* every history of insert / insert_with_evicted / check: with acc = the numbers whose insertion was
   accepted, a number is accepted (Ok) exactly when it is not in acc and less than 129 below the largest
   accepted one; TooOld exactly when 129 or more below; Duplicate otherwise; insert and check agree;
   the evicted set reported by an accepted insert is exactly the set of numbers that were acceptable
   before (in the old window, not in acc) and are too old afterwards; the representation invariant
   (bit i <-> edge-1-i in acc) is kept. *)
Theorem C16_sliding_refines : forall ops pn,
  let s := fst (SlidingWindowProofs.sw_steps ops) in let acc := snd (SlidingWindowProofs.sw_steps ops) in
  (SlidingWindow.check s pn = SlidingWindow.COk <->
     (~ In pn acc /\ (acc = [] \/ exists e, max_list acc = Some e /\ e < pn + 129))) /\
  (SlidingWindow.check s pn = SlidingWindow.CTooOld <-> exists e, max_list acc = Some e /\ pn + 129 <= e) /\
  SlidingWindow.icode (snd (SlidingWindow.insert_with_evicted s pn)) = SlidingWindow.ccode (SlidingWindow.check s pn) /\
  (forall w e, snd (SlidingWindow.insert_with_evicted s pn) = SlidingWindow.IOk w e ->
     forall x, In x (SlidingWindow.evicted_list w e) <->
       exists m, max_list acc = Some m /\ m < pn /\ ~ In x acc /\ x < m /\ m <= x + 128 /\ x + 129 <= pn) /\
  SlidingWindowProofs.SInv (fst (SlidingWindow.insert_with_evicted s pn))
                           (SlidingWindowProofs.acc_after acc pn (SlidingWindow.check s pn)).
Proof. exact SlidingWindowProofs.sliding_refines. Qed.

(* all observable outputs of the model (result codes, evicted lists in iteration order, content dumps)
   equal those computed from the reference set, for every case *)
Theorem C16_sw_run_is_spec : forall c, SlidingWindow.run c = SlidingWindow.spec_run c.
Proof. exact SlidingWindowProofs.run_is_spec. Qed.

Theorem C16_sw_judge_model : forall c, SlidingWindow.judge c (SlidingWindow.run c) = true.
Proof. exact SlidingWindowProofs.judge_run. Qed.

Theorem C16_sw_judge_sound : forall c out, SlidingWindow.judge c out = true -> out = SlidingWindow.spec_run c.
Proof. exact SlidingWindowProofs.judge_sound. Qed.

(* non-vacuity: window edge 128/129, a duplicate, and an eviction *)
Example C16_sw_example :
  SlidingWindow.run [0; 200; 0; 72; 0; 71; 0; 72; 0; 205]%Z =
  [0;0; 1;200;2;   0;0; 2;72;200;2;   2; 2;72;200;2;   1; 2;72;200;2;   0;4;73;74;75;76; 2;200;205;2]%Z.
Proof. vm_compute. reflexivity. Qed.

(* ------------------------------------------------------------------------------------------ *)
(* IntervalSet (insert path)                                                                   *)
(* ------------------------------------------------------------------------------------------ *)

(* generated constants: linear-scan threshold of index_for, default ack-range limit, Map capacity *)
Theorem C16_consts : Gen_C16.iset_linear_threshold = 16 /\ Gen_C16.ack_ranges_limit = 10 /\
                     Gen_C16.pnmap_default_capacity = 8.
Proof. repeat split. Qed.

(* the reference functions used by the judgement mean plain set insertion / removal *)
Theorem C16_ref_ins_is_set_insert : forall l a b x, a <= b ->
  (IntervalSetProofs.mem x (IntervalSet.ref_ins a b l) <-> (a <= x <= b) \/ IntervalSetProofs.mem x l).
Proof. exact IntervalSetProofs.ref_ins_mem. Qed.

Theorem C16_ref_rem_is_set_remove : forall emax l a b x, IntervalSetProofs.iswf emax l -> a <= b ->
  (IntervalSetProofs.mem x (IntervalSet.ref_rem a b l) <-> IntervalSetProofs.mem x l /\ ~ (a <= x <= b)).
Proof. exact IntervalSetProofs.ref_rem_mem. Qed.

(* the reference insertion keeps ISWf (valid, sorted, disjoint AND non-adjacent), means set union with
   [a, b] when it succeeds, leaves the set unchanged when it fails, and reports InvalidInterval iff b < a *)
Theorem C16_ref_insert_spec : forall emax s a b s' c,
  IntervalSetProofs.iswf emax (IntervalSet.intervals s) -> b <= emax ->
  IntervalSet.ref_insert s a b = (s', c) ->
  IntervalSetProofs.iswf emax (IntervalSet.intervals s') /\ IntervalSet.limit s' = IntervalSet.limit s /\
  (c = 0%Z -> forall x, IntervalSetProofs.mem x (IntervalSet.intervals s') <->
                        (a <= x <= b) \/ IntervalSetProofs.mem x (IntervalSet.intervals s)) /\
  (c <> 0%Z -> IntervalSet.intervals s' = IntervalSet.intervals s) /\
  (c = 2%Z <-> b < a).
Proof. exact IntervalSetProofs.ref_insert_spec. Qed.

(* Insertion::scan/apply from slot 0 (all nine comparison cases, should_coalesce with saturating
   end_exclusive, replace_range bookkeeping, limit check) IS the reference insertion on every well-formed
   set.  PARTIAL with respect to DESIGN 5.16 iset_refines: covers insert_front always and insert while the
   set holds fewer than 16 intervals (index_for = 0); the binary-search start index, remove, contains and
   the set operations are modelled and differentially checked but not proved. *)
Theorem C16_iset_insert_front_refines_partial : forall emax s a b,
  IntervalSetProofs.iswf emax (IntervalSet.intervals s) -> b <= emax ->
  N.of_nat (length (IntervalSet.intervals s)) < IntervalSet.usize_max -> IntervalSetProofs.lim_ok s ->
  IntervalSet.insert_front emax s a b = IntervalSet.ref_insert s a b.
Proof. exact IntervalSetProofs.insert_front_refines. Qed.

Theorem C16_iset_insert_refines_partial : forall emax s a b,
  IntervalSetProofs.iswf emax (IntervalSet.intervals s) -> b <= emax ->
  N.of_nat (length (IntervalSet.intervals s)) < 16 -> IntervalSetProofs.lim_ok s ->
  IntervalSet.insert emax s a b = IntervalSet.ref_insert s a b.
Proof. exact IntervalSetProofs.insert_refines_linear. Qed.

(* all histories of insert_front calls from any well-formed state *)
Theorem C16_iset_insert_history_partial : forall emax ops s,
  IntervalSetProofs.iswf emax (IntervalSet.intervals s) -> IntervalSetProofs.lim_ok s ->
  Forall (fun o => snd o <= emax) ops ->
  N.of_nat (length (IntervalSet.intervals s)) + N.of_nat (length ops) < IntervalSet.usize_max ->
  IntervalSetProofs.inserts_model emax s ops = IntervalSetProofs.inserts_ref s ops /\
  IntervalSetProofs.iswf emax (IntervalSet.intervals (IntervalSetProofs.inserts_ref s ops)).
Proof. exact IntervalSetProofs.insert_front_history. Qed.

(* ---- phase 2: every operation of IntervalSet equals its reference operation on every well-formed set ---- *)

(* insert, any size: the binary-search start slot of index_for (>= 16 intervals) is a valid start *)
Theorem C16_iset_insert_refines : forall emax s a b,
  IntervalSetProofs.iswf emax (IntervalSet.intervals s) -> b <= emax ->
  N.of_nat (length (IntervalSet.intervals s)) < IntervalSet.usize_max -> IntervalSetProofs.lim_ok s ->
  IntervalSet.insert emax s a b = IntervalSet.ref_insert s a b.
Proof. exact IntervalSetOps.insert_refines. Qed.

(* remove: Removal::scan with its in-place edits, push_range / the split case, the limit logic and apply *)
Theorem C16_iset_remove_refines : forall emax s a b,
  IntervalSetProofs.iswf emax (IntervalSet.intervals s) -> b <= emax ->
  N.of_nat (length (IntervalSet.intervals s)) < IntervalSet.usize_max ->
  IntervalSet.remove emax s a b = IntervalSet.ref_remove s a b.
Proof. exact IntervalSetOps.remove_refines. Qed.

Theorem C16_ref_rem_wf : forall emax l a b, IntervalSetProofs.iswf emax l -> a <= b ->
  IntervalSetProofs.iswf emax (IntervalSet.ref_rem a b l).
Proof. exact IntervalSetOps.ref_rem_wf. Qed.

(* contains (binary_search_with) is membership; index_for returns a slot before which everything ends at
   least two below the new start *)
Theorem C16_iset_contains_spec : forall emax s v, IntervalSetProofs.iswf emax (IntervalSet.intervals s) ->
  IntervalSet.contains s v = IntervalSet.mem_ivals v (IntervalSet.intervals s).
Proof. exact IntervalSetSearch.contains_spec. Qed.

Theorem C16_iset_index_for_spec : forall emax l a, IntervalSetProofs.iswf emax l -> l <> [] ->
  IntervalSet.index_for l a <= N.of_nat (length l) /\
  forall b, In b (firstn (N.to_nat (IntervalSet.index_for l a)) l) -> snd b + 1 < fst a.
Proof. exact IntervalSetSearch.index_for_spec. Qed.

(* union / difference: set_operation with the running index = sequential reference inserts / removes,
   stopping at the first error with the set as modified so far *)
Theorem C16_iset_union_refines : forall emax s other,
  IntervalSetProofs.iswf emax (IntervalSet.intervals s) -> IntervalSetProofs.iswf emax other ->
  N.of_nat (length (IntervalSet.intervals s)) + N.of_nat (length other) < IntervalSet.usize_max ->
  IntervalSet.union emax s other = IntervalSet.ref_union s other.
Proof. exact IntervalSetOps.union_refines. Qed.

Theorem C16_iset_difference_refines : forall emax s other,
  IntervalSetProofs.iswf emax (IntervalSet.intervals s) -> IntervalSetProofs.iswf emax other ->
  N.of_nat (length (IntervalSet.intervals s)) + N.of_nat (length other) < IntervalSet.usize_max ->
  IntervalSet.difference emax s other = IntervalSet.ref_difference s other.
Proof. exact IntervalSetOps.difference_refines. Qed.

(* iset_refines, step form, full op alphabet of the component (insert, remove, contains, pop_min,
   insert_front, set/remove limit, second set, union, difference, intersection, clear): under the
   representation invariant (both sets ISWf, limits >= 1) the model's step is the reference step and
   the invariant is kept.  step_ok = operands are u64, fewer than usize::MAX intervals, and - the one
   PARTIAL point - the result of an intersection is checked to be well formed instead of that being
   proved of ref_inter (intersection::apply itself is not modelled at control-flow level). *)
Theorem C16_iset_refines : forall sa sb op a b, IntervalSetRun.Inv sa sb ->
  IntervalSetRun.step_ok sa sb op a b = true ->
  IntervalSet.step (IntervalSet.model_ops IntervalSetRun.emax64) sa sb op a b = IntervalSet.step IntervalSet.ref_ops sa sb op a b /\
  IntervalSetRun.Inv (fst (fst (IntervalSet.step IntervalSet.ref_ops sa sb op a b)))
                     (snd (fst (IntervalSet.step IntervalSet.ref_ops sa sb op a b))).
Proof. exact IntervalSetRun.step_refines. Qed.

(* judge_run for the iset component: all histories *)
Theorem C16_iset_run_is_spec : forall c, IntervalSetRun.iset_case_ok c = true ->
  IntervalSet.run c = IntervalSet.spec_run c.
Proof. exact IntervalSetRun.iset_run_is_spec. Qed.

Theorem C16_iset_judge_model : forall c, IntervalSetRun.iset_case_ok c = true ->
  IntervalSet.judge c (IntervalSet.run c) = true.
Proof. exact IntervalSetRun.iset_judge_run. Qed.

(* the premise is met by a non-trivial case (including an intersection) *)
Example C16_iset_case_ok_example :
  IntervalSetRun.iset_case_ok [0;5;9; 0;20;29; 0;10;19; 1;12;13; 5;2;0; 1;25;26; 6;0;100; 7;1;0; 6;3;8; 7;2;0; 7;0;0]%Z = true.
Proof. vm_compute. reflexivity. Qed.

(* ------------------------------------------------------------------------------------------ *)
(* ack::Ranges                                                                                *)
(* ------------------------------------------------------------------------------------------ *)

(* insert_packet_number_range (insert, on LimitExceeded pop_min, then re-insert or insert_front back)
   IS "insert into the set; when that leaves more than `limit` ranges, drop the lowest one (which may be
   the new one)", on every state satisfying the invariant (ISWf, limit L >= 1, at most L ranges) *)
Theorem C16_ack_insert_range_refines : forall s a b, AckRangesProofs.AInv s -> a <= b -> b <= AckRanges.pmax ->
  AckRanges.insert_range s a b = AckRanges.ref_insert_range s a b.
Proof. exact AckRangesProofs.insert_range_refines. Qed.

(* the invariant - in particular the capacity bound - is kept by every insert *)
Theorem C16_ack_insert_range_inv : forall s a b, AckRangesProofs.AInv s -> a <= b -> b <= AckRanges.pmax ->
  AckRangesProofs.AInv (fst (AckRanges.ref_insert_range s a b)).
Proof. exact AckRangesProofs.ref_insert_range_inv. Qed.

(* only the lowest range is discarded: a range reported as LowestRangeDropped lies entirely below
   everything retained.  PARTIAL with respect to DESIGN ack_ranges_refines: the same statement for a
   refused new range (RangeInsertionFailed) and judge_run for the whole `ack` op alphabet (contains /
   remove / pop_min steps follow from the IntervalSet theorems but are not assembled) are missing. *)
Theorem C16_ack_drops_only_lowest_partial : forall s a b, AckRangesProofs.AInv s -> a <= b -> b <= AckRanges.pmax ->
  forall lo hi, snd (AckRanges.ref_insert_range s a b) = [2%Z; Nz lo; Nz hi] ->
  forall y, IntervalSetProofs.mem y (IntervalSet.intervals (fst (AckRanges.ref_insert_range s a b))) -> hi < y.
Proof. exact AckRangesProofs.ref_insert_range_drops_lowest. Qed.

(* ---- round 3 ---- *)

(* the reference intersection keeps ISWf and means set intersection *)
Theorem C16_ref_inter_wf : forall emax l1 l2, IntervalSetProofs.iswf emax l1 -> IntervalSetProofs.iswf emax l2 ->
  IntervalSetProofs.iswf emax (IntervalSet.ref_inter l1 l2).
Proof. exact IntervalSetInter.ref_inter_wf. Qed.

Theorem C16_ref_inter_is_intersection : forall l1 l2 x,
  IntervalSetProofs.mem x (IntervalSet.ref_inter l1 l2) <-> IntervalSetProofs.mem x l1 /\ IntervalSetProofs.mem x l2.
Proof. exact IntervalSetInter.ref_inter_mem. Qed.

(* iset_refines / judge_run without the intersection premise: the only side conditions left are that the
   operands are u64 values and that the two sets hold fewer than usize::MAX intervals *)
Theorem C16_iset_refines_full : forall sa sb op a b, IntervalSetRun.Inv sa sb ->
  IntervalSetRun2.step_ok2 sa sb a b = true ->
  IntervalSet.step (IntervalSet.model_ops IntervalSetRun.emax64) sa sb op a b = IntervalSet.step IntervalSet.ref_ops sa sb op a b /\
  IntervalSetRun.Inv (fst (fst (IntervalSet.step IntervalSet.ref_ops sa sb op a b)))
                     (snd (fst (IntervalSet.step IntervalSet.ref_ops sa sb op a b))).
Proof. exact IntervalSetRun2.step_refines2. Qed.

Theorem C16_iset_judge_model_full : forall c, IntervalSetRun2.iset_case_ok2 c = true ->
  IntervalSet.judge c (IntervalSet.run c) = true.
Proof. exact IntervalSetRun2.iset_judge_run2. Qed.

(* ack::Ranges, whole op alphabet of the component (range insert, single insert, contains, remove through
   DerefMut, pop_min), every history: outputs of the model = outputs of the capacity-bounded reference set *)
Theorem C16_ack_run_is_spec : forall c, AckRangesRun.ack_case_ok c = true -> AckRanges.run c = AckRanges.spec_run c.
Proof. exact AckRangesRun.ack_run_is_spec. Qed.

Theorem C16_ack_judge_model : forall c, AckRangesRun.ack_case_ok c = true ->
  AckRanges.judge c (AckRanges.run c) = true.
Proof. exact AckRangesRun.ack_judge_run. Qed.

Example C16_round3_premises_met :
  IntervalSetRun2.iset_case_ok2 [0;5;9; 0;20;29; 6;0;100; 6;3;8; 7;2;0; 7;0;0; 1;6;7]%Z = true /\
  AckRangesRun.ack_case_ok [2; 1;10;0; 1;12;0; 1;14;0; 1;5;0; 3;12;12; 4;0;0]%Z = true.
Proof. split; vm_compute; reflexivity. Qed.

(* ------------------------------------------------------------------------------------------ *)
(* packet number Map                                                                          *)
(* ------------------------------------------------------------------------------------------ *)

(* remove_range (RemoveIter drained, as Drop does) yields strictly ascending packet numbers, all inside the
   requested range [a, b]; iter() yields strictly ascending packet numbers from `start`.
   PARTIAL with respect to DESIGN pnmap_refines: the refinement of the ring buffer (insert /
   insert_or_update / remove / get, resize re-indexing, set_start / set_end) to a finite map and judge_run
   for the `pnmap` component are NOT proved; that part rests on the differential check and the judgement
   against the reference association list. *)
Theorem C16_pnmap_remove_range_ascending_partial : forall m a b, a <= b ->
  PnMapProofs.asc a (b + 1) (snd (PnMap.remove_range m a b)).
Proof. exact PnMapProofs.remove_range_ascending. Qed.

Theorem C16_pnmap_iter_ascending_partial : forall m, exists hi, PnMapProofs.asc (PnMap.start m) hi (PnMap.iter m).
Proof. exact PnMapProofs.iter_ascending. Qed.

(* non-vacuity: model and reference agree on a run with merges, a split, the limit and both set operations *)
Example C16_iset_example :
  IntervalSet.run [0;5;9; 0;20;29; 0;10;19; 1;12;13; 5;2;0; 1;25;26; 6;0;100; 7;1;0]%Z =
  IntervalSet.spec_run [0;5;9; 0;20;29; 0;10;19; 1;12;13; 5;2;0; 1;25;26; 6;0;100; 7;1;0]%Z
  /\ AckRanges.run [2; 1;10;0; 1;12;0; 1;14;0; 1;5;0]%Z = [0;1;10;10;10;10;0; 0;2;10;10;12;12;10;12;2; 2;10;10;2;12;12;14;14;12;14;2; 1;5;5;2;12;12;14;14;12;14;2]%Z
  /\ PnMap.run [0;3;7; 0;12;8; 3;3;0]%Z = PnMap.spec_run [0;3;7; 0;12;8; 3;3;0]%Z.
Proof. repeat split; vm_compute; reflexivity. Qed.

Print Assumptions C16_sw_window_is_128.
Print Assumptions C16_sliding_refines.
Print Assumptions C16_sw_run_is_spec.
Print Assumptions C16_sw_judge_model.
Print Assumptions C16_sw_judge_sound.
Print Assumptions C16_consts.
Print Assumptions C16_ref_ins_is_set_insert.
Print Assumptions C16_ref_rem_is_set_remove.
Print Assumptions C16_ref_insert_spec.
Print Assumptions C16_iset_insert_front_refines_partial.
Print Assumptions C16_iset_insert_refines_partial.
Print Assumptions C16_iset_insert_history_partial.
Print Assumptions C16_iset_insert_refines.
Print Assumptions C16_iset_remove_refines.
Print Assumptions C16_ref_rem_wf.
Print Assumptions C16_iset_contains_spec.
Print Assumptions C16_iset_index_for_spec.
Print Assumptions C16_iset_union_refines.
Print Assumptions C16_iset_difference_refines.
Print Assumptions C16_iset_refines.
Print Assumptions C16_iset_run_is_spec.
Print Assumptions C16_iset_judge_model.
Print Assumptions C16_ack_insert_range_refines.
Print Assumptions C16_ack_insert_range_inv.
Print Assumptions C16_ack_drops_only_lowest_partial.
Print Assumptions C16_ref_inter_wf.
Print Assumptions C16_ref_inter_is_intersection.
Print Assumptions C16_iset_refines_full.
Print Assumptions C16_iset_judge_model_full.
Print Assumptions C16_ack_run_is_spec.
Print Assumptions C16_ack_judge_model.
Print Assumptions C16_pnmap_remove_range_ascending_partial.
Print Assumptions C16_pnmap_iter_ascending_partial.
