(* C01 -- composition theorem: stream bytes are delivered exactly once, in order, unaltered,
   whatever the network does.  Premises are the component theorems: sender frames are slices of
   the written bytes (C12 frames_are_slices), damaged datagrams are rejected (ideal AEAD, C06),
   the reassembly buffer refines the first-write-wins map (C01/C16 reasm_refines). *)
From Coq Require Import List Arith Lia Bool.
Import ListNotations.
From SQ Require Import model.Arq.
From SQ Require proofs.ArqProofs.

Theorem C01_stream_exact_delivery : forall (byte : Type) (w : list byte) (fin : bool) (fs : list (frame byte)) (n : nat),
  Forall (consistent byte w fin) fs ->
  let s := deliver byte fs in
  bytes_read byte s n = firstn (min n (length (prefix byte (r_buf byte s)))) w
  /\ (clean_fin byte s n -> bytes_read byte s n = w).
Proof. exact ArqProofs.stream_exact_delivery. Qed.

(* non-vacuity: reordered, duplicated and overlapping slices of "abcdef" with a FIN *)
Example C01_arq_example :
  let w := [1; 2; 3; 4; 5; 6] in
  let fs := [ {| f_off := 3; f_data := [4; 5; 6]; f_fin := true |};
              {| f_off := 0; f_data := [1; 2]; f_fin := false |};
              {| f_off := 3; f_data := [4; 5; 6]; f_fin := true |};
              {| f_off := 1; f_data := [2; 3; 4]; f_fin := false |} ] in
  prefix nat (r_buf nat (deliver nat fs)) = w /\ r_final nat (deliver nat fs) = Some 6.
Proof. vm_compute. split; reflexivity. Qed.

Print Assumptions C01_stream_exact_delivery.
