open Model
let () = Driver.main [
  { Driver.name = "reasm"; run = reasm_run; judge = reasm_judge };
]
