open Model
let () = Driver.main [
  { Driver.name = "lcid"; run = lcid_run; judge = lcid_judge };
  { Driver.name = "pcid"; run = pcid_run; judge = pcid_judge };
]
