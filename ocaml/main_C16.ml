open Model
let () = Driver.main [
  { Driver.name = "sw"; run = sw_run; judge = sw_judge };
]
