open Model
let () = Driver.main [
  { Driver.name = "sw"; run = sw_run; judge = sw_judge };
  { Driver.name = "iset"; run = iset_run; judge = iset_judge };
  { Driver.name = "ack"; run = ack_run; judge = ack_judge };
  { Driver.name = "pnmap"; run = pnmap_run; judge = pnmap_judge };
]
