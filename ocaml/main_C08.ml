open Model
let () = Driver.main [
  { Driver.name = "pn"; run = pn_run; judge = pn_judge };
  { Driver.name = "txpn"; run = txpn_run; judge = txpn_judge };
  { Driver.name = "ackmgr"; run = ackmgr_run; judge = ackmgr_judge };
]
