open Model
let () = Driver.main [
  { Driver.name = "varint"; run = varint_run; judge = varint_judge };
  { Driver.name = "frames"; run = frames_run; judge = frames_judge };
  { Driver.name = "packets"; run = packets_run; judge = packets_judge };
  { Driver.name = "pn"; run = pn_run; judge = pn_judge };
  { Driver.name = "tparams"; run = tparams_run; judge = tparams_judge };
  { Driver.name = "tparams_total"; run = tparams_total_run; judge = tparams_total_judge };
  { Driver.name = "pnx"; run = pnx_run; judge = pnx_judge };
  { Driver.name = "fit"; run = fit_run; judge = fit_judge };
  { Driver.name = "shortbits"; run = shortbits_run; judge = shortbits_judge };
]
