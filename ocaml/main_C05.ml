open Model
let () = Driver.main [
  { Driver.name = "varint"; run = varint_run; judge = varint_judge };
  { Driver.name = "frames"; run = frames_run; judge = frames_judge };
  { Driver.name = "packets"; run = packets_run; judge = packets_judge };
  { Driver.name = "pn"; run = pn_run; judge = pn_judge };
]
