open Model
let () = Driver.main [
  { Driver.name = "varint"; run = varint_run; judge = varint_judge };
]
