open Model
let () = Driver.main [
  { Driver.name = "sc"; run = sc_run; judge = sc_judge };
  { Driver.name = "pkt"; run = pkt_run; judge = pkt_judge };
  { Driver.name = "map"; run = map_run; judge = map_judge };
  { Driver.name = "keys"; run = keys_run; judge = keys_judge };
]
