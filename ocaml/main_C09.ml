open Model
let () = Driver.main [
  { Driver.name = "loss"; run = loss_run; judge = loss_judge };
  { Driver.name = "rtt"; run = rtt_run; judge = rtt_judge };
  { Driver.name = "pto"; run = pto_run; judge = pto_judge };
  { Driver.name = "pc"; run = pc_run; judge = pc_judge };
  { Driver.name = "manager"; run = manager_run; judge = manager_judge };
  { Driver.name = "manager_tol"; run = manager_run; judge = manager_tol_judge };
  { Driver.name = "manager_acks"; run = manager_run; judge = manager_acks_judge };
]
