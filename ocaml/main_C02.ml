open Model
let () = Driver.main [
  { Driver.name = "ivs"; run = ivs_run; judge = ivs_judge };
  { Driver.name = "osync"; run = osync_run; judge = osync_judge };
  { Driver.name = "psync"; run = psync_run; judge = psync_judge };
  { Driver.name = "idle"; run = idle_run; judge = idle_judge };
  { Driver.name = "rxwake"; run = rxwake_run; judge = rxwake_judge };
]
