(* Generic driver for the extracted models.
   A case is one line of space separated hexadecimal integers; a component maps it to a list of
   integers (run) or judges an implementation's output for it (judge).  Integers are converted
   digit by digit to the extracted [positive]/[z] inductives: no OCaml arithmetic on values. *)
open Model

let hex_val c = match c with
  | '0'..'9' -> Char.code c - 48
  | 'a'..'f' -> Char.code c - 87
  | 'A'..'F' -> Char.code c - 55
  | _ -> failwith "hex digit"

(* bits most significant first -> positive option (None = zero) *)
let pos_of_bits (bits : bool list) : positive option =
  List.fold_left (fun acc b ->
    match acc, b with
    | None, false -> None
    | None, true -> Some XH
    | Some p, false -> Some (XO p)
    | Some p, true -> Some (XI p)) None bits

let z_of_token (t : string) : z =
  let neg = String.length t > 0 && t.[0] = '-' in
  let s = if neg then String.sub t 1 (String.length t - 1) else t in
  let bits = ref [] in
  String.iter (fun c ->
    let v = hex_val c in
    bits := (v land 1 <> 0) :: (v land 2 <> 0) :: (v land 4 <> 0) :: (v land 8 <> 0) :: !bits) s;
  match pos_of_bits (List.rev !bits) with
  | None -> Z0
  | Some p -> if neg then Zneg p else Zpos p

(* positive -> bits least significant first *)
let rec bits_of_pos p = match p with
  | XH -> [true]
  | XO q -> false :: bits_of_pos q
  | XI q -> true :: bits_of_pos q

let hex_of_pos p =
  let bits = Array.of_list (bits_of_pos p) in
  let n = Array.length bits in
  let nd = (n + 3) / 4 in
  let b = Buffer.create nd in
  for d = nd - 1 downto 0 do
    let v = ref 0 in
    for k = 3 downto 0 do
      let i = d * 4 + k in
      v := !v * 2 + (if i < n && bits.(i) then 1 else 0)
    done;
    Buffer.add_char b "0123456789abcdef".[!v]
  done;
  Buffer.contents b

let token_of_z = function
  | Z0 -> "0"
  | Zpos p -> hex_of_pos p
  | Zneg p -> "-" ^ hex_of_pos p

let parse_ints (s : string) : z list =
  String.split_on_char ' ' s |> List.filter (fun t -> t <> "") |> List.map z_of_token

let fmt_ints (l : z list) : string = String.concat " " (List.map token_of_z l)

type component = { name : string; run : z list -> z list; judge : z list -> z list -> bool }

let main (comps : component list) =
  let mode = Sys.argv.(1) and cname = Sys.argv.(2) in
  let c = try List.find (fun c -> c.name = cname) comps
    with Not_found -> (prerr_endline ("unknown component " ^ cname); exit 2) in
  let out = Buffer.create 65536 in
  (try
    while true do
      let line = input_line stdin in
      (match mode with
       | "run" -> Buffer.add_string out (fmt_ints (c.run (parse_ints line)))
       | "judge" ->
           (match String.index_opt line '|' with
            | None -> Buffer.add_string out "?"
            | Some i ->
                let a = String.sub line 0 i and b = String.sub line (i + 1) (String.length line - i - 1) in
                if String.length (String.trim b) > 0 && (String.trim b).[0] = '!' then Buffer.add_string out "0"
                else Buffer.add_string out (if c.judge (parse_ints a) (parse_ints b) then "1" else "0"))
       | _ -> failwith "mode");
      Buffer.add_char out '\n';
      if Buffer.length out > 60000 then (print_string (Buffer.contents out); Buffer.clear out)
    done
  with End_of_file -> ());
  print_string (Buffer.contents out)
