open Model
let () = Driver.main [
  { Driver.name = "ks"; run = ks_run; judge = ks_judge };
  { Driver.name = "duo"; run = duo_run; judge = duo_judge };
  { Driver.name = "rot"; run = rot_run; judge = rot_judge };
]
