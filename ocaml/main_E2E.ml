open Model
(* the e2e components have no model run: the extracted monitors judge the implementation's traces *)
let () = Driver.main [
  { Driver.name = "e2e_stream"; run = e2e_run; judge = e2e_stream_judge };
]
