open Model
(* the e2e components have no model run: the extracted monitors judge the implementation's traces *)
let () = Driver.main [
  { Driver.name = "e2e_stream"; run = e2e_run; judge = e2e_stream_judge };
  { Driver.name = "e2e_stream_c01"; run = e2e_run; judge = e2e_stream_judge_c01 };
  { Driver.name = "e2e_stream_c02"; run = e2e_run; judge = e2e_stream_judge_c02 };
  { Driver.name = "e2e_stream_c03"; run = e2e_run; judge = e2e_stream_judge_c03 };
  { Driver.name = "e2e_stream_c12"; run = e2e_run; judge = e2e_stream_judge_c12 };
  { Driver.name = "e2e_amp"; run = e2e_run; judge = e2e_amp_judge };
  { Driver.name = "e2e_pn"; run = e2e_run; judge = e2e_pn_judge };
  { Driver.name = "e2e_cid"; run = e2e_run; judge = e2e_cid_judge };
  { Driver.name = "e2e_cc"; run = e2e_run; judge = e2e_cc_judge };
  { Driver.name = "e2e_violate"; run = e2e_run; judge = e2e_violate_judge };
  { Driver.name = "e2e_inject"; run = e2e_run; judge = e2e_inject_judge };
]
