open Model
let () = Driver.main [
  { Driver.name = "tp"; run = tp_run; judge = tp_judge };
  { Driver.name = "sess"; run = sess_run; judge = sess_judge };
  { Driver.name = "tp_class"; run = tp_class_run; judge = tp_class_judge };
]
