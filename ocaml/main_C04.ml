open Model
let () = Driver.main [
  { Driver.name = "rx"; run = rx_run; judge = rx_judge };
  { Driver.name = "rx_tolerant"; run = rx_run; judge = rx_judge_tolerant };
  { Driver.name = "st"; run = st_run; judge = st_judge };
  { Driver.name = "st_tolerant"; run = st_run; judge = st_judge_tolerant };
  { Driver.name = "fv"; run = fv_run; judge = fv_judge };
  { Driver.name = "crypto"; run = crypto_run; judge = crypto_judge };
]
