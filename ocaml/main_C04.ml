open Model
let () = Driver.main [
  { Driver.name = "rx"; run = rx_run; judge = rx_judge };
  { Driver.name = "rx_tolerant"; run = rx_run; judge = rx_judge_tolerant };
]
