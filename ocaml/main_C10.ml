open Model
let () = Driver.main [
  { Driver.name = "cubic"; run = cubic_run; judge = cubic_judge };
]
