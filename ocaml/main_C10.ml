open Model
let () = Driver.main [
  { Driver.name = "cubic"; run = cubic_run; judge = cubic_judge };
  { Driver.name = "bbr"; run = bbr_run; judge = bbr_judge };
  { Driver.name = "cubic_gate"; run = cubic_run; judge = cubic_gate_judge };
]
