open Model
let () = Driver.main [
  { Driver.name = "dcsim"; run = dcsim_run; judge = dcsim_judge };
]
