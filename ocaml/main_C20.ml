open Model
let () = Driver.main [
  { Driver.name = "dcsim"; run = dcsim_run; judge = dcsim_judge };
  { Driver.name = "dcrecv"; run = dcrecv_run; judge = dcrecv_judge };
]
