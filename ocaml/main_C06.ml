open Model
let () = Driver.main [
  { Driver.name = "hp"; run = hp_run; judge = hp_judge };
  { Driver.name = "nonce"; run = nonce_run; judge = nonce_judge };
  { Driver.name = "consts"; run = consts_run; judge = consts_judge };
  { Driver.name = "rxpipe"; run = rxpipe_run; judge = rxpipe_judge };
  { Driver.name = "reset"; run = reset_run; judge = reset_judge };
  { Driver.name = "resetmap"; run = resetmap_run; judge = resetmap_judge };
]
