open Model
let () = Driver.main [
  { Driver.name = "st"; run = st_run; judge = st_judge };
  { Driver.name = "ss"; run = ss_run; judge = ss_judge };
  { Driver.name = "sm"; run = ss_run; judge = ss_judge };
  { Driver.name = "ssr"; run = ss_run; judge = ssr_judge };
]
