open Model
let () = Driver.main [
  { Driver.name = "amp"; run = amp_run; judge = amp_judge };
  (* same model, judgement = "every breach lies in the recorded known class" (used to classify) *)
  { Driver.name = "amp_known"; run = amp_run; judge = amp_known };
  { Driver.name = "reset"; run = reset_run; judge = reset_judge };
  { Driver.name = "vn"; run = vn_run; judge = vn_judge };
]
