open Model
let () = Driver.main [
  { Driver.name = "dcr"; run = dcr_run; judge = dcr_judge };
  { Driver.name = "dcs"; run = dcs_run; judge = dcs_judge };
  { Driver.name = "dedup"; run = dedup_run; judge = dedup_judge };
]
