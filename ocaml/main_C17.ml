open Model
let () = Driver.main [
  { Driver.name = "spsc"; run = spsc_run; judge = spsc_judge };
  { Driver.name = "spsc_explore"; run = spsc_explore_run; judge = spsc_explore_judge };
  { Driver.name = "cursor"; run = cursor_run; judge = cursor_judge };
  { Driver.name = "rxring"; run = rxring_run; judge = rxring_judge };
  { Driver.name = "txrings"; run = txrings_run; judge = txrings_judge };
  { Driver.name = "worker"; run = worker_run; judge = worker_judge };
]
