open Model
let () = Driver.main [
  { Driver.name = "spsc"; run = spsc_run; judge = spsc_judge };
]
