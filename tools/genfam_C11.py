"""translator family C11: amplification multiplier, datagram size floor, stateless reset sizing
constants, supported versions"""
import re
from gen_consts import family, Family, read, strip_comments, eval_int, EvalError


@family
def gen_C11():
    f = Family("C11")
    f.const("anti_amplification_multiplier", "quic/s2n-quic-core/src/connection/limits.rs",
            r"pub\s+const\s+ANTI_AMPLIFICATION_MULTIPLIER\s*:\s*u8\s*=\s*([^;]+);")
    f.const("minimum_max_datagram_size", "quic/s2n-quic-core/src/path/mtu.rs",
            r"pub\s+const\s+MINIMUM_MAX_DATAGRAM_SIZE\s*:\s*u16\s*=\s*([^;]+);")
    f.const("reset_token_len", "quic/s2n-quic-core/src/stateless_reset/token.rs",
            r"pub\s+const\s+LEN\s*:\s*usize\s*=\s*([^;]+);")
    # MIN_INDISTINGUISHABLE_PACKET_LEN_WITHOUT_TAG = size_of::<Tag>() + PacketNumberLen::MAX_LEN + connection::id::MAX_LEN + 1
    src = read("quic/s2n-quic-core/src/packet/stateless_reset.rs")
    val = None
    if src:
        m = re.search(r"const\s+MIN_INDISTINGUISHABLE_PACKET_LEN_WITHOUT_TAG\s*:\s*usize\s*=\s*([^;]+);", strip_comments(src), re.S)
        if m:
            expr = re.sub(r"\s+", "", m.group(1))
            env = {}
            tag_src = read("quic/s2n-quic-core/src/packet/mod.rs") or ""
            if re.search(r"type\s+Tag\s*=\s*u8\s*;", tag_src):
                expr = expr.replace("core::mem::size_of::<Tag>()", "1")
            pn_src = strip_comments(read("quic/s2n-quic-core/src/packet/number/packet_number_len.rs") or "")
            m2 = re.search(r"pub\s+const\s+MAX_LEN\s*:\s*usize\s*=\s*([^;]+);", pn_src)
            m3 = re.search(r"const\s+U32_SIZE\s*:\s*usize\s*=\s*([^;]+);", pn_src)
            try:
                if m2:
                    pn_max = eval_int(m2.group(1), {"U32_SIZE": eval_int(m3.group(1))} if m3 else {})
                    expr = expr.replace("PacketNumberLen::MAX_LEN", str(pn_max))
                long_src = strip_comments(read("quic/s2n-quic-core/src/packet/long.rs") or "")
                id_src = strip_comments(read("quic/s2n-quic-core/src/connection/id.rs") or "")
                m4 = re.search(r"const\s+DESTINATION_CONNECTION_ID_MAX_LEN\s*:\s*usize\s*=\s*([^;]+);", long_src)
                m5 = re.search(r"pub\s+const\s+MAX_LEN\s*:\s*usize\s*=\s*([^;]+);", id_src)
                if m4 and m5:
                    cid_max = eval_int(m5.group(1).replace("crate::packet::long::", ""),
                                       {"DESTINATION_CONNECTION_ID_MAX_LEN": eval_int(m4.group(1))})
                    expr = expr.replace("connection::id::MAX_LEN", str(cid_max))
                    f.n("connection_id_max_len", cid_max, "quic/s2n-quic-core/src/connection/id.rs")
                val = eval_int(expr)
            except (EvalError, AttributeError):
                val = None
    f.n("reset_min_len_without_tag", val, "quic/s2n-quic-core/src/packet/stateless_reset.rs")
    # `triggering_packet_len.saturating_sub(1)`: the reply must be strictly smaller
    sub = None
    if src:
        m = re.search(r"triggering_packet_len\s*\.saturating_sub\(\s*(\d+)\s*\)\s*\.min\(\s*packet_buf\.len\(\)\s*\)", strip_comments(src))
        if m:
            sub = int(m.group(1))
    f.n("reset_trigger_margin", sub, "quic/s2n-quic-core/src/packet/stateless_reset.rs")
    # supported versions
    vsrc = read("quic/s2n-quic-transport/src/endpoint/version.rs")
    vs = None
    if vsrc:
        m = re.search(r"const\s+SUPPORTED_VERSIONS\s*:\s*&\[u32\]\s*=\s*&\[(.*?)\];", strip_comments(vsrc), re.S)
        if m:
            try:
                vs = [eval_int(x) for x in m.group(1).split(",") if x.strip()]
            except EvalError:
                vs = None
    if vs is None:
        f.missing.append("supported_versions")
        f.raw("(* MISSING supported_versions *)")
    else:
        f.values["supported_versions"] = vs
        f.raw("Definition supported_versions : list N := [%s]%%N.   (* quic/s2n-quic-transport/src/endpoint/version.rs *)" % "; ".join(str(v) for v in vs))
    return f
