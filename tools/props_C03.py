"""C03 -- a sender never exceeds the flow-control and stream limits its peer granted."""
import registry
import sendlib

KNOWN_CLASS = "reset_final_size_is_acquired_conn_credit_above_stream_limit"


def classify(p):
    """the one known class: the only failing clause is `RESET_STREAM final size <= largest MAX_STREAM_DATA`,
    the final size equals the connection credit the stream had acquired (state column of the output),
    it is within the connection limit, and every STREAM frame is within both limits"""
    if p.get("component") != "ssr":
        return None
    from run_check import parse_hexline
    try:
        case = p["case"]
        out = parse_hexline(p["impl"])
        n, wins, md, recs = sendlib.parse(case, out)
    except Exception:
        return None
    lim = list(wins)
    limd = md
    hi = [0] * n
    final = [None] * n
    found = False
    for r in recs:
        if r["op"] == 8:
            k = r["args"][0] % n
            lim[k] = max(lim[k], min(r["args"][1], sendlib.VMAX))
        elif r["op"] == 9:
            limd = max(limd, min(r["args"][0], sendlib.VMAX))
        for f in r["frames"]:
            if f["kind"] not in (1, 2):
                continue
            if f["sid"] % 4 != 0 or f["sid"] // 4 >= n:
                return None
            k = f["sid"] // 4
            if f["kind"] == 1:
                e = f["val"] + len(f["data"])
                if e > lim[k]:
                    return None
                hi[k] = max(hi[k], e)
            else:
                z = f["val"]
                acquired = r["streams"][k][3]
                if z != acquired or z < hi[k]:
                    return None
                if z > lim[k]:
                    found = True
                final[k] = z
            used = sum(max(hi[j], final[j] or 0) for j in range(n))
            if used > limd:
                return None
    return KNOWN_CLASS if found else None


registry.register("C03", {
    "gen": ["C12"],
    "props_file": "props/C03.v",
    "extract_target": "extract/Ex_C03.vo",
    "harness": "h_transport",
    "axioms_allowed": [],
    "classify": classify,
    "components": [
        {"name": "st", "gen": sendlib.gen_st, "fixed": sendlib.fixed_st, "quick": 8000, "thorough": 300000,
         "valid": sendlib.valid, "nontrivial": sendlib.nontrivial_st},
        {"name": "ss", "gen": sendlib.gen_ss, "fixed": sendlib.fixed_ss, "quick": 12000, "thorough": 400000,
         "valid": sendlib.valid, "nontrivial": sendlib.nontrivial, "histogram": sendlib.histogram},
        {"name": "ssr", "gen": sendlib.gen_ss, "fixed": lambda tier: [[1, 1000, 0, 0, 10, 1, 0, 100, 5, 1, 200, 0, 0, 3, 0, 7, 5, 1, 200, 0, 0]],
         "quick": 1500, "thorough": 20000, "model": False,
         "valid": sendlib.valid, "nontrivial": lambda case, out: sendlib.count_frames(case, out).get(2, 0) >= 1},
    ],
    "rule": "TODO",
    "assumptions": [],
    "trusted_base": [],
    "explanation": "TODO",
})
