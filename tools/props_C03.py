"""C03 -- a sender never exceeds the flow-control and stream limits its peer granted."""
import registry
import sendlib

KNOWN_CLASS = "reset_final_size_is_acquired_conn_credit_above_stream_limit"


def classify(p):
    """the one known class: the only failing clause is `RESET_STREAM final size <= largest MAX_STREAM_DATA`,
    the final size equals the connection credit the stream had acquired (state column of the output),
    it is within the connection limit, and every STREAM frame is within both limits"""
    if p.get("component") != "ssr":
        return None
    from run_check import parse_hexline
    try:
        case = p["case"]
        out = parse_hexline(p["impl"])
        n, wins, md, recs = sendlib.parse(case, out)
    except Exception:
        return None
    lim = list(wins)
    limd = md
    hi = [0] * n
    final = [None] * n
    found = False
    for r in recs:
        if r["op"] == 8:
            k = r["args"][0] % n
            lim[k] = max(lim[k], min(r["args"][1], sendlib.VMAX))
        elif r["op"] == 9:
            limd = max(limd, min(r["args"][0], sendlib.VMAX))
        for f in r["frames"]:
            if f["kind"] not in (1, 2):
                continue
            if f["sid"] % 4 != 0 or f["sid"] // 4 >= n:
                return None
            k = f["sid"] // 4
            if f["kind"] == 1:
                e = f["val"] + len(f["data"])
                if e > lim[k]:
                    return None
                hi[k] = max(hi[k], e)
            else:
                z = f["val"]
                acquired = r["streams"][k][3]
                if z != acquired or z < hi[k]:
                    return None
                if z > lim[k]:
                    found = True
                final[k] = z
            used = sum(max(hi[j], final[j] or 0) for j in range(n))
            if used > limd:
                return None
    return KNOWN_CLASS if found else None


registry.register("C03", {
    "gen": ["C12"],
    "props_file": "props/C03.v",
    "extract_target": "extract/Ex_C03.vo",
    "harness": "h_transport",
    "axioms_allowed": [],
    "classify": classify,
    "components": [
        {"name": "st", "gen": sendlib.gen_st, "fixed": sendlib.fixed_st, "quick": 8000, "thorough": 300000,
         "valid": sendlib.valid, "nontrivial": sendlib.nontrivial_st},
        {"name": "sm", "gen": sendlib.gen_sm, "fixed": sendlib.fixed_sm, "quick": 6000, "thorough": 200000, "model": False,
         "valid": sendlib.valid, "nontrivial": sendlib.nontrivial, "histogram": sendlib.histogram},
        {"name": "ss", "gen": sendlib.gen_ss, "fixed": sendlib.fixed_ss, "quick": 12000, "thorough": 400000,
         "valid": sendlib.valid, "nontrivial": sendlib.nontrivial, "histogram": sendlib.histogram},
        {"name": "ssr", "gen": sendlib.gen_ss, "fixed": lambda tier: [[1, 1000, 0, 0, 10, 1, 0, 100, 5, 1, 200, 0, 0, 3, 0, 7, 5, 1, 200, 0, 0]],
         "quick": 1500, "thorough": 20000, "model": False,
         "valid": sendlib.valid, "nontrivial": lambda case, out: sendlib.count_frames(case, out).get(2, 0) >= 1},
    ],
    "rule": 'cases: corpus + boundary families (windows 0/1/2 with credit raised by one; stream and connection limit L with writes of L-1, L, L+1; loss and retransmission at six different capacities followed by FIN; two streams competing for a 50 byte connection window with out-of-order MAX_DATA; reset after FIN; STOP_SENDING before any data; close limiter doubling up to the u8 saturation; stream limits 0/1/2 raised by one and lowered again) + seeded random operation sequences (1-45 ops over 1-4 streams sharing one connection flow controller: push 0..4095 position-keyed bytes, finish, reset, STOP_SENDING, transmit one packet of capacity 0..65535 under all four constraints and modes, ack/loss of packet number ranges, MAX_STREAM_DATA / MAX_DATA / MAX_STREAMS incl. non-increasing values). A stream case is non-trivial when at least one STREAM frame was emitted, a stream-opening case when at least one stream was opened and one open was refused, a close case when at least two close packets were sent',
    "assumptions": [
        "same model abstractions as C12 (interval-set level DataSender, canonical IntervalSet, timer-less PeriodicSync)",
        "packet capacity < 65536 (UDP): used in the proof that a FIN-only frame is never written before all data was sent",
        "case integers are in [0, 2^62]",
    ],
    "trusted_base": ["no axioms: Print Assumptions reports 'Closed under the global context' for every C03 theorem", "hook drivers verif_hooks/{data_sender,streams}.rs"],
    "explanation": "Coq theorem C03_ss_judge_run: for every operation sequence the model of SendStreams sharing the connection flow controller emits only frames accepted by the limit monitor (STREAM end <= largest MAX_STREAM_DATA, sum of stream lengths <= largest MAX_DATA, both recomputed from the operations alone); the same extracted monitor judges every output of the real code; the RESET_STREAM-vs-stream-limit clause is refuted on the model and reproduced on the real code (known finding); stream opening vs MAX_STREAMS on the real stream manager",
})
