"""C02 (partial) -- every operation terminates: the retransmission state machines (sync/*) never quiesce with an
undelivered value, the idle deadline arithmetic, the PTO/loss timer decision.  The executor / waker runtime is
covered only by the end-to-end runs (h_e2e)."""
import itertools
import registry

VMAX = (1 << 62) - 1
TMAX = 1 << 40
PMAX = 1 << 32


def _val(rng):
    return rng.choice([0, 1, 2, 5, 10, 100, 1000, rng.randrange(1 << 16), rng.randrange(1 << 32), VMAX - 5, VMAX])


def _delta(rng, th):
    r = rng.random()
    if r < 0.15:
        return 0
    if r < 0.55:
        return rng.choice([1, 2, 3, max(th - 1, 0), th, th + 1, 2 * th])
    if r < 0.9:
        return rng.randrange(0, 3 * th + 4)
    return rng.choice([rng.randrange(1 << 20), VMAX, 1 << 61])


def _pkt_event(rng, code, next_pn, last_written):
    """ack / loss op aimed at (or near) the last written packet"""
    r = rng.random()
    if last_written is not None and r < 0.6:
        lo = max(0, last_written - rng.choice([0, 0, 0, 1, 2, 3]))
    elif r < 0.85 and next_pn > 0:
        lo = rng.randrange(0, next_pn + 1)
    else:
        lo = rng.choice([0, 1, next_pn, next_pn + 1, rng.randrange(1 << 30), VMAX - 1, VMAX])
    return [code, lo, rng.choice([0, 0, 1, 2, 3, rng.randrange(1 << 10)])]


def _transmit(rng, timed=None):
    c = rng.choice([0, 0, 0, 0, 0, 1, 1, 2, 3])
    cap = rng.choice([1, 1, 1, 1, 1, 0, rng.randrange(1 << 8)])
    out = [1, c, cap]
    if timed is not None:
        out.append(timed)
    return out


def gen_ivs(rng):
    th = rng.choice([0, 0, 1, 2, 5, 10, 100, 1000, rng.randrange(1 << 20)])
    ackd = rng.choice([0, 0, 0, 1, 7, 1000, rng.randrange(1 << 30), VMAX - 20, VMAX])
    d0 = _delta(rng, th)
    case = [ackd, d0, th]
    n = rng.choice([1, 2, 3, 5, 8, 13, 21, 40])
    next_pn, last = 0, None
    for _ in range(n):
        r = rng.random()
        if r < 0.25:
            case += [0, _delta(rng, th)]
        elif r < 0.58:
            case += _transmit(rng)
            last = next_pn          # a guess: the generator does not simulate the state machine
            next_pn += 1
        elif r < 0.76:
            case += _pkt_event(rng, 2, next_pn, last)
        elif r < 0.97:
            case += _pkt_event(rng, 3, next_pn, last)
        else:
            case += [4]
    return case


def gen_osync(rng):
    case = []
    n = rng.choice([1, 2, 3, 5, 8, 13, 21, 40])
    next_pn, last = 0, None
    for _ in range(n):
        r = rng.random()
        if r < 0.17:
            case += [0, _val(rng)]
        elif r < 0.55:
            case += _transmit(rng)
            last = next_pn
            next_pn += 1
        elif r < 0.70:
            case += _pkt_event(rng, 2, next_pn, last)
        elif r < 0.90:
            case += _pkt_event(rng, 3, next_pn, last)
        elif r < 0.94:
            case += [4]
        else:
            case += [5, _val(rng)]
    return case


def gen_psync(rng):
    case = []
    n = rng.choice([1, 2, 3, 5, 8, 13, 21, 40, 70])
    next_pn, last = 0, None
    now = rng.choice([0, 1, 1000, rng.randrange(1 << 24)])
    period = 999000
    for _ in range(n):
        r = rng.random()
        # time mostly advances, by amounts around the period and its multiples
        if rng.random() < 0.7:
            now = max(0, min(TMAX, now + rng.choice([0, 1, 999, 1000, 1001, period - 1000, period - 999, period, period + 1,
                                                      2 * period, 4 * period, rng.randrange(1, 1 << 22), rng.randrange(1, 1 << 30)])))
        elif rng.random() < 0.1:
            now = rng.randrange(0, now + 1)
        if r < 0.15:
            case += [0, rng.choice([0, 1, 5, rng.randrange(1 << 20), VMAX])]
        elif r < 0.42:
            case += _transmit(rng, now)
            last = next_pn
            next_pn += 1
        elif r < 0.57:
            case += _pkt_event(rng, 2, next_pn, last)
        elif r < 0.70:
            case += _pkt_event(rng, 3, next_pn, last)
        elif r < 0.74:
            case += [4]
        elif r < 0.82:
            case += [5, now]
        elif r < 0.96:
            case += [6, now]
        else:
            period = rng.choice([0, 1, 1000, 25000, 999000, rng.randrange(1 << 24), PMAX])
            case += [7, period]
    return case


def gen_idle(rng):
    local = rng.choice([0, 0, 1, 10, 100, 3000, 30000, 30000, 600000, rng.randrange(1 << 20)])
    peer = rng.choice([0, 0, 1, 10, 100, 3000, 30000, 10000, 600000, rng.randrange(1 << 20)])
    case = [local, peer]
    eff = min(x for x in (local, peer) if x) if (local or peer) else 0
    now = rng.choice([0, 1, 1000, rng.randrange(1 << 30)])
    pto = rng.choice([1000, 25000, 999000, 333000, 2000000, 50000000])
    n = rng.choice([1, 2, 3, 5, 8, 13, 25])
    deadline = None
    for _ in range(n):
        if rng.random() < 0.2:
            pto = rng.choice([0, 999, 1000, 1999, 25000, 333000, 999000, eff * 1000 // 3, eff * 1000 // 3 + 1000,
                              eff * 400, rng.randrange(1, 1 << 26), 1 << 36])
        step = rng.choice([0, 1, 999, 1000, 1001, pto, 3 * pto, eff * 1000, eff * 500, rng.randrange(1, 1 << 22)])
        now = min(TMAX, now + step)
        r = rng.random()
        if r < 0.3:
            case += [0, now, pto]
            deadline = now + max(eff, 3 * (pto // 1000)) * 1000 if eff else None
        elif r < 0.55:
            case += [1, now, pto]
        else:
            t = now
            if deadline is not None and rng.random() < 0.6:
                t = max(0, deadline + rng.choice([-2000, -1001, -1000, -999, -1, 0, 1, 1000]))
                t = min(t, TMAX)
            case += [2, t]
    return case


def fixed_idle(tier):
    out = [
        [30000, 10000, 0, 5000, 25000, 2, 10005000 - 1000, 2, 10005000 - 999],    # min of both, closes at the deadline
        [0, 0, 0, 5000, 25000, 2, 1 << 40],                                        # disabled: never closes
        [100, 0, 0, 0, 999000, 2, 2997000 - 1000, 2, 2997000],                     # 3 x PTO dominates (2997 ms > 100 ms)
        [100, 0, 0, 1000, 25000, 1, 50000, 25000, 1, 90000, 25000, 2, 149000, 2, 150000],  # only the first send re-arms
        [0, 7, 1, 5, 5, 0, 0, 0, 2, 6000, 2, 6001],
    ]
    alpha = [(0, 1000, 25000), (0, 200000, 999000), (1, 50000, 25000), (1, 300000, 2000000), (2, 100000), (2, 200000),
             (2, 3300000), (2, 1 << 39)]
    L = 3 if tier == "quick" else 5
    for idle in ((100, 0), (0, 0), (5000, 200)):
        out += _short_sequences(alpha, L, prefix=idle)
    return out


def nontrivial_idle(case, out):
    recs = _records(out, 1, 4)
    return any(r[0] == 1 for r in recs) and (any(r[3] == 1 for r in recs) or sum(1 for r in recs if r[0] == 1) >= 2)


def hist_idle(cases, outs):
    from run_check import parse_hexline
    d = {"records": 0, "armed": 0, "closed_cases": 0, "disabled_cases": 0}
    for o in outs:
        if o.startswith("!"):
            continue
        v = parse_hexline(o)
        if v and v[0] == 0:
            d["disabled_cases"] += 1
        recs = _records(v, 1, 4)
        d["records"] += len(recs)
        d["armed"] += sum(1 for r in recs if r and r[0] == 1)
        if any(len(r) == 4 and r[3] == 1 for r in recs):
            d["closed_cases"] += 1
    return d


RX_CLASS = "finished_stream_low_watermark_reader_parked"


def _rx_class_known():
    """the witness family for the known class is only generated once KNOWN_FINDINGS.txt carries the class"""
    import os, re
    p = os.path.join(os.path.dirname(os.path.abspath(__file__)), "..", "KNOWN_FINDINGS.txt")
    try:
        return any(re.match(r"known:\s+property=C02\s+class=%s\s" % RX_CLASS, ln) for ln in open(p))
    except OSError:
        return False


def _rx_sim(case):
    """tiny replay of the op list (not of the state machine): yields (op, args, fin_or_reset_seen_before)"""
    i, ended, out = 1, False, []
    while i < len(case):
        op = case[i] % 6
        if op == 0 or op == 2:
            out.append((op, case[i + 1:i + 2], ended)); i += 2
            ended = ended or op == 2
        elif op == 1:
            out.append((1, case[i + 1:i + 3], ended)); i += 3
        elif op == 3:
            out.append((3, [], ended)); i += 1
            ended = True
        else:
            out.append((op, case[i + 1:i + 3], ended)); i += 3
            ended = ended or op == 5
    return out


def gen_rxwake(rng):
    w = rng.choice([1, 2, 3, 10, 64, 100, 100, 1000, 4096, 8192, rng.randrange(1, 8193)])
    case = [w]
    allow_after_fin_lw = _rx_class_known()
    ended = False
    n = rng.choice([1, 2, 3, 5, 8, 13, 21, 34])
    for _ in range(n):
        r = rng.random()
        if r < 0.45:
            k = rng.choice([0, 1, 2, w // 2 - 1, w // 2, w // 2 + 1, w - 1, w, w + 5, rng.randrange(0, w + 2), rng.randrange(0, 2 * w + 2)])
            case += [0, max(0, k)]
        elif r < 0.88:
            low = rng.choice([0, 0, 1, 2, w // 2 - 1, w // 2, w // 2 + 1, w - 1, w, w + 1, 2 * w, 5 * w + 3, rng.randrange(0, 3 * w + 2)])
            low = max(0, low)
            if ended and not allow_after_fin_lw:
                low = 0
            high = rng.choice([low, low, low + 1, max(1, low // 2), 1, w, 1 << 20, rng.randrange(1, 2 * w + 2)])
            if ended and not allow_after_fin_lw:
                pass
            case += [1, low, high]
        elif r < 0.91:
            case += [2, max(0, rng.choice([0, 1, w // 2, w, rng.randrange(0, w + 2)]))]
            ended = True
        elif r < 0.94:
            case += [3]
            ended = True
        else:
            # a segment ahead of a gap (often with FIN), the gap filler follows as ordinary data ops
            g = rng.choice([1, 1, 2, 3, max(1, w // 4), rng.randrange(1, w + 2)])
            k = rng.choice([0, 1, 2, w // 2, w, rng.randrange(0, w + 2)])
            fin = rng.random() < 0.6
            case += [5 if fin else 4, g, k]
            ended = ended or fin
            for _ in range(rng.choice([0, 1, 1, 2])):
                if rng.random() < 0.5:
                    low = rng.choice([0, 1, w, 2 * w, rng.randrange(0, 3 * w + 2)])
                    if ended and not allow_after_fin_lw:
                        low = 0
                    case += [1, low, rng.choice([max(low, 1), 1 << 20])]
                case += [0, rng.choice([1, g - 1 if g > 1 else 1, g, g + 3])]
    return case


def fixed_rxwake(tier):
    out = [
        [100, 1, 200, 200, 0, 64],                       # low watermark above the window: woken at the flow watermark
        [100, 1, 4096, 4096, 0, 32, 0, 32, 0, 36, 1, 0, 100],   # the window fills up completely
        [100, 1, 10, 10, 0, 5, 0, 5, 1, 0, 100, 2, 0, 1, 0, 100],
        [100, 0, 10, 1, 20, 20, 2, 0, 1, 0, 20],         # parked, FIN arrives: woken
        [16, 1, 0, 5, 0, 1, 1, 0, 5, 3, 1, 0, 100],      # parked, reset arrives: woken
        [1, 1, 5, 5, 0, 1, 1, 0, 1],
        [8192, 1, 8192, 8192, 0, 4095, 0, 1, 0, 4096, 1, 8192, 8192],
        [100, 0, 3, 1, 20, 20, 5, 2, 5, 0, 2, 1, 0, 100],          # parked; FIN segment first, the gap filler completes the stream: woken
        [100, 1, 50, 50, 5, 4, 0, 0, 4, 1, 0, 100],                  # parked on an empty buffer; empty FIN at offset 4, then the 4 bytes
        [100, 1, 30, 30, 4, 5, 5, 0, 2, 0, 3, 1, 0, 100],            # later segment without FIN, gap filled in two pieces
        [10, 1, 9, 9, 4, 2, 8, 0, 2, 1, 0, 100],                     # the gap filler brings the buffer to the threshold
        [10, 1, 20, 20, 5, 3, 7, 3, 0, 3, 1, 0, 100],                # reset is not sent after a FIN; the filler completes
        [10, 1, 20, 20, 4, 3, 7, 3, 1, 0, 100],                      # reset with a segment held
    ]
    if _rx_class_known():
        out.append([100, 2, 10, 1, 20, 20])               # FIN received, low watermark above the rest: parked (known class)
    alpha = [(0, 1), (0, 3), (0, 7), (1, 0, 4), (1, 4, 4), (1, 9, 9), (2, 0), (2, 2), (3,), (4, 1, 2), (5, 1, 0), (5, 2, 2)]
    if not _rx_class_known():
        pass
    seqs = _short_sequences(alpha, 3 if tier == "quick" else 5, prefix=(6,))
    if not _rx_class_known():
        seqs = [c for c in seqs if not any(op == 1 and a and a[0] > 0 and e for op, a, e in _rx_sim(c))]
    return out + seqs


def nontrivial_rxwake(case, out):
    recs = _records(out, 0, 5)
    return any(r[1] == 1 for r in recs if len(r) == 5) and bool(recs) and recs[-1][3] >= 1


def hist_rxwake(cases, outs):
    from run_check import parse_hexline
    d = {"records": 0, "parked": 0, "wakes": 0, "finished_cases": 0, "error_cases": 0, "bytes_read": 0}
    for o in outs:
        if o.startswith("!"):
            continue
        recs = [r for r in _records(parse_hexline(o), 0, 5) if len(r) == 5]
        d["records"] += len(recs)
        d["parked"] += sum(r[1] for r in recs)
        d["bytes_read"] += sum(r[0] for r in recs)
        if recs:
            d["wakes"] += recs[-1][3]
            d["finished_cases"] += 1 if recs[-1][2] == 2 else 0
            d["error_cases"] += 1 if recs[-1][2] == 9 else 0
    return d


def _rx_first_complaint(case, out):
    """python replica of RxWake.judge: index and record of the first op the judge rejects (None if none)"""
    w = max(1, min(case[0] if case else 0, 8192))
    A = 1 << 20
    sent = cons = ended = final = 0
    ooo = None
    park = None
    last = 0
    recs = [r for r in _records(out, 0, 5)]
    k = 0
    for op, a, _ in _rx_sim(case):
        if k >= len(recs) or len(recs[k]) != 5:
            return (k, None)
        c, ww, st, wk, av = recs[k]
        woken = last < wk
        park0 = None if woken else park
        bad = False
        a = [min(x, A) for x in a] + [0, 0]
        if op in (0, 2):
            n = min(a[0], (ooo[0] - sent) if ooo else (cons + w - sent))
            fin = op == 2 and ooo is None
            allowed = ended == 0 or (ended == 1 and ooo is not None)
            if allowed and (n > 0 or fin):
                sent += n
                if ooo and sent == ooo[0]:
                    sent, ooo = ooo[1], None
                if fin:
                    ended, final = 1, sent
            park = park0
            bad = c != 0 or ww != 0 or wk < last
        elif op in (4, 5):
            g, n, fin = a[0], a[1], op == 5
            start = sent + g
            if ended == 0 and ooo is None and g >= 1 and start <= cons + w:
                n = min(n, cons + w - start)
                if n > 0 or fin:
                    ooo = (start, start + n)
                    if fin:
                        ended, final = 1, start + n
            park = park0
            bad = c != 0 or ww != 0 or wk < last
        elif op == 3:
            if ended == 0:
                ended = 2
            park = park0
            bad = c != 0 or ww != 0 or wk < last
        else:
            high = max(a[1], 1)
            low = min(a[0], high)
            bad = c < 0 or c > high or c > sent - cons or ww not in (0, 1) or wk < last
            cons += max(c, 0)
            park = (low - c if low > c else 0) if ww == 1 else None
        if not bad and park is not None:
            bad = (ended == 2 or (ended == 1 and sent == final) or max(1, park) <= sent - cons
                   or (ooo is None and sent == cons + w))
        if bad:
            return (k, (op, recs[k]))
        last = wk
        k += 1
        if op == 1 and st in (2, 9):
            break
    return None


def classify(p):
    """known class: the judge's FIRST complaint is a read request that was parked (will_wake = 1) with
    status Finishing, i.e. polled after the FIN had been fully received"""
    if p.get("component") != "rxwake":
        return None
    from run_check import parse_hexline
    try:
        case = p.get("minimal_case", p["case"])
        out = parse_hexline(p.get("minimal_impl", p["impl"]))
        fc = _rx_first_complaint(case, out)
    except Exception:
        return None
    if fc and fc[1] and fc[1][0] == 1 and fc[1][1][1] == 1 and fc[1][1][2] == 1:
        return RX_CLASS
    return None


def _short_sequences(alphabet, maxlen, prefix=()):
    out = []
    for n in range(1, maxlen + 1):
        for t in itertools.product(alphabet, repeat=n):
            c = list(prefix)
            for o in t:
                c += list(o)
            out.append(c)
    return out


def fixed_ivs(tier):
    out = [
        [0, 5, 3, 1, 0, 1, 3, 0, 0, 1, 0, 1, 2, 1, 0],             # transmit, lose, retransmit, acknowledge
        [0, 10, 5, 1, 0, 1, 0, 3, 2, 0, 0, 0, 2, 1, 0, 1, 2, 1, 0],  # small update while in flight, ack, next update
        [0, 10, 0, 1, 0, 1, 0, 0, 2, 0, 0],                          # threshold 0: a no-op update re-requests
        [VMAX, 0, 0, 0, 5, 1, 0, 1],
        [0, VMAX, 1, 1, 0, 1, 0, VMAX, 3, 0, 0, 1, 1, 1, 2, 1, 0],
        [3, 4, 5, 0, 1, 1, 0, 1, 4, 0, 9, 1, 0, 1],
    ]
    # every sequence of <= L operations over a small alphabet, threshold 2
    alpha = [(0, 0), (0, 1), (0, 2), (1, 0, 1), (1, 1, 1), (1, 0, 0), (2, 0, 0), (2, 1, 0), (3, 0, 0), (3, 1, 0), (4,)]
    L = 3 if tier == "quick" else 5
    out += _short_sequences(alpha, L, prefix=(0, 2, 2))
    out += _short_sequences(alpha, 2 if tier == "quick" else 4, prefix=(0, 0, 0))
    return out


def fixed_osync(tier):
    out = [
        [0, 7, 1, 0, 1, 3, 0, 0, 1, 1, 1, 2, 1, 0, 0, 9],
        [5, 3, 1, 0, 1, 5, 4, 2, 0, 0, 1, 0, 1, 2, 1, 0],
        [4, 0, 1, 5, 2, 1, 0, 1],
    ]
    alpha = [(0, 7), (5, 9), (1, 0, 1), (1, 1, 1), (1, 0, 0), (2, 0, 0), (2, 1, 0), (3, 0, 0), (3, 1, 0), (4,)]
    out += _short_sequences(alpha, 3 if tier == "quick" else 5)
    return out


def fixed_psync(tier):
    P = 999000
    out = [
        [0, 5, 1, 0, 1, 100, 2, 0, 0, 6, 100 + 2 * P - 1000, 6, 100 + 2 * P - 999, 1, 0, 1, 100 + 2 * P],
        [0, 5, 5, 1000, 6, 1000 + 2 * P - 1000, 6, 1000 + 2 * P - 999],
        [0, 1, 1, 0, 1, 0, 3, 0, 0, 1, 2, 1, 0, 1, 1, 1, 7],
        [0, 1, 4, 0, 1, 1, 0, 1, 9],
        [7, 0, 0, 1, 5, 50, 6, 0],
    ]
    alpha = [(0, 1), (1, 0, 1, 10), (1, 1, 1, 10), (2, 0, 1), (3, 0, 1), (4,), (5, 20), (6, 30), (6, 1 << 33)]
    out += _short_sequences(alpha, 3 if tier == "quick" else 5)
    return out


def _records(out, first, width):
    return [out[i:i + width] for i in range(first, len(out), width)]


def nontrivial_sync(first, width, int_col):
    def f(case, out):
        recs = _records(out, first, width)
        wrote = sum(1 for r in recs if r and r[0] == 1)
        ints = set(r[int_col] for r in recs if len(r) == width)
        return wrote >= 1 and len(ints) >= 2
    return f


def hist_sync(first, width, int_col):
    def h(cases, outs):
        from run_check import parse_hexline
        d = {"frames_written": 0, "write_failed": 0, "records": 0, "interest": {"0": 0, "1": 0, "2": 0}}
        for o in outs:
            if o.startswith("!"):
                continue
            for r in _records(parse_hexline(o), first, width):
                if len(r) != width:
                    continue
                d["records"] += 1
                d["frames_written"] += r[0]
                d["write_failed"] += 1 if r[2] == 1 else 0
                d["interest"][str(r[int_col])] = d["interest"].get(str(r[int_col]), 0) + 1
        return d
    return h


def _nonneg(c):
    return all(isinstance(v, int) and 0 <= v <= VMAX for v in c)


registry.register("C02", {
    "gen": ["C02"],
    "props_file": "props/C02.v",
    "extract_target": "extract/Ex_C02.vo",
    "harness": "h_transport",
    "axioms_allowed": [],
    "components": [
        {"name": "ivs", "gen": gen_ivs, "fixed": fixed_ivs, "quick": 20000, "thorough": 1000000,
         "valid": _nonneg, "nontrivial": nontrivial_sync(4, 7, 3), "histogram": hist_sync(4, 7, 3)},
        {"name": "osync", "gen": gen_osync, "fixed": fixed_osync, "quick": 12000, "thorough": 500000,
         "valid": _nonneg, "nontrivial": nontrivial_sync(3, 7, 3), "histogram": hist_sync(3, 7, 3)},
        {"name": "psync", "gen": gen_psync, "fixed": fixed_psync, "quick": 20000, "thorough": 1000000,
         "valid": _nonneg, "nontrivial": nontrivial_sync(4, 7, 3), "histogram": hist_sync(4, 7, 3)},
        {"name": "idle", "gen": gen_idle, "fixed": fixed_idle, "quick": 12000, "thorough": 500000,
         "valid": _nonneg, "nontrivial": nontrivial_idle, "histogram": hist_idle},
        {"name": "rxwake", "gen": gen_rxwake, "fixed": fixed_rxwake, "quick": 20000, "thorough": 1000000,
         "valid": lambda c: _nonneg(c) and len(c) >= 1, "nontrivial": nontrivial_rxwake, "histogram": hist_rxwake},
    ],
    "classify": classify,
    "rule": "cases: corpus + fixed families (hand-written scenarios: transmit/lose/retransmit/acknowledge, superseded in-flight "
            "values, threshold 0, values at 2^62-1; all operation sequences of length <= 3 (quick) / 5 (thorough) over a small "
            "alphabet per component; idle: deadline edges -1000/-999/0 us around last reset + max(idle, 3 PTO)) + seeded random "
            "operation sequences of up to 40-70 operations whose ack/loss ranges aim at or near the most recently written packet and "
            "whose clock advances by amounts around the sync period / the idle deadline. A sync case is non-trivial when at least one "
            "frame was written and at least two different interest values occur; an idle case when the timer was armed and the "
            "connection closed or the timer was re-armed",
    "assumptions": [
        "PARTIAL: the async executor / waker runtime (wakeup_queue, event_loop, stream read/write wakers) is not modelled; "
        "that on_timeout is called when an armed timer expires and that a reported transmission interest leads to an "
        "on_transmit call is exercised only by the end-to-end runs (h_e2e)",
        "sync values are VarInts (< 2^62); IncrementalValueSync is constructed with latest >= acknowledged and updated with "
        "non-decreasing values (its debug assertions)",
        "idle timer: get_idle_timer_duration / on_processed_packet / on_ack_eliciting_packet_sent / the expiry branch of on_timeout "
        "are private to connection_impl.rs; they are tied to the model by the translator (factor 3, shape of the four statements, "
        "30 s default) and by driving the real MaxIdleTimeout::load_peer, Timer and Timestamp arithmetic with a transcription",
        "composition (C02_eventual_delivery): an ABSTRACT composed model (coq/model/Liveness.v: one finished stream, one frame per "
        "packet, a transmission = a round trip decided by two network bits, PTO declares everything in flight lost, the connection "
        "stays open) with oracles under visible hypotheses: fair scheduler (every transmit opportunity / timer expiry / application "
        "read recurs), finite fault prefix then faithful network, windows >= 1 and thresholds <= windows, and interest_reported "
        "(the sender's flow controller does not report blocked while stream and connection credit are available). The last premise "
        "is refuted for the real StreamFlowController (C02_interest_reported_refuted, KNOWN_FINDINGS class "
        "both_windows_blocked_state_masks_stream_credit); congestion/amplification limits and multiple streams are not in the model",
        "rxwake: one peer-initiated stream of the real DefaultStreamManager (hook verif_hooks/recv.rs poll_rx), in-order data inside "
        "the flow-control window (windows 1..8192), counting waker; the judge demands that a parked reader is woken once its low "
        "watermark is buffered, the window can admit nothing more, or FIN/reset arrived, and that no request is parked in such a "
        "state; there is no 'judge accepts the model' theorem for this component because the faithful model itself violates the "
        "judge in the known class finished_stream_low_watermark_reader_parked (C02_reader_parked_on_finished_stream_refuted); "
        "the generator leaves that class out until KNOWN_FINDINGS.txt lists it",
        "recovery timer: the decision function update_pto_timer / check_consistency is modelled from the source; its correspondence "
        "with the running recovery manager is the C09 manager driver (not duplicated here); hypothesis `bookkeeping` (ack-eliciting "
        "packet in flight -> time_of_last_ack_eliciting_packet is set) is visible in the theorem",
    ],
    "trusted_base": ["no axioms: Print Assumptions reports 'Closed under the global context' for every C02 theorem"],
    "explanation": "Coq theorems C02_* over models of sync/{mod,incremental_value_sync,once_sync,periodic_sync}.rs (never stuck, "
                   "never forgotten, monotone), of the idle timer arithmetic (deadline = last reset + max(idle, 3 PTO), blackhole closes) "
                   "and of update_pto_timer/check_consistency (timer armed when required), composition theorem C02_eventual_delivery on an abstract composed model (lexicographic measure) and C02_blackhole_closes_both; sync models tied to the real state machines "
                   "by differential execution through the transport hook, the rest by generated constants; partial: no executor model",
})
