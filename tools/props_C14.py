"""C14 -- transport parameters are validated and applied exactly as RFC 9000 specifies."""
import itertools
import os
import subprocess
import registry

VMAX = (1 << 62) - 1
ROOT = os.path.dirname(os.path.dirname(os.path.abspath(__file__)))


# ------------------------------------------------------------------------------------------ encoders
def vi(v, n=None):
    """variable-length integer in n bytes (minimal when n is None)"""
    if n is None:
        n = 1 if v < 64 else 2 if v < 16384 else 4 if v < (1 << 30) else 8
    tag = {1: 0, 2: 1, 4: 2, 8: 3}[n]
    x = v | (tag << (8 * n - 2))
    return [(x >> (8 * (n - 1 - i))) & 0xFF for i in range(n)]


def vi_lens(v):
    return [n for n in (1, 2, 4, 8) if v < (1 << (8 * n - 2))]


def entry(pid, value, idn=None, lenn=None, declared=None):
    return vi(pid, idn) + vi(len(value) if declared is None else declared, lenn) + list(value)


def rbytes(rng, n):
    return [rng.randrange(256) for _ in range(n)]


# ------------------------------------------------------------------------------------------ catalogue
INT_VALUES = {
    0x01: [0, 1, 30000, 29999, 30001, VMAX],
    0x03: [0, 1199, 1200, 1201, 1472, 65526, 65527, 65528, VMAX],
    0x04: [0, 1, 1 << 32, VMAX],
    0x05: [0, 63, 64, VMAX],
    0x06: [0, 16383, 16384, VMAX],
    0x07: [0, (1 << 30) - 1, 1 << 30, VMAX],
    0x08: [0, 100, (1 << 60) - 1, 1 << 60, (1 << 60) + 1, VMAX],
    0x09: [0, 100, (1 << 60) - 1, 1 << 60, (1 << 60) + 1, VMAX],
    0x20: [0, 1199, 1200, 65535, VMAX],
    0x0A: [0, 3, 19, 20, 21, 63],
    0x0B: [0, 25, 16382, 16383, 16384, 16385, VMAX],
    0x0E: [0, 1, 2, 3, 8, VMAX],
}
CID_IDS = [0x00, 0x0F, 0x10]
CID_LENS = [0, 1, 3, 4, 5, 7, 8, 9, 19, 20, 21, 40]
UNKNOWN_IDS = [0x11, 0x1B, 0x1B + 31, 0x1B + 31 * 2, 31 * 1000 + 27, 31 * ((1 << 40) // 31) + 27, 0x1F, 0x21, 0x40,
               0xDC0001, 0xDC0003, 0xDBFFFF, VMAX, VMAX - 1]
KNOWN_IDS = list(range(0x11)) + [0x20, 0xDC0000, 0xDC0002]


def pref_value(rng, v4=True, v6=True, cidlen=4, cut=0, extra=0):
    a4 = rbytes(rng, 6) if v4 else [0] * 6
    a6 = rbytes(rng, 18) if v6 else [0] * 18
    if v4 and not any(a4):
        a4[0] = 1
    if v6 and not any(a6):
        a6[0] = 1
    v = a4 + a6 + [cidlen & 0xFF] + rbytes(rng, cidlen) + rbytes(rng, 16) + rbytes(rng, extra)
    return v[:len(v) - cut] if cut else v


def dc_value(rng, vals, n=None):
    out = []
    for v in vals:
        out += vi(v, n if n in vi_lens(v) else None)
    return out


def some_value(rng, pid):
    """a value for parameter pid: mostly valid, clustered on the bounds"""
    if pid in INT_VALUES:
        r = rng.random()
        if r < 0.7:
            v = rng.choice(INT_VALUES[pid])
        elif r < 0.85:
            v = max(0, min(VMAX, rng.choice(INT_VALUES[pid]) + rng.choice([-2, -1, 1, 2])))
        else:
            v = rng.randrange(1 << rng.choice([6, 14, 30, 62]))
        n = rng.choice(vi_lens(v)) if rng.random() < 0.35 else None
        if pid == 0x0A and rng.random() < 0.3:
            return [rng.choice([0, 3, 20, 21, 63, 64, 0x7F, 0x80, 0xC0, 0xFF])]      # raw single bytes
        return vi(v, n)
    if pid in CID_IDS:
        return rbytes(rng, rng.choice(CID_LENS) if rng.random() < 0.5 else rng.choice([8, 8, 4, 16, 20]))
    if pid == 0x02:
        return rbytes(rng, rng.choice([16, 16, 16, 0, 15, 17]))
    if pid in (0x0C, 0xDC0002):
        return rbytes(rng, rng.choice([0, 0, 0, 1, 2]))
    if pid == 0x0D:
        return pref_value(rng, rng.random() < 0.7, rng.random() < 0.7, rng.choice([0, 1, 4, 8, 20, 21, 4, 8]),
                          cut=rng.choice([0, 0, 0, 0, 1, 17]), extra=rng.choice([0, 0, 0, 0, 1]))
    if pid == 0xDC0000:
        k = rng.choice([0, 1, 1, 2, 3, 4, 5, 6])
        vals = [rng.choice([0, 1, 7, (1 << 32) - 1, 1 << 32, (1 << 32) - 2, rng.randrange(1 << 32)]) for _ in range(k)]
        v = dc_value(rng, vals, rng.choice([None, None, 8]))
        if rng.random() < 0.15:
            v = v + [rng.choice([0x40, 0x80, 0xC0])]        # a truncated trailing integer
        return v
    return rbytes(rng, rng.choice([0, 1, 2, 5, 16]))


def gen_tp(rng):
    role = rng.choice([0, 1])
    r = rng.random()
    if r < 0.08:
        return [role] + rbytes(rng, rng.choice([1, 2, 3, 5, 8, 13, 30]))
    n = rng.choice([0, 1, 1, 2, 2, 3, 4, 5, 6, 8])
    pool = KNOWN_IDS if role == 1 or rng.random() < 0.3 else [i for i in KNOWN_IDS if i not in (0, 2, 0x0D, 0x10)]
    ids = []
    for _ in range(n):
        q = rng.random()
        if q < 0.72:
            ids.append(rng.choice(pool))
        elif q < 0.9:
            ids.append(rng.choice(UNKNOWN_IDS))
        elif ids:
            ids.append(rng.choice(ids))                        # duplication
        else:
            ids.append(rng.randrange(1 << rng.choice([6, 14, 30, 62])))
    if rng.random() < 0.75:
        # mostly distinct known ids, so that many blocks are entirely valid
        seen, d = set(), []
        for i in ids:
            if i in seen and rng.random() < 0.85:
                continue
            seen.add(i); d.append(i)
        ids = d
    blk = []
    for i in ids:
        v = some_value(rng, i)
        idn = rng.choice(vi_lens(i)) if rng.random() < 0.15 else None
        lenn = rng.choice(vi_lens(len(v))) if rng.random() < 0.15 else None
        declared = None
        q = rng.random()
        if q < 0.04:
            declared = len(v) + rng.choice([1, 2, 100, 1 << 20, VMAX - len(v)])
        elif q < 0.07 and len(v) > 0:
            declared = len(v) - 1
        blk += entry(i, v, idn, lenn, declared)
    q = rng.random()
    if q < 0.05 and blk:
        blk = blk[:rng.randrange(len(blk))]
    elif q < 0.08:
        blk = blk + rbytes(rng, rng.choice([1, 2]))
    return [role] + blk


def fixed_tp(tier):
    import random
    rng = random.Random(14)
    out = []
    # F1 boundary first: max_ack_delay at, just inside and just outside 2^14, every encoding, both roles
    for role in (0, 1):
        for v in (16384, 16383, 16385, 16382):
            for n in vi_lens(v):
                out.append([role] + entry(0x0B, vi(v, n)))
    # every integer parameter at / around each bound, every encoding length, both roles
    for role in (0, 1):
        for pid, vals in INT_VALUES.items():
            for v in vals:
                for n in vi_lens(v):
                    out.append([role] + entry(pid, vi(v, n)))
            out.append([role] + entry(pid, []))
            out.append([role] + entry(pid, [0x40]))
            out.append([role] + entry(pid, [0x05, 0x00]))
        for b in (0, 20, 21, 0x3F, 0x40, 0x54, 0x80, 0xC0, 0xFF):
            out.append([role] + entry(0x0A, [b]))
        # connection ids, token, flags
        for pid in CID_IDS:
            for l in CID_LENS:
                out.append([role] + entry(pid, rbytes(rng, l)))
        for l in (0, 1, 15, 16, 17, 32):
            out.append([role] + entry(0x02, rbytes(rng, l)))
        for pid in (0x0C, 0xDC0002):
            for l in (0, 1, 2):
                out.append([role] + entry(pid, rbytes(rng, l)))
        # preferred address
        for v4 in (True, False):
            for v6 in (True, False):
                for cl in (0, 1, 3, 4, 8, 20, 21, 255):
                    out.append([role] + entry(0x0D, pref_value(rng, v4, v6, cl)))
        for cut in (1, 2, 16, 17, 30):
            out.append([role] + entry(0x0D, pref_value(rng, True, True, 4, cut=cut)))
        out.append([role] + entry(0x0D, pref_value(rng, True, True, 4, extra=1)))
        out.append([role] + entry(0x0D, []))
        # only a port, no address: not all-zero
        out.append([role] + entry(0x0D, [0, 0, 0, 0, 0, 80] + [0] * 18 + [4, 1, 2, 3, 4] + [9] * 16))
        # dc versions
        for vals in ([], [0], [1], [1, 2], [1, 2, 3], [1, 2, 3, 4], [1, 2, 3, 4, 5], [(1 << 32) - 1], [1 << 32],
                     [1, 1 << 32], [1, 2, 3, 4, 1 << 32], [1, 2, 3, 1 << 32]):
            out.append([role] + entry(0xDC0000, dc_value(rng, vals)))
            out.append([role] + entry(0xDC0000, dc_value(rng, vals, 8)))
        out.append([role] + entry(0xDC0000, [0x40]))
        out.append([role] + entry(0xDC0000, [1, 2, 3, 4, 0x40]))
        out.append([role] + entry(0xDC0000, [1, 2, 3, 0x40]))
        # unknown ids (incl. GREASE 31*N+27), several lengths, every id encoding
        for u in UNKNOWN_IDS:
            for l in (0, 1, 5):
                for idn in vi_lens(u):
                    out.append([role] + entry(u, rbytes(rng, l), idn))
        # framing: declared length over/under-running, truncations
        for pid in (0x01, 0x04, 0x0F, 0x11, 0x1B):
            v = vi(1000)
            e = entry(pid, v)
            out.append([role] + entry(pid, v, declared=len(v) + 1))
            out.append([role] + entry(pid, v, declared=len(v) - 1))
            out.append([role] + entry(pid, v, declared=VMAX))
            for k in range(len(e)):
                out.append([role] + e[:k])
            out.append([role] + e + [0x01])
            out.append([role] + e + [0xC0])
            out.append([role] + e + entry(0x05, vi(7))[:2])
    # all subsets and orders of <= 5 parameters of a fixed family, both roles
    fams = [[(0x01, vi(30000)), (0x0A, [3]), (0x0E, vi(2)), (0x0F, [1, 2, 3, 4, 5]), (0x02, list(range(16)))]]
    if tier != "quick":
        fams.append([(0x0B, vi(16383)), (0x03, vi(1200)), (0x00, list(range(8))), (0x10, [9] * 4), (0x0C, [])])
        fams.append([(0x08, vi(1 << 60)), (0x20, vi(65535)), (0xDC0000, [1]), (0x1B, [7, 7]), (0x0D, pref_value(rng))])
    for fam in fams:
        for k in range(len(fam) + 1):
            for perm in itertools.permutations(fam, k):
                blk = []
                for pid, v in perm:
                    blk += entry(pid, v)
                for role in (0, 1):
                    out.append([role] + blk)
                # duplications: repeat one member at the end / at the front
                if 1 <= k <= 3:
                    for pid, v in perm:
                        out.append([1] + blk + entry(pid, v))
                        out.append([0] + entry(pid, vi(5) if pid in INT_VALUES else v) + blk)
                # an unknown parameter at every position
                if k == 3:
                    for pos in range(k + 1):
                        b2 = []
                        for j, (pid, v) in enumerate(perm):
                            if j == pos:
                                b2 += entry(0x1B + 31 * 5, [1, 2, 3])
                            b2 += entry(pid, v)
                        if pos == k:
                            b2 += entry(0x1B + 31 * 5, [1, 2, 3])
                        out.append([1] + b2)
                        out.append([0] + b2)
    # repeated unknown parameter
    out.append([0] + entry(0x1B, [1]) + entry(0x1B, [1]))
    out.append([1] + entry(0x1B, [1]) + entry(0x04, vi(9)) + entry(0x1B, [2]))
    out.append([0])
    out.append([1])
    return out



# ------------------------------------------------------------------------------------------ sess
def sess_case(role, retry, odcid, peer, blk):
    return [role, 1 if retry is not None else 0, len(retry or []), *(retry or []), len(odcid), *odcid, len(peer), *peer, *blk]


def sess_parse(c):
    """inverse of sess_case (None when the framing integers are out of range)"""
    try:
        role, rf, rl = c[0], c[1], c[2]
        i = 3
        retry = c[i:i + rl]; i += rl
        ol = c[i]; odcid = c[i + 1:i + 1 + ol]; i += 1 + ol
        pl = c[i]; peer = c[i + 1:i + 1 + pl]; i += 1 + pl
        if len(retry) != rl or len(odcid) != ol or len(peer) != pl:
            return None
        return role, (retry if rf else None), rf, rl, odcid, peer, c[i:]
    except IndexError:
        return None


def sess_valid(c):
    r = sess_parse(c)
    if r is None:
        return False
    role, retry, rf, rl, odcid, peer, blk = r
    return (role in (0, 1) and rf in (0, 1) and 0 <= rl <= 20 and 8 <= len(odcid) <= 20 and len(peer) <= 20
            and all(0 <= v <= 255 for v in c[3:]))


def sess_variants(rng, role, retry, odcid, peer):
    """blocks around the authentic one: each of the three connection id parameters present-and-equal,
    absent, or different (one byte flipped / truncated / extended / another's value)"""
    def alter(v, how):
        v = list(v)
        if how == 0:
            return v
        if how == 1:
            return None
        if how == 2:
            return (v[:-1] + [v[-1] ^ 1]) if v else [0]
        if how == 3:
            return v[:-1] if v else [7]
        if how == 4:
            return v + [0]
        return list(odcid if v != list(odcid) else peer)
    out = []
    for hi in range(6):
        for ho in (range(6) if role == 1 else (1, 0)):
            for hr in ((0, 1, 2, 3, 4, 5) if role == 1 else (1, 0)):
                i = alter(peer, hi)
                o = alter(odcid, ho)
                r = alter(retry if retry is not None else [9, 9, 9, 9], hr if retry is not None else (1 if hr in (1,) else hr))
                if retry is None and hr == 1:
                    r = None
                ents = []
                if i is not None:
                    ents.append((0x0F, i))
                if o is not None:
                    ents.append((0x00, o))
                if r is not None:
                    ents.append((0x10, r))
                out.append(ents)
    return out


def fixed_sess(tier):
    import random
    rng = random.Random(1407)
    out = []
    odcid = [1, 2, 3, 4, 5, 6, 7, 8]
    for role in (0, 1):
        for retry in (None, [9, 9, 9, 9], [9] * 8, [9] * 20, [5, 6, 7]):
            for peer in ([], [0xAA, 0xBB, 0xCC, 0xDD], [3] * 20):
                if retry is not None and len(retry) < 4 and (peer or role == 0):
                    continue            # a Retry SCID below 4 bytes is the known finding rscid_short: a few cases suffice
                for ents in sess_variants(rng, role, retry, odcid, peer):
                    if len(ents) > 3:
                        continue
                    blk = []
                    for pid, v in ents:
                        if len(v) <= 40:
                            blk += entry(pid, v)
                    out.append(sess_case(role, retry, odcid, peer, blk))
    # authentic ids with another parameter at / beyond a bound, an unknown parameter, a duplicate
    for role in (0, 1):
        base = entry(0x0F, [0xAA, 0xBB]) + (entry(0x00, odcid) if role else [])
        for extra in (entry(0x0B, vi(16383)), entry(0x0B, vi(16384)), entry(0x1B, [1, 2]), entry(0x0F, [0xAA, 0xBB]),
                      entry(0x0E, vi(1)), entry(0x03, vi(65528)), [0x40]):
            out.append(sess_case(role, None, odcid, [0xAA, 0xBB], base + extra))
            out.append(sess_case(role, None, odcid, [0xAA, 0xBB], extra + base))
    return out


def gen_sess(rng):
    role = rng.choice([0, 1, 1])
    odcid = rbytes(rng, rng.choice([8, 8, 9, 16, 20]))
    peer = rbytes(rng, rng.choice([0, 4, 8, 8, 20, 1]))
    retry = rbytes(rng, rng.choice([4, 4, 8, 20, 5, 16, 4, 8, 8, 20, 5, 16, 3])) if (role == 1 and rng.random() < 0.5) or rng.random() < 0.1 else None
    ents = rng.choice(sess_variants(rng, role, retry, odcid, peer)) if rng.random() < 0.8 else \
        [(0x0F, peer)] + ([(0x00, odcid)] if role else []) + ([(0x10, retry)] if retry is not None and role else [])
    ents = [(p, v) for p, v in ents]
    # other parameters around
    for _ in range(rng.choice([0, 0, 1, 2, 3])):
        pid = rng.choice([0x01, 0x03, 0x04, 0x08, 0x0A, 0x0B, 0x0C, 0x0E, 0x20, 0x02, 0x0D, 0xDC0000] + UNKNOWN_IDS[:6])
        if role == 0 and pid in (0x02, 0x0D) and rng.random() < 0.8:
            continue
        ents.insert(rng.randrange(len(ents) + 1), (pid, some_value(rng, pid)))
    if rng.random() < 0.05 and ents:
        ents.append(rng.choice(ents))
    blk = []
    for pid, v in ents:
        blk += entry(pid, v[:60])
    if rng.random() < 0.03 and blk:
        blk = blk[:rng.randrange(len(blk))]
    return sess_case(role, retry, odcid, peer, blk)

CLASSES = {1: "ade_nonminimal", 2: "rscid_short"}


def _run(cmd, line):
    p = subprocess.run(cmd, input=(line + "\n").encode(), stdout=subprocess.PIPE, stderr=subprocess.PIPE, timeout=60)
    return p.stdout.decode().strip("\n").split("\n")[0]


def classify(p):
    """a judge failure belongs to a known class only if (1) the implementation rejected the block,
    (2) the block contains an entry of that class, and (3) with the entries of the class removed the
    implementation's output satisfies the judgement"""
    try:
        from run_check import hexline, parse_hexline, BUILD, TARGET
        case = p.get("minimal_case", p["case"])
        impl = p.get("minimal_impl", p["impl"])
        comp = p.get("component", "tp")
        model = os.path.join(BUILD, "ocaml", "C14", "model_C14")
        if comp == "tp":
            if not impl.split() or impl.split()[0] != "0":
                return None
            binp = os.path.join(TARGET, "release", "C14")
            r = parse_hexline(_run([model, "run", "tp_class"], hexline(case)))
            if not r or r[0] == 0:
                return None
            stripped = hexline(r[1:])
        elif comp == "sess":
            if not impl.split() or impl.split()[0] != "1":
                return None
            binp = os.path.join(TARGET, "release", "C14s")
            q = sess_parse(case)
            if q is None:
                return None
            role, retry, rf, rl, odcid, peer, blk = q
            r = parse_hexline(_run([model, "run", "tp_class"], hexline([role] + blk)))
            if not r or r[0] == 0:
                return None
            stripped = hexline(sess_case(role, retry, odcid, peer, r[2:]))
        else:
            return None
        o = _run([binp, comp], stripped)
        v = _run([model, "judge", comp], "%s | %s" % (stripped, o))
        return CLASSES.get(r[0]) if v == "1" else None
    except Exception:
        return None


def hist_tp(cases, outs):
    h = {"accept": 0, "reject_eof": 0, "reject_bytes": 0, "reject_invariant": 0, "other": 0, "client_blocks": 0, "server_blocks": 0}
    for c, o in zip(cases, outs):
        h["server_blocks" if c and c[0] else "client_blocks"] += 1
        t = o.split()
        if t[:1] == ["1"]:
            h["accept"] += 1
        elif t[:2] == ["0", "1"]:
            h["reject_eof"] += 1
        elif t[:2] == ["0", "2"]:
            h["reject_bytes"] += 1
        elif t[:2] == ["0", "4"]:
            h["reject_invariant"] += 1
        else:
            h["other"] += 1
    return h


registry.register("C14", {
    "gen": ["C14"],
    "props_file": "props/C14.v",
    "extract_target": "extract/Ex_C14.vo",
    "harness": "h_core",
    "axioms_allowed": [],
    "classify": classify,
    "components": [
        {"name": "tp", "gen": gen_tp, "fixed": fixed_tp, "quick": 60000, "thorough": 3000000,
         "valid": lambda c: len(c) >= 1 and c[0] in (0, 1) and all(0 <= v <= 255 for v in c[1:]),
         "nontrivial": lambda case, out: len(case) >= 3,
         "histogram": hist_tp},
        {"name": "sess", "harness": ("h_transport", "C14s"), "gen": gen_sess, "fixed": fixed_sess, "quick": 20000, "thorough": 500000,
         "valid": sess_valid,
         "nontrivial": lambda case, out: len(case) >= 14,
         "histogram": lambda cases, outs: {"continues": sum(1 for o in outs if o.split()[:1] == ["0"]),
                                           "transport_parameter_error": sum(1 for o in outs if o.split() == ["1", "8"]),
                                           "other": sum(1 for o in outs if o.split()[:1] != ["0"] and o.split() != ["1", "8"])}},
    ],
    "rule": "case = role :: block bytes. corpus + fixed families (every integer parameter at, just inside and just outside each bound in every "
            "variable-length encoding; connection id / token / flag / preferred_address / dc-version lengths around their bounds; all ordered "
            "subsets of <= 5 parameters of a fixed family with duplications and an unknown parameter at every position; unknown ids incl. "
            "GREASE 31*N+27 in every id encoding; declared lengths over/under-running, every truncation) for both roles + seeded random "
            "blocks of 0..8 parameters drawn from the same catalogue with random non-minimal encodings, length faults, truncations and 8% "
            "raw random bytes; a case is non-trivial when the block has at least two bytes",
    "assumptions": [
        "64-bit usize (DecoderError::LengthCapacityExceeded is unreachable)",
        "component sess drives the real SessionContext::on_one_rtt_keys through hook verif_hooks/session.rs with dc disabled (the library default) "
        "and the handshake's connection ids placed directly in the path / SessionContext fields (how the packet layer fills them is C13/C06 territory)",
    ],
    "trusted_base": ["no axioms: Print Assumptions reports 'Closed under the global context' for every C14 theorem",
                     "model/Rfc18_2.v is the reading of RFC 9000 7.4/16/18/18.2 the judgement uses (three-valued: must accept / must reject / unspecified)"],
    "explanation": "Coq theorems C14_* relate the model of decode_parameters (ids, defaults, bounds, strictness generated from the source) to an "
                   "acceptance table transcribed from RFC 9000 18.2; the model is tied to the source by differential execution against "
                   "ClientTransportParameters/ServerTransportParameters::decode, and the RFC table itself judges every implementation output",
})
