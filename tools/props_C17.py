"""C17 -- lock-free spsc queue and wakers (partial: sequentially consistent interleavings only)."""
import registry


def gen_spsc(rng):
    cap = rng.choice([0, 1, 1, 2, 2, 3, 3, 4, 7, 8, 15, 16, 31, 64, rng.randrange(0, 70)])
    n = rng.choice([1, 2, 3, 5, 8, 13, 21, 40])
    case = [cap]
    # weights: pushes/pops dominate, polls frequent, drops rare (and late)
    for i in range(n):
        r = rng.random()
        late = i > n * 0.6
        if r < 0.22:
            op = 0
        elif r < 0.44:
            op = 1
        elif r < 0.66:
            op = 2
        elif r < 0.90:
            op = 3
        elif r < 0.95:
            op = 4 if late or rng.random() < 0.3 else 3
        else:
            op = 5 if late or rng.random() < 0.3 else 1
        k = rng.choice([0, 1, 1, 1, 2, 3, cap, cap + 1, max(0, cap - 1), 2 * cap + 1, rng.randrange(0, 12)])
        if rng.random() < 0.06:
            op, k = 6, rng.choice([1, 1, 0])     # the sender task's waker polls inline / counts
        case += [op, min(k, 200)]
    return case


def fixed_spsc(tier):
    import itertools
    out = []
    # every op sequence of length <= L over a small alphabet, for capacities 1 and 2 (internal 2 and 4)
    alpha = [(0, 1), (0, 3), (1, 1), (1, 2), (2, 1), (2, 3), (3, 1), (3, 0), (4, 0), (5, 0)]
    L = 4 if tier == "quick" else 6
    for cap in (1, 2, 3):
        for n in range(1, L + 1):
            for t in itertools.product(alpha, repeat=n):
                c = [cap]
                for op, k in t:
                    c += [op, k]
                out.append(c)
    # inline-poll families: the sender task is polled from inside wake(), i.e. in the middle of the
    # receiver's pop / close (finer than operation granularity); queue full, sender parked, then the
    # receiver pops or goes away
    for cap in (0, 1, 2, 3, 7):
        full = cap + 3
        for tail in ([5, 0], [2, 1], [2, 1, 5, 0], [3, 1, 5, 0], [2, 0, 5, 0], [4, 0, 5, 0], [2, 1, 1, 0, 5, 0]):
            out.append([cap, 1, full, 6, 1, 1, 0] + tail)
            out.append([cap, 6, 1, 1, full, 1, 1] + tail)
            out.append([cap, 0, full, 1, 0, 6, 1] + tail + [6, 0, 1, 1])
    alpha_i = [(1, 0), (1, 2), (2, 1), (3, 1), (5, 0), (4, 0), (6, 0)]
    for n in range(1, (3 if tier == "quick" else 4) + 1):
        for t in itertools.product(alpha_i, repeat=n):
            c = [1, 6, 1, 1, 3]
            for op, k in t:
                c += [op, k]
            out.append(c)
    # wrap-around families: fill, drain, refill across the index wrap for each internal capacity
    for cap in (0, 1, 2, 3, 4, 7, 8, 15, 16, 63, 64, 127, 128):
        for a in (cap, cap + 1, max(cap - 1, 0)):
            out.append([cap, 0, a, 2, a, 0, a, 2, a, 0, a, 3, 200, 3, 1, 0, 1, 4, 0, 3, 1])
            out.append([cap, 3, 1, 1, a, 1, 1, 3, 200, 2, 1, 1, a, 5, 0, 1, 1])
            out.append([cap, 1, 200, 1, 1, 2, 1, 1, 1, 1, 1, 5, 0, 1, 1, 0, 1])
    return out


def valid_spsc(c):
    if len(c) < 1 or len(c) % 2 != 1:
        return False
    if not (0 <= c[0] <= 128):
        return False
    return all(0 <= op <= 6 for op in c[1::2]) and all(0 <= k <= 200 for k in c[2::2])


def hist_spsc(cases, outs):
    h = {"ops": {}, "pending_polls": 0, "closed_seen": 0, "wakes": 0}
    for c in cases:
        for op in c[1::2]:
            h["ops"][str(op)] = h["ops"].get(str(op), 0) + 1
    for o in outs:
        t = o.split()
        if len(t) >= 2 and t[-1] != "" and not o.startswith("!"):
            try:
                h["wakes"] += int(t[-1], 16) + int(t[-2], 16)
            except ValueError:
                pass
    return h


def nontrivial_spsc(case, out):
    # at least one item went through and either a poll returned Pending/closed or a wake-up happened
    if len(out) < 4:
        return False
    return (out[-1] + out[-2] > 0) and any(op in (2, 3) for op in case[1::2]) and any(op in (0, 1) for op in case[1::2])


def gen_cursor(rng):
    k = rng.choice([0, 1, 1, 2, 2, 3, 4, 6])
    size = 1 << k
    n = rng.choice([2, 4, 8, 16, 40, 80])
    case = [k]
    for _ in range(n):
        op = rng.choice([0, 1, 1, 2, 3, 3])
        arg = rng.choice([0, 1, 1, 2, size - 1, size, size + 1, 2 * size, rng.randrange(0, 2 * size + 2), 70000])
        case += [op, max(0, arg)]
    return case


def fixed_cursor(tier):
    import itertools
    out = []
    alpha = [(0, 0), (0, 1), (0, 9), (1, 1), (1, 9), (2, 0), (2, 1), (2, 9), (3, 1), (3, 9)]
    L = 4 if tier == "quick" else 5
    for k in (0, 1, 2):
        for n in range(1, L + 1):
            for t in itertools.product(alpha, repeat=n):
                c = [k]
                for op, a in t:
                    c += [op, a]
                out.append(c)
    return out


def valid_cursor(c):
    return len(c) >= 1 and len(c) % 2 == 1 and 0 <= c[0] <= 10 and all(0 <= o <= 3 for o in c[1::2]) and all(0 <= a <= 100000 for a in c[2::2])


def gen_worker(rng):
    n = rng.choice([1, 2, 3, 5, 8, 13, 30])
    case = []
    for i in range(n):
        r = rng.random()
        if r < 0.3:
            op = 0
        elif r < 0.7:
            op = 1
        elif r < 0.9:
            op = 2
        else:
            op = 3 if (i > n * 0.5 or rng.random() < 0.3) else 1
        case += [op, rng.choice([0, 1, 1, 2, 3, 8, rng.randrange(0, 20), 1000000])]
    return case


def fixed_worker(tier):
    import itertools
    out = []
    alpha = [(0, 0), (0, 1), (0, 3), (1, 0), (2, 1), (2, 5), (3, 0)]
    L = 5 if tier == "quick" else 7
    for n in range(1, L + 1):
        for t in itertools.product(alpha, repeat=n):
            c = []
            for op, a in t:
                c += [op, a]
            out.append(c)
    return out


def valid_worker(c):
    return len(c) % 2 == 0 and all(0 <= o <= 3 for o in c[0::2]) and all(0 <= a <= 1000000 for a in c[1::2])


def gen_rxring(rng):
    k = rng.choice([0, 1, 1, 2, 2, 3, 5])
    size = 1 << k
    n = rng.choice([2, 4, 8, 16, 30])
    case = [k]
    for i in range(n):
        r = rng.random()
        if r < 0.4:
            a = rng.choice([0, 1, 1, size - 1, size, size + 3, rng.randrange(0, size + 2)])
            b = rng.choice([0, 0, 1, size, rng.randrange(0, size + 2)])
            case += [0, max(0, a), b]
        elif r < 0.7:
            case += [1, rng.choice([0, 1, 1, size, size + 1]), 0]
        elif r < 0.95:
            case += [2, rng.choice([0, 1, 1, 2, size, 70000]), 0]
        else:
            case += [3, 0, 0] if i > n // 2 else [1, 1, 0]
    return case


def fixed_rxring(tier):
    import itertools
    out = []
    L = 4 if tier == "quick" else 5
    for k in (0, 1, 2):
        size = 1 << k
        alpha = [(0, 0, 0), (0, 1, 0), (0, size, 0), (0, 1, size), (0, size + 1, 1), (1, 1, 0), (2, 1, 0), (2, size, 0), (3, 0, 0)]
        for n in range(1, L + 1):
            for t in itertools.product(alpha, repeat=n):
                c = [k]
                for op in t:
                    c += list(op)
                out.append(c)
    return out


def valid_rxring(c):
    return len(c) >= 1 and len(c) % 3 == 1 and 0 <= c[0] <= 6 and all(0 <= o <= 3 for o in c[1::3]) and all(0 <= a <= 100000 for a in c[2::3] + c[3::3])


def gen_txrings(rng):
    nr = rng.choice([0, 1, 1, 2, 2])          # rings - 1
    k = rng.choice([0, 1, 1, 2, 3])
    size = 1 << k
    n = rng.choice([2, 4, 8, 16, 30])
    case = [nr, k]
    for _ in range(n):
        r = rng.random()
        if r < 0.35:
            a = rng.choice([0, 1, size - 1, size, size + 1, 2 * size, 2 * size + 1, 3 * size, rng.randrange(0, 3 * size + 3)])
            case += [0, max(0, min(a, 64)), 0]
        elif r < 0.65:
            case += [1, rng.randrange(0, 3), 0]
        elif r < 0.9:
            case += [2, rng.randrange(0, 3), rng.choice([0, 1, 1, 2, size, 70000])]
        else:
            case += [3, 0, 0]
    return case


def fixed_txrings(tier):
    import itertools
    out = []
    L = 4 if tier == "quick" else 5
    for nr in (0, 1, 2):
        for k in (0, 1):
            size = 1 << k
            alpha = [(0, 1, 0), (0, size + 1, 0), (0, 2 * size + 1, 0), (1, 0, 0), (1, 1, 0), (2, 0, 9), (2, 1, 1), (3, 0, 0)]
            if nr == 2:
                alpha.append((1, 2, 0))
            for n in range(1, L + 1):
                if nr == 2 and n == L:
                    continue
                for t in itertools.product(alpha, repeat=n):
                    c = [nr, k]
                    for op in t:
                        c += list(op)
                    out.append(c)
    return out


def valid_txrings(c):
    return len(c) >= 2 and len(c) % 3 == 2 and 0 <= c[0] <= 2 and 0 <= c[1] <= 4 and all(0 <= o <= 3 for o in c[2::3]) and all(0 <= a <= 64 for a in c[3::3]) and all(0 <= b <= 100000 for b in c[4::3])


def explore_check(ctx, stats):
    """bounded exploration of every interleaving of four two-operation scenarios in the extracted MODEL, whose
    close step order is generated from the source: a lost wake-up is reported with its witness schedule"""
    from run_check import hexline, parse_hexline
    import os, json, glob, atexit, time
    cases = [[0], [1], [2], [3]]
    lines = [hexline(c) for c in cases]
    t0 = time.time()
    outs = ctx.model("spsc_explore", lines)
    probs = []
    names = {0: "drop sender || receiver poll (empty)", 1: "drop sender || receiver poll (one item)",
             2: "sender poll (full) || drop receiver", 3: "sender poll (full) || pop"}
    witness = None
    for c, o in zip(cases, outs):
        v = parse_hexline(o) if o and not o.startswith("!") else ([] if not o else [-1])
        if v:
            sched = "".join("P" if x == 1 else "C" for x in v[1:])
            witness = {"scenario": names[c[0]], "schedule": sched,
                       "meaning": "P = one atomic step of the producer thread, C = of the consumer thread; after this schedule a parked task faces a non-empty/non-full/closed queue with no wake in flight"}
            print("  broken: model (close step order read from the source) has a lost-wake-up schedule in scenario '%s': %s" % (names[c[0]], sched))
            probs.append({"kind": "judge", "component": "spsc_explore", "case": c, "impl": "model witness schedule " + sched, "model": o})
    stats.append({"component": "spsc_explore", "cases": len(cases), "distinct": len(cases), "distinct_nontrivial": len(cases),
                  "model_s": round(time.time() - t0, 2), "samples": [{"case": lines[-1], "impl": outs[-1]}],
                  "note": "model only: every interleaving of the scenario, every intermediate state; empty output = no lost wake-up"})
    if witness:
        start = time.time()

        def attach():
            # add the witness schedule to the replay file written by this run
            root = os.path.dirname(os.path.dirname(os.path.abspath(__file__)))
            for f in glob.glob(os.path.join(root, "build", "replay", "C17_*.json")):
                try:
                    if os.path.getmtime(f) >= start - 1:
                        r = json.load(open(f))
                        r["model_witness"] = witness
                        json.dump(r, open(f, "w"), indent=1)
                except Exception:
                    pass
        atexit.register(attach)
    return probs


def mt_check(ctx, stats):
    """supporting evidence only: real threads on this machine's (x86, strongly ordered) memory model"""
    from run_check import hexline, parse_hexline
    n = 20000 if ctx.tier == "quick" else 400000
    cases = []
    for cap in (1, 2, 3, 8, 64):
        for mode in (0, 1, 2, 3):
            cases.append([cap, n, 1000 * ctx.seed + 7 * cap + mode, mode])
    lines = [hexline(c) for c in cases]
    outs = ctx.impl("spsc_mt", lines)
    probs = []
    for c, o in zip(cases, outs):
        v = parse_hexline(o) if not o.startswith("!") else [-1, 0, 0]
        if len(v) != 3 or v[0] != c[1] or v[1] != 1 or v[2] != 1:
            probs.append({"kind": "judge", "component": "spsc_mt", "case": c, "impl": o, "model": None})
    stats.append({"component": "spsc_mt", "cases": len(cases), "distinct": len(cases), "distinct_nontrivial": len(cases),
                  "samples": [{"case": lines[0], "impl": outs[0]}, {"case": lines[-1], "impl": outs[-1]}],
                  "note": "real producer/consumer threads, capacities 1,2,3,8,64 x spin/park modes; output = received count, in-order flag, no-hang flag (watchdog). Supporting evidence only: one hardware memory model, a few schedules."})
    return probs


registry.register("C17", {
    "gen": ["C17"],
    "props_file": "props/C17.v",
    "extract_target": "extract/Ex_C17.vo",
    "harness": "h_core",
    "axioms_allowed": [],
    "components": [
        {"name": "spsc", "gen": gen_spsc, "fixed": fixed_spsc, "quick": 20000, "thorough": 400000,
         "valid": valid_spsc, "nontrivial": nontrivial_spsc, "histogram": hist_spsc},
        {"name": "cursor", "gen": gen_cursor, "fixed": fixed_cursor, "quick": 20000, "thorough": 300000,
         "valid": valid_cursor, "nontrivial": lambda case, out: any(o == 3 for o in case[1::2]) and sum(out) > 0},
        {"name": "rxring", "gen": gen_rxring, "fixed": fixed_rxring, "quick": 20000, "thorough": 300000,
         "valid": valid_rxring, "nontrivial": lambda case, out: len(out) >= 4 and out[-2] > 0},
        {"name": "txrings", "gen": gen_txrings, "fixed": fixed_txrings, "quick": 20000, "thorough": 300000,
         "valid": valid_txrings, "nontrivial": lambda case, out: len(out) >= 4 and sum(out[-4:-1]) > 0},
        {"name": "worker", "gen": gen_worker, "fixed": fixed_worker, "quick": 20000, "thorough": 300000,
         "valid": valid_worker, "nontrivial": lambda case, out: len(out) >= 2 and out[-1] > 0},
    ],
    "extra_checks": [explore_check, mt_check],
    "rule": "spsc cases: capacity + a schedule of public operations (try_slice/poll_slice + push k, try_slice/poll_slice + pop k, drop of either side); corpus + every schedule of length <= 4 (quick) / 6 (thorough) over a 10-letter alphabet for capacities 1,2,3 + wrap-around families for internal capacities 2..256 + seeded random schedules; a case is non-trivial when both sides operate and at least one wake-up is delivered; cursor: ring size 2^k + acquire/produce/consume operation sequences (all sequences of length <= 4/5 over a 10-letter alphabet for sizes 1,2,4 + random); worker: submit/poll_acquire/finish/drop sequences (all sequences of length <= 5/7 over a 7-letter alphabet + random)",
    "assumptions": [
        "PARTIAL: interleaving semantics = sequential consistency. Reorderings that the C11 model allows beyond interleavings for the chosen Ordering::* arguments are not exhibited by the model; the orderings are tied to the source only syntactically (C17_orderings)",
        "a ring slot write / read and each atomic access is one indivisible step; the item type is opaque (sequence numbers)",
        "each side is used by one thread at a time (Sender/Receiver are not Clone; &mut self API)",
        "worker: one Sender handle (worker::Sender derives Clone but `senders` is not incremented by clone; clones are outside the model and are not generated)",
        "the no-lost-wake-up invariants are decided, per program-counter case, by vm_compute over the finite arguments of the invariant (SpscEnum.fa_pc / fa_bool); schedules, capacities and programs are covered by the induction",
        "judge_run (the executable judgement accepts every run of the model) is proved for the cursor, rxring and txrings components (C17_cursor_judge_model, C17_rxring_judge_model, C17_txrings_judge_model), not for worker; for spsc only partially (C17_spsc_judge_model_partial: the per-operation judgement over try-push / try-pop / drop schedules, without polls, inline mode and the trailer; ingredients proved: C17_spsc_op_terminates, C17_spsc_no_self_notify); there judge and model agree on every generated case of every run",
        "txrings: sequential (operation-granularity) model of socket/io/tx.rs (Tx::queue / TxQueue::push / flush_channel / poll_ready) over 1..3 socket rings, message type without GSO (message::simple), rings stay open; after every burst each socket task looks at its ring (Consumer::acquire) so that the judge knows which rings received messages",
        "rxring: sequential (operation-granularity) model of socket/ring.rs + socket/task/rx.rs, Cooldown::default(), single-socket mode; the interleaving of Producer/Consumer::poll_acquire with the peer's release+wake is not modelled for the platform ring (it has the register-then-recheck shape proved for spsc and worker)",
        "the real-thread component spsc_mt is supporting evidence only",
    ],
    "trusted_base": ["no axioms: Print Assumptions reports 'Closed under the global context' for every C17 theorem"],
    "explanation": "Coq theorems C17_* over an interleaving model (program-counter steps for every atomic access of spsc::{Sender,Receiver} and AtomicWaker) for all schedules, capacities and programs; model tied to the source by the generated Ordering constants and by differential execution of the extracted model against the real channel driven single-threaded under the same operation schedule",
})
