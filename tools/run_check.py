#!/usr/bin/env python3
"""Orchestration of one property check (see DESIGN.md section 4).

  run_check.py <Cxx> [--tier quick|thorough] [--replay FILE]
  run_check.py --setup

Steps: translator -> Coq proofs (per-property closure, Print Assumptions allowlist, forbidden
tokens) -> extracted model build -> harness build from /repo's working tree (hooks on) ->
correspondence (model vs implementation on the same cases) + executable property judgement on
the implementation's outputs -> verdict, replay file, evidence file.
"""
import sys, os, re, json, time, subprocess, hashlib, random, shutil, importlib
from concurrent.futures import ThreadPoolExecutor

ROOT = os.path.dirname(os.path.dirname(os.path.abspath(__file__)))
COQ = os.path.join(ROOT, "coq")
BUILD = os.path.join(ROOT, "build")
TARGET = os.path.join(ROOT, "target")
HARNESS = os.path.join(ROOT, "harness")
REPO = os.environ.get("VERIF_REPO", "/repo")
NPROC = min(16, os.cpu_count() or 4)

sys.path.insert(0, os.path.join(ROOT, "tools"))
import registry  # noqa: E402

FORBIDDEN = re.compile(
    r"\b(Admitted|admit|Axiom|Axioms|Parameter|Parameters|Conjecture|Admit\s+Obligations|"
    r"bypass_check|Unset\s+Guard\s+Checking|Unset\s+Positivity\s+Checking|Unset\s+Universe\s+Checking|"
    r"type-in-type|impredicative-set)\b")


def sh(cmd, cwd=None, timeout=3600, env=None, stdin=None):
    e = dict(os.environ)
    e.setdefault("CARGO_NET_OFFLINE", "true")
    if env:
        e.update(env)
    try:
        p = subprocess.run(cmd, cwd=cwd, shell=isinstance(cmd, str), stdout=subprocess.PIPE,
                           stderr=subprocess.STDOUT, timeout=timeout, env=e, stdin=stdin)
        return p.returncode, p.stdout.decode("utf-8", "replace")
    except subprocess.TimeoutExpired as ex:
        return 124, (ex.stdout or b"").decode("utf-8", "replace") + "\n[timeout after %ss]" % timeout


# ----------------------------------------------------------------------------------------------
# Coq side
# ----------------------------------------------------------------------------------------------

def strip_coq_comments(src):
    out, depth, i, n = [], 0, 0, len(src)
    instr = False
    while i < n:
        c2 = src[i:i + 2]
        if depth == 0 and src[i] == '"':
            instr = not instr
            out.append(src[i]); i += 1; continue
        if not instr and c2 == "(*":
            depth += 1; i += 2; continue
        if not instr and c2 == "*)" and depth > 0:
            depth -= 1; i += 2; continue
        if depth == 0:
            out.append(src[i])
        i += 1
    return "".join(out)


def coq_closure(start):
    """files (relative to coq/) in the Require closure of `start` inside the SQ library"""
    seen, todo = set(), [start]
    while todo:
        f = todo.pop()
        if f in seen or not os.path.exists(os.path.join(COQ, f)):
            continue
        seen.add(f)
        src = strip_coq_comments(open(os.path.join(COQ, f)).read())
        for m in re.finditer(r"From\s+SQ\s+Require\s+(?:Import\s+|Export\s+)?(.*?)\.(?=\s|$)", src, re.S):
            for tok in m.group(1).split():
                todo.append(tok.replace(".", "/") + ".v")
    return sorted(seen)


def forbidden_tokens(files=None):
    """scan the .v files (comments stripped) for forbidden declarations,
    and for Variable/Hypothesis/Context outside a Section"""
    bad = []
    if files is None:
        files = []
        for d, _, fs in os.walk(COQ):
            for f in fs:
                if f.endswith(".v") and not f.startswith("_dbg_"):
                    files.append(os.path.relpath(os.path.join(d, f), COQ))
    for rel in sorted(files):
        p = os.path.join(COQ, rel)
        src = strip_coq_comments(open(p).read())
        for m in FORBIDDEN.finditer(src):
            bad.append("%s: %s" % (rel, m.group(0)))
        depth = 0
        for line in src.split("\n"):
            s = line.strip()
            if re.match(r"Section\s+\w+\s*\.", s):
                depth += 1
            elif re.match(r"End\s+\w+\s*\.", s) and depth > 0:
                depth -= 1
            elif depth == 0 and re.match(r"(Variable|Variables|Hypothesis|Hypotheses|Context)\b", s):
                bad.append("%s: %s outside a Section" % (rel, s.split()[0]))
    return bad


def write_coqproject():
    files = []
    for sub in ("gen", "lib", "model", "proofs", "props", "monitor", "extract"):
        d = os.path.join(COQ, sub)
        if os.path.isdir(d):
            for f in sorted(os.listdir(d)):
                if f.endswith(".v") and not f.startswith("_dbg_"):
                    files.append("%s/%s" % (sub, f))
    body = "-Q . SQ\n-arg -w -arg -notation-overridden,-deprecated-hint-rewrite-without-locality,-unknown-option\n" + "\n".join(files) + "\n"
    p = os.path.join(COQ, "_CoqProject")
    old = open(p).read() if os.path.exists(p) else None
    if old != body or not os.path.exists(os.path.join(COQ, "Makefile.coq")):
        open(p, "w").write(body)
        rc, out = sh("coq_makefile -f _CoqProject -o Makefile.coq", cwd=COQ, timeout=120)
        if rc != 0:
            raise RuntimeError("coq_makefile failed: " + out)


def run_translator(families):
    rc, out = sh([sys.executable, os.path.join(ROOT, "tools", "gen_consts.py")] + list(families), timeout=120)
    try:
        return json.loads(out.strip().split("\n")[-1])
    except Exception:
        return [{"family": "?", "values": {}, "missing": ["translator failed: " + out[-400:]]}]


class _BuildLock:
    """serialises Coq / OCaml builds of concurrently running checks (they share coq/ and build/ocaml/)"""
    def __enter__(self):
        import fcntl
        os.makedirs(BUILD, exist_ok=True)
        self.f = open(os.path.join(BUILD, ".coq.lock"), "w")
        fcntl.flock(self.f, fcntl.LOCK_EX)
        return self

    def __exit__(self, *a):
        import fcntl
        fcntl.flock(self.f, fcntl.LOCK_UN)
        self.f.close()


def coq_build(targets, force=(), timeout=2400):
    """full .vo build of the given targets (and their dependencies) through the generated Makefile"""
    with _BuildLock():
        return _coq_build(targets, force, timeout)


def _coq_build(targets, force=(), timeout=2400):
    for t in force:
        for ext in (".vo", ".glob", ".vos", ".vok"):
            try:
                os.remove(os.path.join(COQ, t[:-2] + ext))
            except OSError:
                pass
    cmd = "make -f Makefile.coq -j%d %s" % (NPROC, " ".join(targets))
    rc, out = sh(cmd, cwd=COQ, timeout=timeout)
    return rc, out, cmd


def parse_assumptions(out):
    """returns (number of `Print Assumptions` answers, sorted list of axiom names)"""
    closed = out.count("Closed under the global context")
    axioms = set()
    blocks = 0
    lines = out.split("\n")
    i = 0
    while i < len(lines):
        if lines[i].strip() == "Axioms:":
            blocks += 1
            i += 1
            while i < len(lines) and lines[i].strip() and not lines[i].startswith(("Closed", "Axioms:", "COQC", "make", "File ")):
                m = re.match(r"^([A-Za-z_][\w.']*)\s*:", lines[i])
                if m:
                    axioms.add(m.group(1))
                i += 1
            continue
        i += 1
    return closed + blocks, sorted(axioms)


def theorems_in(props_file):
    src = strip_coq_comments(open(os.path.join(COQ, props_file)).read())
    thms = re.findall(r"\b(?:Theorem|Corollary)\s+([\w']+)", src)
    prints = re.findall(r"Print\s+Assumptions\s+([\w'.]+)", src)
    return thms, prints


# ----------------------------------------------------------------------------------------------
# model / implementation execution
# ----------------------------------------------------------------------------------------------

def build_ocaml(prop):
    with _BuildLock():
        return _build_ocaml(prop)


def _build_ocaml(prop):
    d = os.path.join(BUILD, "ocaml", prop)
    os.makedirs(d, exist_ok=True)
    srcs = [os.path.join(ROOT, "ocaml", "gen", prop, "model.mli"), os.path.join(ROOT, "ocaml", "gen", prop, "model.ml"),
            os.path.join(ROOT, "ocaml", "driver.ml"), os.path.join(ROOT, "ocaml", "main_%s.ml" % prop)]
    h = hashlib.sha256()
    for s in srcs:
        if not os.path.exists(s):
            return 1, "missing " + s
        h.update(open(s, "rb").read())
    stamp = os.path.join(d, "stamp")
    exe = os.path.join(d, "model_" + prop)
    if os.path.exists(stamp) and os.path.exists(exe) and open(stamp).read() == h.hexdigest():
        return 0, "cached"
    for s in srcs[:3]:
        shutil.copy(s, d)
    shutil.copy(srcs[3], os.path.join(d, "main.ml"))
    rc, out = sh("ocamlfind ocamlopt -O2 -w -a model.mli model.ml driver.ml main.ml -o model_%s" % prop, cwd=d, timeout=600)
    if rc == 0:
        open(stamp, "w").write(h.hexdigest())
    return rc, out


def build_harness(crate, timeout=3000, binname=None):
    lock_src = os.path.join(REPO, "Cargo.lock")
    lock_dst = os.path.join(HARNESS, "Cargo.lock")
    if not os.path.exists(lock_dst) and os.path.exists(lock_src):
        shutil.copy(lock_src, lock_dst)
    b = (" --bin %s" % binname) if binname else " --bins"
    return sh("cargo build --release --offline -p %s%s 2>&1 | tail -40" % (crate, b), cwd=HARNESS, timeout=timeout)


def run_sharded(cmd, lines, timeout=1800, per=200, line_timeout=60):
    """feed `lines` to up to NPROC instances of cmd (about `per` lines each), keep order;
    returns list of output lines"""
    if not lines:
        return []
    per = max(1, per)
    k = max(1, min(NPROC, (len(lines) + per - 1) // per))
    size = (len(lines) + k - 1) // k
    chunks = [lines[i:i + size] for i in range(0, len(lines), size)]

    def one(chunk):
        try:
            p = subprocess.run(cmd, input=("\n".join(chunk) + "\n").encode(), stdout=subprocess.PIPE,
                               stderr=subprocess.PIPE, timeout=timeout)
            outl = p.stdout.decode("utf-8", "replace").split("\n")
            if outl and outl[-1] == "":
                outl.pop()
            if p.returncode != 0 or len(outl) != len(chunk):
                # process died (abort / stack overflow / timeout): find the offending line one by one
                return None
            return outl
        except subprocess.TimeoutExpired:
            return None

    with ThreadPoolExecutor(max_workers=k) as ex:
        results = list(ex.map(one, chunks))
    out = []
    for chunk, r in zip(chunks, results):
        if r is None:
            for ln in chunk:
                try:
                    p = subprocess.run(cmd, input=(ln + "\n").encode(), stdout=subprocess.PIPE, stderr=subprocess.PIPE, timeout=line_timeout)
                    o = p.stdout.decode("utf-8", "replace").strip("\n")
                    if p.returncode != 0 or o == "" and p.returncode != 0:
                        o = "!crash rc=%d %s" % (p.returncode, p.stderr.decode("utf-8", "replace")[-200:].replace("\n", " "))
                    out.append(o.split("\n")[0] if o else "")
                except subprocess.TimeoutExpired:
                    out.append("!timeout")
        else:
            out.extend(r)
    return out


def hexline(vals):
    return " ".join(("-%x" % -v) if v < 0 else ("%x" % v) for v in vals)


def parse_hexline(s):
    return [(-int(t[1:], 16) if t.startswith("-") else int(t, 16)) for t in s.split()]


class Ctx:
    """what a component run can use"""
    def __init__(self, prop, tier, seed):
        self.prop, self.tier, self.seed = prop, tier, seed
        self.impl_bin = None
        self.model_bin = os.path.join(BUILD, "ocaml", prop, "model_" + prop)

        self.shard_per = {}     # component name -> lines per implementation process ("shard_lines")
        self.line_timeout = {}  # component name -> seconds for one line in the one-by-one fallback
        self.impl_bins = {}     # component name -> binary (components may use another harness crate)
        self.model_bins = {}    # component name -> extracted model binary of another family

    def impl(self, comp, lines):
        return run_sharded([self.impl_bins.get(comp, self.impl_bin), comp], lines,
                           per=self.shard_per.get(comp, 200), line_timeout=self.line_timeout.get(comp, 60))

    def model(self, comp, lines):
        return run_sharded([self.model_bins.get(comp, self.model_bin), "run", comp], lines)

    def judge(self, comp, lines, outs):
        return run_sharded([self.model_bins.get(comp, self.model_bin), "judge", comp], ["%s | %s" % (a, b) for a, b in zip(lines, outs)])


def shrink(ctx, comp, case, still_bad, valid):
    """delta debugging on the integer list; still_bad(list_of_cases) -> list of bool"""
    cur = list(case)
    n = 2
    rounds = 0
    while len(cur) >= 2 and rounds < 40:
        rounds += 1
        size = max(1, len(cur) // n)
        cands = []
        for i in range(0, len(cur), size):
            c = cur[:i] + cur[i + size:]
            if c and valid(c):
                cands.append(c)
        if not cands:
            break
        res = still_bad(cands)
        hit = next((c for c, r in zip(cands, res) if r), None)
        if hit is not None:
            cur = hit
            n = max(n - 1, 2)
        else:
            if size == 1:
                break
            n = min(n * 2, len(cur))
    # then magnitudes
    for i in range(len(cur)):
        for repl in (0, 1, cur[i] // 2):
            if repl != cur[i] and abs(repl) < abs(cur[i]):
                c = cur[:i] + [repl] + cur[i + 1:]
                if valid(c) and still_bad([c])[0]:
                    cur = c
                    break
    return cur


def run_component(ctx, comp, stats):
    """returns list of problems: dicts with kind in {judge, mismatch}"""
    name = comp["name"]
    ctx.shard_per[name] = comp.get("shard_lines", 200)
    ctx.line_timeout[name] = comp.get("line_timeout", 60)
    rng = random.Random((ctx.seed * 1000003) ^ int(hashlib.sha256(name.encode()).hexdigest()[:8], 16))
    n = comp.get(ctx.tier, comp.get("quick", 1000))
    cases = []
    corpus = os.path.join(ROOT, "corpus", ctx.prop, name + ".txt")
    if os.path.exists(corpus):
        for ln in open(corpus):
            ln = ln.split("#")[0].strip()
            if ln:
                cases.append(parse_hexline(ln))
    ncorpus = len(cases)
    for c in comp.get("fixed", lambda tier: [])(ctx.tier):
        cases.append(c)
    nfixed = len(cases) - ncorpus
    gen = comp["gen"]
    for _ in range(n):
        cases.append(gen(rng))
    lines = [hexline(c) for c in cases]
    t0 = time.time()
    impl = ctx.impl(name, lines)
    t1 = time.time()
    model = ctx.model(name, lines) if comp.get("model", True) else None
    t2 = time.time()
    verdicts = ctx.judge(name, lines, impl) if comp.get("judged", True) else None
    t3 = time.time()
    problems = []
    post = comp.get("canon", lambda s: s)
    for i, ln in enumerate(lines):
        bad_j = verdicts is not None and verdicts[i] != "1"
        bad_m = model is not None and post(impl[i]) != post(model[i])
        if bad_j:
            problems.append({"kind": "judge", "component": name, "case": cases[i], "impl": impl[i],
                             "model": model[i] if model else None})
        elif bad_m:
            problems.append({"kind": "mismatch", "component": name, "case": cases[i], "impl": impl[i], "model": model[i]})
    # statistics
    nontriv = comp.get("nontrivial", lambda case, out: len(case) >= 2)
    seen = set()
    dn = 0
    for c, o in zip(cases, impl):
        h = hash(tuple(c))
        if h in seen:
            continue
        seen.add(h)
        try:
            if nontriv(c, parse_hexline(o) if not o.startswith("!") else []):
                dn += 1
        except Exception:
            pass
    hist = comp.get("histogram")
    st = {"component": name, "cases": len(cases), "corpus": ncorpus, "fixed_family": nfixed, "random": n,
          "distinct": len(seen), "distinct_nontrivial": dn,
          "impl_s": round(t1 - t0, 2), "model_s": round(t2 - t1, 2), "judge_s": round(t3 - t2, 2),
          "panics": sum(1 for o in impl if o.startswith("!")),
          "mean_case_len": round(sum(len(c) for c in cases) / max(1, len(cases)), 1)}
    if hist:
        try:
            st["histogram"] = hist(cases, impl)
        except Exception as ex:
            st["histogram"] = {"error": str(ex)}
    st["samples"] = [{"case": lines[i], "impl": impl[i]} for i in range(min(2, len(lines)))]
    if n > 0 and len(lines) > ncorpus + nfixed:
        j = ncorpus + nfixed
        st["samples"].append({"case": lines[j][:400], "impl": impl[j][:400]})
    stats.append(st)
    # shrink the first problem of each kind
    valid = comp.get("valid", lambda c: True)
    done = set()
    for p in problems:
        if p["kind"] in done:
            continue
        done.add(p["kind"])

        def still_bad(cands, kind=p["kind"]):
            ls = [hexline(c) for c in cands]
            io = ctx.impl(name, ls)
            if kind == "judge":
                v = ctx.judge(name, ls, io)
                return [x != "1" for x in v]
            mo = ctx.model(name, ls)
            return [post(a) != post(b) for a, b in zip(io, mo)]
        try:
            small = shrink(ctx, name, p["case"], still_bad, valid)
            ls = [hexline(small)]
            p["minimal_case"] = small
            p["minimal_impl"] = ctx.impl(name, ls)[0]
            if model is not None:
                p["minimal_model"] = ctx.model(name, ls)[0]
        except Exception as ex:
            p["shrink_error"] = str(ex)
    return problems


# ----------------------------------------------------------------------------------------------
# known findings
# ----------------------------------------------------------------------------------------------

def load_known():
    known = []
    p = os.path.join(ROOT, "KNOWN_FINDINGS.txt")
    if os.path.exists(p):
        for ln in open(p):
            ln = ln.strip()
            m = re.match(r"known:\s+property=(\w+)\s+class=(\S+)\s+(.*)", ln)
            if m:
                known.append({"property": m.group(1), "class": m.group(2), "text": m.group(3)})
    return known


# ----------------------------------------------------------------------------------------------
# main
# ----------------------------------------------------------------------------------------------

def write_evidence(prop, ev):
    os.makedirs(os.path.join(ROOT, "evidence"), exist_ok=True)
    with open(os.path.join(ROOT, "evidence", prop + ".json"), "w") as f:
        json.dump(ev, f, indent=1, default=str)


def check(prop, tier, seed, replay=None):
    t_start = time.time()
    cfg = registry.PROPS[prop]
    os.makedirs(os.path.join(BUILD, "run", prop), exist_ok=True)
    replay_dir = os.path.join(BUILD, "replay")
    os.makedirs(replay_dir, exist_ok=True)
    log = []
    broken = []      # broken proof obligations / correspondence (names)
    concrete = []    # concrete violations
    ev_cov = {}

    # 1. translator
    tr = run_translator(cfg["gen"])
    missing = [m for fam in tr for m in fam["missing"]]
    consts = {}
    for fam in tr:
        consts.update(fam["values"])
    write_coqproject()

    # 2. proofs
    props_file = cfg["props_file"]
    thms, prints = theorems_in(props_file)
    extra_props = [f for f in cfg.get("extra_props_files", []) if os.path.exists(os.path.join(COQ, f))]
    for f in extra_props:
        t2, p2 = theorems_in(f)
        thms += t2; prints += p2
    targets = [props_file[:-2] + ".vo"] + [f[:-2] + ".vo" for f in extra_props] + [t for t in cfg.get("coq_extra_targets", [])]
    force = [props_file] + extra_props
    if tier == "thorough":
        pass
    rc, out, cmd = coq_build(targets, force=force)
    proofs_ok = rc == 0
    nprint, axioms = parse_assumptions(out)
    allowed = set(cfg.get("axioms_allowed", []))
    bad_axioms = [a for a in axioms if a not in allowed]
    closure = sorted(set(coq_closure(props_file) + sum([coq_closure(f) for f in extra_props], []) + (coq_closure(cfg['extract_target'][:-1]) if cfg.get('extract_target') else []) + sum([coq_closure('extract/Ex_%s.v' % c['ocaml']) for c in cfg['components'] if c.get('ocaml')], [])))
    tokens = forbidden_tokens(closure)
    obligations = len(thms) + len(prints) + len(consts) + 1   # theorems + assumption reports + generated constants + token scan
    discharged = 0
    if proofs_ok:
        discharged += len(thms)
        discharged += nprint if not bad_axioms else 0
        discharged += len(consts)
    else:
        m = re.search(r'File "\./([^"]+)", line (\d+)', out)
        broken.append("proof obligation: %s fails to compile%s" % (targets[0], (" (at %s:%s)" % (m.group(1), m.group(2))) if m else ""))
        log.append(out[-3000:])
    if missing:
        broken.append("generated constants not found in the source: " + ", ".join(missing))
    if bad_axioms:
        broken.append("assumptions outside the allowlist: " + ", ".join(bad_axioms))
    if proofs_ok and nprint < len(prints):
        broken.append("only %d of %d Print Assumptions reports seen" % (nprint, len(prints)))
    if tokens:
        broken.append("forbidden tokens: " + "; ".join(tokens[:5]))
    else:
        discharged += 1
    coqchk_out = None
    if tier == "thorough" and proofs_ok and cfg.get("coqchk", True):
        mods = "SQ." + props_file[:-2].replace("/", ".")
        rc2, o2 = sh("coqchk -silent -o -Q . SQ %s 2>&1 | tail -30" % mods, cwd=COQ, timeout=3000)
        coqchk_out = o2[-1500:]
        obligations += 1
        if rc2 == 0 and "Fatal" not in o2 and "Error" not in o2:
            discharged += 1
        else:
            broken.append("coqchk rejected " + mods)

    # 3. model executable (extraction is part of the coq build; if proofs broke, try the extraction target alone)
    stats = []
    problems = []
    corr_possible = True
    ex_t = cfg.get("extract_target")
    if ex_t:
        rc3, o3, _ = coq_build([ex_t])
        if rc3 != 0:
            corr_possible = False
            broken.append("model does not compile: " + ex_t)
            log.append(o3[-2000:])
        else:
            rc4, o4 = build_ocaml(prop)
            if rc4 != 0:
                corr_possible = False
                broken.append("extracted model does not build")
                log.append(o4[-2000:])

    # 4. implementation harness from /repo's working tree
    ctx = Ctx(prop, tier, seed)
    crate = cfg.get("harness")
    if crate:
        binname = cfg.get("harness_bin", prop)
        rc5, o5 = build_harness(crate, binname=binname)
        ctx.impl_bin = os.path.join(TARGET, "release", binname)
        if rc5 != 0 or not os.path.exists(ctx.impl_bin) or "error" in o5 and "could not compile" in o5:
            corr_possible = False
            broken.append("harness %s does not build against the current source (hooks on)" % crate)
            log.append(o5[-3000:])

    # 4b. components that live in another harness crate / another extracted model family
    usable = []
    for comp in cfg["components"]:
        ok = True
        if comp.get("harness"):
            crate2, bin2 = comp["harness"]
            rc6, o6 = build_harness(crate2, binname=bin2)
            b2 = os.path.join(TARGET, "release", bin2)
            if rc6 != 0 or not os.path.exists(b2) or ("error" in o6 and "could not compile" in o6):
                ok = False
                broken.append("harness %s/%s does not build against the current source" % (crate2, bin2))
                log.append(o6[-3000:])
            ctx.impl_bins[comp["name"]] = b2
        if comp.get("ocaml"):
            fam = comp["ocaml"]
            rc7, o7, _ = coq_build(["extract/Ex_%s.vo" % fam])
            if rc7 == 0:
                rc7, o7 = build_ocaml(fam)
            if rc7 != 0:
                ok = False
                broken.append("extracted model family %s does not build" % fam)
                log.append(o7[-2000:])
            ctx.model_bins[comp["name"]] = os.path.join(BUILD, "ocaml", fam, "model_" + fam)
        if ok:
            usable.append(comp)

    # 5. correspondence + judgement
    if replay:
        rp = json.load(open(replay))
        comps = [c for c in cfg["components"] if c["name"] == rp.get("component")]
        if comps and corr_possible and rp.get("case") is not None:
            comp = dict(comps[0]); comp["quick"] = comp["thorough"] = 0
            comp["fixed"] = lambda tier, c=rp["case"]: [c]
            problems = run_component(ctx, comp, stats)
            print("replay of %s/%s: %s" % (prop, comp["name"], "still failing" if problems else "passes now"))
            for p in problems:
                print(json.dumps(p)[:2000])
            return 1 if problems else 0
        print("replay file names no re-executable case (%s)" % rp.get("what"))
        return 1 if broken else 0

    if corr_possible or any(c.get("harness") for c in usable):
        for comp in usable:
            if not corr_possible and not (comp.get("harness") and (comp.get("ocaml") or not comp.get("model", True))):
                continue
            problems += run_component(ctx, comp, stats)
        for extra in cfg.get("extra_checks", []):
            problems += extra(ctx, stats)

    # 6. verdict
    known = [k for k in load_known() if k["property"] == prop]
    classify = cfg.get("classify", lambda p: None)
    known_hits = {}
    for p in problems:
        if p["kind"] == "judge":
            import inspect
            try:
                nargs = len(inspect.signature(classify).parameters)
            except (TypeError, ValueError):
                nargs = 1
            cl = classify(ctx, p) if nargs >= 2 else classify(p)
            k = next((k for k in known if k["class"] == cl), None) if cl else None
            if k:
                known_hits.setdefault(cl, (k, p))
            else:
                concrete.append(p)
        elif p["kind"] == "mismatch":
            broken.append("correspondence %s/%s: model and implementation differ" % (prop, p["component"]))
    for f in cfg.get("expected_known", []):
        pass
    broken = list(dict.fromkeys(broken))
    rc_final = 0
    lines_out = []
    for cl, (k, p) in known_hits.items():
        lines_out.append("KNOWN-FINDING: property=%s %s (class %s; e.g. case %s)" % (prop, k["text"], cl, hexline(p.get("minimal_case", p["case"]))[:200]))
    ts = int(time.time())
    if concrete:
        p = concrete[0]
        path = os.path.join(replay_dir, "%s_%s_%d.json" % (prop, p["component"], ts))
        json.dump({"property": prop, "component": p["component"], "seed": seed, "tier": tier,
                   "what": "the property judgement (Coq-extracted predicate, proved to accept every run of the model) rejects the implementation's output",
                   "case": p.get("minimal_case", p["case"]), "original_case": p["case"],
                   "impl": p.get("minimal_impl", p["impl"]), "model": p.get("minimal_model", p.get("model")),
                   "also_broken": broken}, open(path, "w"), indent=1)
        lines_out.append("VIOLATION property=%s replay=%s" % (prop, path))
        rc_final = 1
    elif broken:
        mm = [p for p in problems if p["kind"] == "mismatch"]
        path = os.path.join(replay_dir, "%s_broken_%d.json" % (prop, ts))
        rec = {"property": prop, "seed": seed, "tier": tier,
               "what": "; ".join(broken),
               "note": "no input was found on which the implementation's output falsifies the property judgement",
               "log": log[-3:]}
        if mm:
            p = mm[0]
            rec.update({"component": p["component"], "case": p.get("minimal_case", p["case"]),
                        "impl": p.get("minimal_impl", p["impl"]), "model": p.get("minimal_model", p["model"])})
        json.dump(rec, open(path, "w"), indent=1)
        lines_out.append("VIOLATION property=%s replay=%s no-failing-input-found" % (prop, path))
        rc_final = 1

    # 7. evidence
    evals = sum(s["cases"] for s in stats)
    dn = sum(s["distinct_nontrivial"] for s in stats)
    samples = []
    for s in stats:
        samples += [dict(component=s["component"], **x) for x in s.get("samples", [])[:2]]
    if not samples:
        samples = [{"obligation": t} for t in thms[:3]]
    ev = {
        "property_id": prop, "tier": tier, "seed": seed, "level": "proof",
        "coverage": {
            "obligations": obligations, "discharged": discharged,
            "checker_cmd": "(cd coq && %s)%s" % (cmd, " ; coqchk -silent -o -Q . SQ SQ.%s" % props_file[:-2].replace("/", ".") if tier == "thorough" else ""),
            "trusted_base": cfg.get("trusted_base", []) + registry.COMMON_TRUSTED,
            "coq_files_in_closure": closure,
            "theorems": thms, "print_assumptions_reports": nprint, "axioms_reported": axioms,
            "generated_constants": consts, "missing_constants": missing,
            "evaluations": evals, "distinct_nontrivial": dn,
            "rule": cfg.get("rule", ""),
            "samples": samples,
            "correspondence": stats,
            "broken": broken,
            "known_findings_reported": sorted(known_hits),
            "coqchk": coqchk_out,
            "explanation": cfg.get("explanation", ""),
        },
        "assumptions": cfg.get("assumptions", []),
        "wall_s": round(time.time() - t_start, 1),
        "violations": len(concrete) + (1 if (broken and not concrete) else 0),
    }
    write_evidence(prop, ev)
    for ln in lines_out:
        print(ln)
    if rc_final == 0:
        print("OK property=%s tier=%s obligations=%d/%d cases=%d wall=%.0fs" % (prop, tier, discharged, obligations, evals, time.time() - t_start))
    else:
        for b in broken:
            print("  broken: " + b)
        for l in log[-1:]:
            print(l[-1500:])
    return rc_final


def setup():
    """build everything the claimed checks need, offline, from files on disk"""
    t0 = time.time()
    try:
        claimed = [c["property_id"] for c in json.load(open(os.path.join(ROOT, "MANIFEST.json")))["checks"]]
    except Exception:
        claimed = sorted(registry.PROPS)
    claimed = [p for p in claimed if p in registry.PROPS]
    run_translator([])
    write_coqproject()
    ok = True
    targets = []
    fams = set()
    for prop in claimed:
        cfg = registry.PROPS[prop]
        targets.append(cfg["props_file"][:-2] + ".vo")
        targets += [f[:-2] + ".vo" for f in cfg.get("extra_props_files", [])]
        if cfg.get("extract_target"):
            targets.append(cfg["extract_target"]); fams.add(prop)
        for c in cfg["components"]:
            if c.get("ocaml"):
                targets.append("extract/Ex_%s.vo" % c["ocaml"]); fams.add(c["ocaml"])
    targets = sorted(set(targets))
    rc, out = sh("make -f Makefile.coq -j%d -k %s" % (NPROC, " ".join(targets)), cwd=COQ, timeout=7200)
    print(out[-1500:])
    ok = ok and rc == 0
    for fam in sorted(fams):
        r, o = build_ocaml(fam)
        if r != 0:
            print("ocaml build failed for", fam, o[-500:]); ok = False
    bins = set()
    for prop in claimed:
        cfg = registry.PROPS[prop]
        if cfg.get("harness"):
            bins.add((cfg["harness"], cfg.get("harness_bin", prop)))
        for c in cfg["components"]:
            if c.get("harness"):
                bins.add(tuple(c["harness"]))
    for crate, b in sorted(bins):
        r, o = build_harness(crate, timeout=7200, binname=b)
        print(crate, b, "rc", r, o[-300:] if r else "")
        ok = ok and r == 0
    print("setup %s in %.0fs (claimed: %s)" % ("ok" if ok else "FAILED", time.time() - t0, " ".join(claimed)))
    return 0 if ok else 1


def repo_lock(exclusive=False):
    """checks hold a shared lock while they build from /repo; tools/with_mutation holds it exclusively
    while a trial patch is applied to /repo, so concurrent checks never see a half-mutated tree"""
    if os.environ.get("VERIF_LOCK_HELD"):
        return None
    import fcntl
    os.makedirs(BUILD, exist_ok=True)
    # give way to waiting writers (tools/with_mutation leaves a marker per waiting process)
    wdir = os.path.join(BUILD, ".writers")
    for _ in range(3600):
        waiting = []
        if os.path.isdir(wdir):
            for m in os.listdir(wdir):
                if os.path.exists("/proc/%s" % m):
                    waiting.append(m)
                else:
                    try:
                        os.remove(os.path.join(wdir, m))
                    except OSError:
                        pass
        if not waiting or exclusive:
            break
        time.sleep(1)
    f = open(os.path.join(BUILD, ".repo.lock"), "w")
    fcntl.flock(f, fcntl.LOCK_EX if exclusive else fcntl.LOCK_SH)
    return f


def main():
    _lock = repo_lock()
    a = sys.argv[1:]
    if a and a[0] == "--setup":
        sys.exit(setup())
    prop = a[0]
    tier = os.environ.get("VERIF_TIER", "quick")
    replay = None
    i = 1
    while i < len(a):
        if a[i] == "--tier":
            tier = a[i + 1]; i += 2
        elif a[i] == "--replay":
            replay = a[i + 1]; i += 2
        else:
            i += 1
    if tier not in ("quick", "thorough"):
        tier = "quick"
    seed = int(os.environ.get("VERIF_SEED", "1") or "1")
    if prop not in registry.PROPS:
        print("unknown property", prop); sys.exit(2)
    sys.exit(check(prop, tier, seed, replay))


if __name__ == "__main__":
    main()
