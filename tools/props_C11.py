"""C11 -- no traffic amplification towards unvalidated or unknown peers."""
import registry


def gen_amp(rng):
    server = 1 if rng.random() < 0.9 else 0
    ops = [server]
    n = rng.choice([2, 4, 8, 16, 40])
    validated_at = rng.randrange(n * 3) if rng.random() < 0.3 else None
    for i in range(n):
        if validated_at == i:
            ops.append(2)
            continue
        r = rng.random()
        if r < 0.35:
            ops += [0, rng.choice([1, 2, 20, 21, 399, 400, 401, 1199, 1200, 1201, 1500, 65535, rng.randrange(1, 70000)])]
        elif r < 0.93:
            ops += [1, rng.choice([1, 2, 60, 1199, 1200, 1201, 1500, 9000, 65535, rng.randrange(1, 3000)])]
        elif r < 0.97:
            ops.append(3)
        else:
            ops += [0, rng.choice([1 << 30, (1 << 32) // 3, (1 << 32) // 3 + 1, (1 << 31), (1 << 32) - 1])]
    return ops


def fixed_amp(tier):
    out = [
        [1, 0, 1201, 1, 1200, 1, 1200, 1, 1200, 1, 1200, 1, 1200],
        [1, 0, 1200, 1, 1200, 1, 1200, 1, 1200, 1, 1200],
        [1, 1, 1200, 0, 1, 1, 1, 1, 1, 1, 1, 1, 1],
        [1, 0, 400, 1, 1200, 1, 1200, 2, 1, 1200],
        [0, 1, 1200, 1, 1200],
    ]
    import itertools
    alpha = [(0, 1), (0, 400), (0, 1201), (1, 1), (1, 1200), (2,)]
    L = 5 if tier == "quick" else 7
    for n in range(1, L + 1):
        for t in itertools.product(alpha, repeat=n):
            c = [1]
            for o in t:
                c += list(o)
            out.append(c)
    return out


def gen_reset(rng):
    tag = rng.choice([16, 16, 16, 0, 1, 15, 17, 32, 64])
    trig = rng.choice([0, 1, 20, 25 + tag, 26 + tag, 27 + tag, 28 + tag, 43, 100, 1199, 1200, 1201, 1500, 9000, rng.randrange(0, 2000)])
    return [tag, trig, rng.randrange(256)]


def fixed_reset(tier):
    out = []
    for tag in (0, 16, 32):
        for trig in range(0, 1500 if tier == "thorough" else 140):
            out.append([tag, trig, (trig * 7 + tag) % 256])
    return out


def gen_vn(rng):
    server = 1 if rng.random() < 0.85 else 0
    kind = rng.choice([0, 1, 2, 2, 2, 2, 3, 3, 4, 5])
    if kind == 1:
        version = 0
    else:
        version = rng.choice([1, 1, 2, 0xabcd, 0xff00001d, 0x6b3343cf, 0xfaceb002, rng.randrange(1, 1 << 32)])
    dlen = rng.choice([0, 1, 8, 8, 19, 20])
    slen = rng.choice([0, 1, 8, 8, 19, 20])
    if kind == 0:
        dlen = 20
    ln = rng.choice([100, 1199, 1200, 1201, 1252, 1500, 2999, 3000, rng.randrange(100, 3000)])
    if kind == 1:
        hdr = 7 + dlen + slen + 4
        ln = max(ln, hdr + 4)
        ln -= (ln - hdr) % 4
    return [server, kind, version, ln, rng.randrange(256), dlen, slen]


def fixed_vn(tier):
    out = []
    for kind in (2, 3, 4, 5, 0):
        for v in (1, 2):
            for ln in (1198, 1199, 1200, 1201):
                out.append([1, kind, v, ln, 7, 20 if kind == 0 else 8, 8])
                out.append([0, kind, v, ln, 7, 20 if kind == 0 else 8, 8])
    return out


def classify(ctx, p):
    """a literal-bound breach is the recorded finding F2 exactly when the Coq judgement amp_known
    (proved to accept every run of the model) accepts the implementation's output"""
    if p["component"] != "amp":
        return None
    from run_check import hexline
    case = p.get("minimal_case", p["case"])
    impl = p.get("minimal_impl", p["impl"])
    if impl.startswith("!"):
        return None
    v = ctx.judge("amp_known", [hexline(case)], [impl])
    if v and v[0] == "1":
        # the full original case must be inside the class too
        v2 = ctx.judge("amp_known", [hexline(p["case"])], [p["impl"]])
        if v2 and v2[0] == "1":
            return "amp_overshoot_forgiven"
    return None


registry.register("C11", {
    "gen": ["C11"],
    "props_file": "props/C11.v",
    "extract_target": "extract/Ex_C11.vo",
    "harness": "h_transport",
    "axioms_allowed": [],
    "classify": classify,
    "components": [
        {"name": "amp", "gen": gen_amp, "fixed": fixed_amp, "quick": 20000, "thorough": 1000000,
         "valid": lambda c: len(c) >= 1 and all(0 <= v < (1 << 40) for v in c),
         "nontrivial": lambda case, out: 0 in case[1:] and 1 in case[1:] and len(case) > 4},
        {"name": "reset", "gen": gen_reset, "fixed": fixed_reset, "quick": 5000, "thorough": 200000,
         "canon": lambda s: " ".join(s.split()[:2]),
         "valid": lambda c: all(0 <= v < (1 << 32) for v in c),
         "nontrivial": lambda case, out: len(out) >= 2},
        {"name": "vn", "gen": gen_vn, "fixed": fixed_vn, "quick": 5000, "thorough": 200000,
         "canon": lambda s: " ".join(s.split()[1:]),
         "valid": lambda c: len(c) == 7 and 100 <= c[3] <= 3000 and c[1] in (0, 2, 3, 4, 5) and c[2] > 0 and c[5] <= 20 and c[6] <= 20 and (c[1] != 0 or c[5] == 20),
         "nontrivial": lambda case, out: True},
    ],
    "rule": "amp: op sequences recv(n)/send(n)/validate on a fresh unvalidated server path (sizes at 1, 21, 400, 1199..1201, 65535 and random; all sequences of <=5 (quick) / <=7 (thorough) ops over a 6-op alphabet), non-trivial when both a receive and a send occur; reset: all trigger lengths 0..139 (quick) / 0..1499 (thorough) x tag lengths 0/16/32 plus random; vn: constructed datagrams of every packet kind x supported/unsupported version x lengths around 1200 x connection id lengths",
    "assumptions": [
        "random::gen_range_biased returns a value inside the requested range (Section hypothesis pick_in_range of C11_reset_smaller)",
        "the amplification component drives Path exactly as the transmission path does: transmission_constraint() is consulted before a datagram is built, the size is clamped with clamp_datagram_size, then on_bytes_transmitted is called",
        "client Initial padding (transmission/early.rs) is not covered by a component here",
    ],
    "trusted_base": ["no axioms: Print Assumptions reports 'Closed under the global context' for every C11 theorem"],
    "explanation": "Coq theorems C11_* over the models of path/mod.rs amplification accounting, stateless_reset::encode_packet and version::Negotiator::on_packet; literal 3x bound refuted on the model and the real Path (known finding F2), proved outside the known class; models tied to the source by generated constants and differential execution through hook H1",
})
