#!/bin/bash
# tools/confirm_seeded.sh <seeded-dir-name> ...
# Independent confirmation of a seeded change in a scratch worktree: (A) demo alone on the clean tree
# must pass together with all existing lib tests of the touched crates, (B) with the patch the
# workspace still builds, the existing tests still pass and only the demo's tests fail.
# Writes seeded/<id>/confirm.txt.
WT=/tmp/wt_confirm
export CARGO_NET_OFFLINE=true CARGO_TARGET_DIR=$WT/target
[ -d $WT ] || git -C /repo worktree add -q $WT HEAD
crates_of() { grep -h '^+++ b/' "$@" 2>/dev/null | sed 's#^+++ b/##' | awk -F/ '{ if ($1=="common") print $2; else print $2 }' | sort -u | grep -E '^s2n-' ; }
filter_of() { case "$1" in s2n-quic-dc) echo "${DC_FILTER:-path::secret}";; *) echo "";; esac; }
run_tests() { # $1 = crate ; prints summary lines
  local f; f=$(filter_of $1)
  (cd $WT && timeout 5400 nice -n 10 cargo test --offline -p $1 --lib $f -- --test-threads 8 2>&1) | grep -E "^test result|^test .* FAILED|^error(\[|:)|could not compile" | head -40
}
for s in "$@"; do
  d=/verif/seeded/$s
  out=$d/confirm.txt
  echo "confirmation run $(date -u +%FT%TZ) at /repo HEAD $(git -C /repo rev-parse --short HEAD)" > $out
  (cd $WT && git checkout -q -- . && git clean -fdq -e target)
  demos=$(ls $d/demo*.diff 2>/dev/null)
  crates=$(crates_of $d/patch.diff $demos)
  echo "crates: $(echo $crates)" >> $out
  ok=1
  for dm in $demos; do (cd $WT && git apply $dm) || { echo "demo does not apply: $dm" >> $out; ok=0; }; done
  echo "--- A: clean tree + demo" >> $out
  for c in $crates; do echo "[$c]" >> $out; run_tests $c >> $out; done
  (cd $WT && git apply $d/patch.diff) || { echo "patch does not apply" >> $out; ok=0; }
  echo "--- B: patch + demo" >> $out
  for c in $crates; do echo "[$c]" >> $out; run_tests $c >> $out; done
  (cd $WT && git checkout -q -- . && git clean -fdq -e target)
  echo "done $s"
done
echo CONFIRMDONE
