"""C06 -- only authentic packets have effect, and each at most once."""
import registry

VMAX = (1 << 62) - 1


# ---------------------------------------------------------------- hp: header protection algebra
def _rbytes(rng, n):
    r = rng.random()
    if r < 0.1:
        return [rng.choice([0, 0xff])] * n
    return [rng.randrange(256) for _ in range(n)]


def gen_hp(rng):
    space = rng.randrange(3)
    hlen = rng.choice([1, 1, 2, 3, 5, 7, 9, 18, 21, rng.randrange(1, 40)])
    m = [rng.choice([0, 0xff, 0x0f, 0x1f, 0xf0, 0xe0, 0x80, 0x03, rng.randrange(256)]) for _ in range(5)]
    r = rng.random()
    if r < 0.25:
        n = hlen + rng.choice([0, 1, 3, 4, 5, 18, 19, 20, 21, 22])       # around the sample bound hlen + 4 + 16
    elif r < 0.30:
        n = rng.randrange(0, hlen + 1)
    else:
        n = hlen + 20 + rng.randrange(0, 40)
    b = _rbytes(rng, n)
    if b and rng.random() < 0.5:
        b[0] = rng.choice([0x00, 0x40, 0x43, 0x7f, 0x80, 0xc0, 0xc3, 0xff, 0x5c, 0xdc])
    return [space, hlen] + m + b


def fixed_hp(tier):
    out = []
    body = list(range(1, 41))
    # every first byte (all tag / pn-length combinations) with the masks that matter for the first byte
    for tag in range(256):
        for m0 in (0x00, 0xff, 0x0f, 0x1f, 0xf0, 0xe0, 0x83, 0x10):
            for hlen in ((1, 7) if tier == "quick" else (1, 2, 7, 19)):
                out.append([tag % 3, hlen, m0, 0xa5, 0x5a, 0xff, 0x01, tag] + body[: hlen + 23])
    # exact sample bound
    for hlen in (1, 5, 18):
        for n in range(hlen + 17, hlen + 23):
            out.append([2, hlen, 0xff, 0xff, 0xff, 0xff, 0xff] + [0x43] + body[: n - 1])
    return out


def valid_hp(c):
    return len(c) >= 7 and c[0] in (0, 1, 2) and 1 <= c[1] <= 64 and all(0 <= v <= 255 for v in c[2:]) and len(c) <= 7 + 200


# ---------------------------------------------------------------- nonce: iv XOR packet number
import hmac, hashlib


def _hkdf_expand(h, prk, info, length):
    out, t, i = b"", b"", 1
    while len(out) < length:
        t = hmac.new(prk, t + info + bytes([i]), h).digest()
        out += t
        i += 1
    return out[:length]


def _hkdf_label(length, label):
    full = b"tls13 " + label
    return length.to_bytes(2, "big") + bytes([len(full)]) + full + b"\x00"


def _suite_hash(suite):
    return hashlib.sha384 if suite == 1 else hashlib.sha256


def _iv_of(suite, secret):
    """HKDF-Expand-Label(secret, "quic iv", "", 12) -- RFC 9001 5.1, computed independently of the repository"""
    return list(_hkdf_expand(_suite_hash(suite), bytes(secret), _hkdf_label(12, b"quic iv"), 12))


def _nonce_case(suite, p, q, secret, cand_kind, rng=None):
    iv = _iv_of(suite, secret)
    # candidate nonces for the raw-AEAD probe: the RFC value or a neighbour of it
    rfc = [a ^ b for a, b in zip(iv, list((0).to_bytes(4, "big") + p.to_bytes(8, "big")))]
    cand = list(rfc)
    if cand_kind == 1:
        cand = list(iv)                                            # pn ignored
    elif cand_kind == 2:
        cand = [a ^ b for a, b in zip(iv, list(p.to_bytes(8, "big") + (0).to_bytes(4, "big")))]   # right padded
    elif cand_kind == 3:
        cand = [a ^ b for a, b in zip(iv, list((0).to_bytes(4, "big") + p.to_bytes(8, "little")))]  # little endian
    elif cand_kind == 4:
        v = (int.from_bytes(bytes(iv), "big") + p) % (1 << 96)     # addition instead of xor
        cand = list(v.to_bytes(12, "big"))
    elif cand_kind == 5 and rng is not None:
        cand[rng.randrange(12)] ^= 1 << rng.randrange(8)
    return [suite, p, q] + iv + cand + list(secret)


def _rand_pn(rng):
    r = rng.random()
    if r < 0.3:
        return rng.choice([0, 1, 2, 255, 256, 65535, 65536, (1 << 32) - 1, 1 << 32, (1 << 56), (1 << 61), VMAX - 1, VMAX])
    if r < 0.6:
        return rng.randrange(1 << rng.randrange(1, 62))
    return rng.randrange(1 << 62)


def gen_nonce(rng):
    suite = rng.randrange(3)
    secret = [rng.randrange(256) for _ in range(48 if suite == 1 else 32)]
    p = _rand_pn(rng)
    r = rng.random()
    if r < 0.25:
        q = p
    elif r < 0.6:
        q = p ^ (1 << rng.randrange(62))                           # one bit apart
    elif r < 0.7:
        q = (p + rng.choice([1, 256, 1 << 32])) & VMAX
    else:
        q = _rand_pn(rng)
    return _nonce_case(suite, p, q, secret, rng.choice([0, 0, 0, 1, 2, 3, 4, 5]), rng)


def fixed_nonce(tier):
    out = []
    secret32 = list(range(32))
    secret48 = list(range(100, 148))
    # RFC 9001 A.5 secret (ChaCha20-Poly1305), packet number 654360564
    a5 = list(bytes.fromhex("9ac312a7f877468ebe69422748ad00a15443f18203a07d6060f688f30f21632b"))
    out.append(_nonce_case(2, 654360564, 654360564, a5, 0))
    for suite in (0, 1, 2):
        sec = secret48 if suite == 1 else secret32
        for k in range(62):                                         # every bit of the packet number
            out.append(_nonce_case(suite, 1 << k, 0, sec, 0))
            out.append(_nonce_case(suite, (1 << k) - 1, 1 << k, sec, 3))
        for kind in range(5):
            out.append(_nonce_case(suite, 0x0102030405060708 & VMAX, VMAX, sec, kind))
    return out


def valid_nonce(c):
    if len(c) < 27 + 32 or c[0] not in (0, 1, 2):
        return False
    if not (0 <= c[1] <= VMAX and 0 <= c[2] <= VMAX) or not all(0 <= v <= 255 for v in c[3:]):
        return False
    if len(c) != 27 + (48 if c[0] == 1 else 32):
        return False
    return c[3:15] == _iv_of(c[0], c[27:])


# ---------------------------------------------------------------- rxpipe: receive pipeline
BIG_LIMIT = 1 << 40


def _rx_parse(c):
    """-> (hlen, seals [(pn, n, plen, payload)], deliveries [(kind, args, seals so far)]) or None when malformed"""
    if len(c) < 3:
        return None
    hlen = 1 + min(c[1], 20)
    i, seals, dl = 3, [], []
    while i < len(c):
        op = c[i]
        if op == 0:
            if i + 4 > len(c):
                return None
            pn, n, plen = c[i + 1], c[i + 2], c[i + 3]
            if i + 4 + plen > len(c):
                return None
            seals.append((pn, n, plen, c[i + 4:i + 4 + plen]))
            i += 4 + plen
        elif op == 1:
            if i + 2 > len(c):
                return None
            dl.append((1, c[i + 1:i + 2], len(seals)))
            i += 2
        elif op == 2:
            if i + 4 > len(c):
                return None
            dl.append((2, c[i + 1:i + 4], len(seals)))
            i += 4
        elif op == 3:
            if i + 3 > len(c):
                return None
            dl.append((3, c[i + 1:i + 3], len(seals)))
            i += 3
        elif op == 4:
            if i + 5 > len(c):
                return None
            dl.append((4, c[i + 1:i + 5], len(seals)))
            i += 5
        elif op == 5:
            if i + 2 > len(c) or i + 2 + c[i + 1] > len(c):
                return None
            dl.append((5, [c[i + 1]], len(seals)))
            i += 2 + c[i + 1]
        else:
            return None
    return hlen, seals, dl


def _xor_predictable(hlen, n, pos, x):
    """the decoded packet number of the garbled copy is still the original one (or it is not a 1-RTT packet at all)"""
    if pos == 0:
        return (x & 0xc0) != 0 or (x & 0x03) == 0
    return not (hlen <= pos < hlen + n or hlen + 4 <= pos < hlen + 20)


def valid_rx(c):
    if len(c) > 3000 or any(v < 0 for v in c):
        return False
    r = _rx_parse(c)
    if r is None or not (0 <= c[1] <= 20) or c[0] >= (1 << 64) or not (1 <= c[2] < (1 << 62)):
        return False
    hlen, seals, dl = r
    if not seals and any(d[0] != 5 for d in dl):
        return False
    mx = max([s[0] for s in seals], default=0)
    for pn, n, plen, pay in seals:
        if not (1 <= n <= 4 and 3 <= plen <= 64 and 0 <= pn and mx < (1 << (8 * n - 2))):
            return False
        if any(not (0 <= b <= 255) for b in pay):
            return False
    lens = [hlen + n + plen + 16 for (_, n, plen, _) in seals]
    lenset = set(lens)
    unpredictable = False
    for kind, a, avail in dl:
        if kind in (1, 2, 3) and not (0 <= a[0] < avail):
            return False
        if kind == 2:
            if not (0 <= a[1] < lens[a[0]] and 1 <= a[2] <= 255):
                return False
            if not _xor_predictable(hlen, seals[a[0]][1], a[1], a[2]):
                unpredictable = True
        if kind == 3 and not (0 <= a[1] < lens[a[0]] and a[1] not in lenset):
            return False
        if kind == 4:
            if not (0 <= a[0] < avail and 0 <= a[1] < avail and a[2] >= 1):
                return False
            res = min(a[2], lens[a[0]]) + lens[a[1]] - min(a[3], lens[a[1]])
            if res in lenset:
                return False
            unpredictable = True
        if kind == 5:
            if a[0] in lenset:
                return False
            unpredictable = True
    return True


def gen_rx(rng):
    for _ in range(50):
        c = _gen_rx_once(rng)
        if valid_rx(c):
            return c
    return [1, 1, 5, 0, 1, 1, 3, 1, 2, 3, 1, 0, 1, 0]


def _gen_rx_once(rng):
    seed = rng.randrange(1 << 64)
    dcid = rng.choice([0, 1, 4, 8, 8, 16, 20])
    hlen = 1 + dcid
    limited = rng.random() < 0.4                       # small integrity limit
    limit = rng.choice([1, 2, 3, 3, 4, 6, 10]) if limited else BIG_LIMIT
    big = rng.random() < 0.5
    base = rng.randrange(0, 12000) if big else rng.randrange(0, 40)
    c = [seed, dcid, limit]
    seals = []
    lens = []
    nops = rng.choice([2, 4, 8, 16, 30])
    mx_allowed = (1 << 14) - 1 if big else 63
    for _ in range(nops):
        r = rng.random()
        if not seals or r < 0.3:
            q = rng.random()
            if seals and q < 0.15:
                pn = rng.choice(seals)[0]                              # the peer reuses a packet number
            elif seals and q < 0.5:
                pn = max(0, min(mx_allowed, max(s[0] for s in seals) + rng.choice([1, 1, 1, 2, 3, -1, -5, -127, -128, -129, -130, -200, 128, 129, 130, 300])))
            else:
                pn = min(mx_allowed, base + rng.randrange(0, 300 if big else 20))
            n = rng.choice([2, 3, 4]) if big else rng.choice([1, 2, 3, 4])
            plen = rng.choice([3, 4, 5, 8, 13, 20, 33, 50])
            pay = _rbytes(rng, plen)
            c += [0, pn, n, plen] + pay
            seals.append((pn, n, plen))
            lens.append(hlen + n + plen + 16)
            continue
        k = rng.randrange(len(seals))
        if r < 0.55:
            c += [1, k]
            if rng.random() < 0.3:
                c += [1, k]                                            # immediate replay
        elif r < 0.75:
            n = seals[k][1]
            if limited and rng.random() < 0.5:
                cand = [0] * 2 + list(range(1, hlen)) + list(range(hlen + n, hlen + 4)) + list(range(hlen + 20, lens[k]))
                pos = rng.choice(cand)
                x = rng.choice([0x04, 0x08, 0x10, 0x18, 0x20, 0x40, 0x80, 0xc0]) if pos == 0 else rng.choice([1, 2, 0x80, 0xff, rng.randrange(1, 256)])
            else:
                pos = rng.choice([0, 0, hlen - 1, hlen, hlen + n - 1, hlen + 4, hlen + 19, lens[k] - 16, lens[k] - 1, rng.randrange(lens[k])])
                pos = max(0, min(lens[k] - 1, pos))
                x = rng.choice([1, 2, 3, 0x40, 0x80, 0x1f, 0xff, rng.randrange(1, 256)])
            c += [2, k, pos, x]
        elif r < 0.83:
            c += [3, k, rng.choice([0, 1, hlen, hlen + 4, hlen + 19, hlen + 20, lens[k] - 16, lens[k] - 1, rng.randrange(lens[k])])]
        elif r < 0.93:
            j = rng.randrange(len(seals))
            hk = hlen + seals[k][1]
            hj = hlen + seals[j][1]
            if rng.random() < 0.6:
                c += [4, k, j, hk, hj]                                 # header of #k, body of #j
            else:
                c += [4, k, j, rng.randrange(1, lens[k] + 1), rng.randrange(lens[j] + 1)]
        else:
            ln = rng.choice([0, 1, 5, 16, 20, 21, 30, 40, 60, 100])
            b = _rbytes(rng, ln)
            if b and rng.random() < 0.7:
                b[0] = 0x40 | (b[0] & 0x3f)
            c += [5, ln] + b
    return c


def fixed_rx(tier):
    """for a few sealed packets: every single-byte mutation at every position (exhaustive over positions),
    every truncation, then the genuine packet, then its replay; integrity-limit histories"""
    out = []
    for dcid, n, plen, pn in ((1, 1, 3, 5), (8, 2, 9, 300), (20, 4, 30, 4000), (4, 3, 17, 70)):
        hlen = 1 + dcid
        ln = hlen + n + plen + 16
        pay = [(7 * i + 1) % 256 for i in range(plen)]
        for x in ((0x01, 0x80, 0xff) if tier == "quick" else (1, 2, 4, 8, 0x10, 0x20, 0x40, 0x80, 0xff, 0x55)):
            c = [0x1234567 + x, dcid, BIG_LIMIT, 0, pn, n, plen] + pay
            for pos in range(ln):
                c += [2, 0, pos, x]
            for newlen in range(ln):
                c += [3, 0, newlen]
            c += [1, 0, 1, 0]
            for pos in range(ln):
                c += [2, 0, pos, x]
            out.append(c)
    # every single-byte mutation of the first byte and header with a small integrity limit: each garbled copy that is
    # still a 1-RTT packet counts exactly one failure, whatever bits it sets
    for L in (2, 5):
        for x in (0x08, 0x10, 0x18, 0x04, 0x03, 0x20, 0x1f):
            out.append([5, 4, L, 0, 9, 2, 5, 1, 2, 3, 4, 5, 1, 0] + [2, 0, 0, x] * (L + 1) + [1, 0])
    # window edges: 129 below the largest processed packet number is too old, 128 is not
    for d in (127, 128, 129, 130):
        out.append([99, 8, BIG_LIMIT, 0, 1000, 2, 4, 1, 2, 3, 4, 0, 1000 - d, 2, 4, 9, 9, 9, 9, 1, 0, 1, 1, 1, 1, 1, 0])
    # integrity limit L: garbled copies (tag byte flipped) of a FRESH packet number; the L-th closes the connection
    for L in (1, 2, 3, 5):
        c = [7, 8, L, 0, 10, 2, 6, 1, 2, 3, 4, 5, 6, 0, 11, 2, 6, 6, 5, 4, 3, 2, 1, 1, 0]
        c += [2, 1, 8 + 1 + 2 + 6 + 15, 1] * (L + 1) + [1, 1]
        out.append(c)
    # garbled copies of an ALREADY PROCESSED packet number: the L-th still closes the connection (fixed by 8163dbb)
    for L in (1, 3):
        c = [7, 8, L, 0, 10, 2, 6, 1, 2, 3, 4, 5, 6, 0, 11, 2, 6, 6, 5, 4, 3, 2, 1, 1, 0]
        c += [2, 0, 8 + 1 + 2 + 6 + 15, 1] * (L + 3) + [2, 1, 8 + 1 + 2 + 6 + 15, 1, 1, 1]
        out.append(c)
    return out


# ---------------------------------------------------------------- reset: stateless reset token match
def gen_reset(rng):
    k = rng.choice([0, 1, 1, 2, 3, 5])
    toks = [_rbytes(rng, 16) for _ in range(k)]
    if k >= 2 and rng.random() < 0.2:
        toks[1] = list(toks[0])
    r = rng.random()
    pre = _rbytes(rng, rng.choice([0, 1, 5, 21, 40]))
    if k and r < 0.35:
        d = pre + list(rng.choice(toks))
    elif k and r < 0.6:
        t = list(rng.choice(toks))
        t[rng.randrange(16)] ^= 1 << rng.randrange(8)
        d = pre + t
    elif k and r < 0.7:
        d = pre + list(rng.choice(toks)) + _rbytes(rng, rng.choice([1, 2, 15]))   # token not at the end
    elif k and r < 0.8:
        d = list(rng.choice(toks))[rng.choice([1, 2, 8]):]                          # shorter than a token
    else:
        d = _rbytes(rng, rng.choice([0, 3, 15, 16, 17, 40]))
    return [k] + [b for t in toks for b in t] + d


def fixed_reset(tier):
    out = []
    t = list(range(16, 32))
    for i in range(16):
        for bit in range(8):
            u = list(t)
            u[i] ^= 1 << bit
            out.append([1] + t + [0x40, 1, 2, 3, 4] + u)       # every single-bit change of the token
    out.append([1] + t + [0x40, 1, 2, 3, 4] + t)
    out.append([1] + t + t)
    out.append([1] + t + t[1:])
    out.append([0] + t)
    return out


# ---------------------------------------------------------------- resetmap: real PeerIdRegistry + ConnectionIdMapper
def _tok_bytes(t):
    return list(t.to_bytes(16, "big"))


class _Reg:
    """just enough of PeerIdRegistry to keep generated NEW_CONNECTION_ID frames acceptable"""
    def __init__(self, flag, tok):
        self.open = True
        self.rpt = 0
        self.nseq = 0
        self.ids = [[0, tok if flag else None, "use"]]      # seq, token, status new/use/ret/ack
        self.toks = [tok] if flag else []

    def can_new(self, seq, rpt, tok):
        if seq != self.nseq + 1 or tok in self.toks:
            return False
        rp = max(self.rpt, rpt)
        act = sum(1 for e in self.ids if e[2] in ("new", "use") and not e[0] < rp) + (0 if seq < rp else 1)
        ret = len(self.ids) + 1 - act
        return act <= 3 and ret <= 6

    def new(self, seq, rpt, tok):
        self.rpt = max(self.rpt, rpt)
        for e in self.ids:
            if e[2] in ("new", "use") and e[0] < self.rpt:
                e[2] = "ret"
        self.ids.append([seq, tok, "ret" if seq < self.rpt else "new"])
        self.nseq = seq
        self.toks.append(tok)

    def tx(self, pn):
        for e in self.ids:
            if e[2] == "ret":
                e[2] = ("ack", pn)

    def ack(self, pn):
        self.ids = [e for e in self.ids if e[2] != ("ack", pn)]


def gen_resetmap(rng):
    c = []
    conns = []
    pool = [rng.randrange(1, 1 << 100) for _ in range(4)] + [1, (1 << 120) + 5]
    allt = []
    pn = 0
    for _ in range(rng.choice([3, 6, 12, 25, 40])):
        r = rng.random()
        openc = [i for i, k in enumerate(conns) if k.open]
        if not conns or r < 0.12:
            if len(conns) >= 10:
                continue
            flag = rng.random() < 0.8
            tok = rng.choice(pool) if rng.random() < 0.3 else rng.randrange(1 << 120)
            c += [0, 1 if flag else 0, tok]
            conns.append(_Reg(flag, tok))
            if flag:
                allt.append(tok)
        elif r < 0.40 and openc:
            i = rng.choice(openc)
            k = conns[i]
            tok = rng.choice(pool) if rng.random() < 0.3 else rng.randrange(1 << 120)
            seq = k.nseq + 1
            retire = rng.random() < 0.35
            rpt = seq if retire else 0
            if not k.can_new(seq, rpt, tok):
                continue
            k.new(seq, rpt, tok)
            allt.append(tok)
            c += [5 if retire else 1, i, seq, tok]
        elif r < 0.52 and openc:
            c += [2, rng.choice(openc)]
        elif r < 0.60 and openc:
            i = rng.choice(openc)
            pn += 1
            conns[i].tx(pn)
            c += [6, i, pn]
        elif r < 0.68 and openc:
            i = rng.choice(openc)
            q = rng.randrange(1, pn + 1) if pn else 1
            conns[i].ack(q)
            c += [7, i, q]
        elif r < 0.73 and openc:
            i = rng.choice(openc)
            conns[i].open = False
            c += [3, i]
        else:
            pre = _rbytes(rng, rng.choice([0, 1, 7, 30]))
            q = rng.random()
            if allt and q < 0.6:
                d = pre + _tok_bytes(rng.choice(allt))
            elif allt and q < 0.78:
                t = _tok_bytes(rng.choice(allt))
                t[rng.randrange(16)] ^= 1 << rng.randrange(8)
                d = pre + t
            elif allt and q < 0.86:
                d = pre + _tok_bytes(rng.choice(allt)) + _rbytes(rng, rng.choice([1, 3]))
            else:
                d = _rbytes(rng, rng.choice([0, 5, 15, 16, 17, 33]))
            c += [4, len(d)] + d
    return c


def fixed_resetmap(tier):
    t1, t2, t3 = 0x0102030405060708090a0b0c0d0e0f10, 77, (1 << 126) + 9
    d = lambda t: [4, 21, 0x40, 1, 2, 3, 4] + _tok_bytes(t)
    return [
        [0, 1, t1] + d(t1) + d(t1),                                   # match once, then the entry is gone
        [0, 1, t1, 1, 0, 1, t2] + d(t2) + [2, 0] + d(t2),             # a token counts only once its id is in use
        [0, 1, t1, 1, 0, 1, t2, 2, 0, 3, 0] + d(t1) + d(t2),          # dropped connection: tokens forgotten
        [0, 1, t1, 0, 1, t3] + d(t3) + d(t1),                         # two connections
        [0, 1, t1, 0, 1, t1] + d(t1) + d(t1),                         # the same token registered by two connections
        [0, 0, t1] + d(t1),                                           # no token in the transport parameters
        [0, 1, t1, 4, 15] + _tok_bytes(t1)[1:],                       # shorter than a token
        # retirement: the initial id is retired by retire_prior_to; its token still counts until the
        # RETIRE_CONNECTION_ID is acknowledged, and is forgotten afterwards
        [0, 1, t1, 5, 0, 1, t2, 2, 0, 6, 0, 1, 7, 0, 1] + d(t1) + d(t2),
        [0, 1, t1, 5, 0, 1, t2, 2, 0, 6, 0, 1] + d(t1),
        [0, 1, t1, 5, 0, 1, t2, 6, 0, 1, 7, 0, 2] + d(t1) + [7, 0, 1] + d(t1),
    ]


def valid_resetmap(c):
    i, conns = 0, []
    def ok(k):
        return 0 <= k < len(conns) and conns[k].open
    while i < len(c):
        op = c[i]
        if op == 0 and i + 3 <= len(c):
            if not (0 <= c[i + 2] < (1 << 127)):
                return False
            conns.append(_Reg(c[i + 1] != 0, c[i + 2]))
            i += 3
        elif op in (1, 5) and i + 4 <= len(c):
            k, seq, tok = c[i + 1], c[i + 2], c[i + 3]
            if not ok(k) or not (0 <= tok < (1 << 127)) or not (0 < seq < 200):
                return False
            rpt = seq if op == 5 else 0
            if not conns[k].can_new(seq, rpt, tok):
                return False
            conns[k].new(seq, rpt, tok)
            i += 4
        elif op in (2, 3) and i + 2 <= len(c):
            k = c[i + 1]
            if not ok(k):
                return False
            if op == 3:
                conns[k].open = False
            i += 2
        elif op in (6, 7) and i + 3 <= len(c):
            k, pn = c[i + 1], c[i + 2]
            if not ok(k) or not (0 <= pn < (1 << 40)):
                return False
            if op == 6:
                conns[k].tx(pn)
            else:
                conns[k].ack(pn)
            i += 3
        elif op == 4 and i + 2 <= len(c) and 0 <= c[i + 1] and i + 2 + c[i + 1] <= len(c):
            if any(not (0 <= b <= 255) for b in c[i + 2:i + 2 + c[i + 1]]):
                return False
            i += 2 + c[i + 1]
        else:
            return False
    return len(conns) <= 12


# ---------------------------------------------------------------------------------------------
registry.register("C06", {
    "gen": ["C06"],
    "props_file": "props/C06.v",
    "extract_target": "extract/Ex_C06.vo",
    "harness": "h_core",
    "axioms_allowed": [],
    "components": [
        {"name": "hp", "gen": gen_hp, "fixed": fixed_hp, "quick": 30000, "thorough": 1000000,
         "valid": valid_hp,
         "nontrivial": lambda case, out: len(out) > 4 and out[0] == 0,
         "histogram": lambda cases, outs: {
             "sealed_ok": sum(1 for o in outs if o.startswith("0 ")),
             "too_short_for_sample": sum(1 for o in outs if o.startswith("1 ")),
             "first_bytes": len(set(c[7] for c in cases if len(c) > 7)),
             "long_header": sum(1 for c in cases if len(c) > 7 and c[7] & 0x80)}},
        {"name": "nonce", "gen": gen_nonce, "fixed": fixed_nonce, "quick": 6000, "thorough": 200000,
         "valid": valid_nonce,
         "nontrivial": lambda case, out: case[1] != case[2],
         "histogram": lambda cases, outs: {
             "suite": {str(k): sum(1 for c in cases if c[0] == k) for k in (0, 1, 2)},
             "p_eq_q": sum(1 for c in cases if c[1] == c[2]),
             "candidate_opens": sum(1 for o in outs if o.split()[-2:-1] == ["1"]),
             "cross_opens": sum(1 for o in outs if o.split()[-1:] == ["1"])}},
        {"name": "consts", "gen": lambda rng: [rng.randrange(3)], "fixed": lambda tier: [[0], [1], [2]], "quick": 3, "thorough": 3,
         "valid": lambda c: len(c) == 1 and c[0] in (0, 1, 2), "judged": False,
         "nontrivial": lambda case, out: True},
        {"name": "rxpipe", "gen": gen_rx, "fixed": fixed_rx, "quick": 8000, "thorough": 300000,
         "valid": valid_rx,
         "nontrivial": lambda case, out: 0 in out[:1] or (len(out) > 1 and any(v in (1, 3, 4, 6) for v in out)),
         "histogram": lambda cases, outs: {
             "ops": {str(k): sum(sum(1 for d in (_rx_parse(c) or (0, [], []))[2] if d[0] == k) for c in cases) for k in (1, 2, 3, 4, 5)},
             "sealed": sum(len((_rx_parse(c) or (0, [], []))[1]) for c in cases),
             "small_integrity_limit": sum(1 for c in cases if len(c) > 2 and c[2] < BIG_LIMIT),
             "closed_with_aead_limit": sum(1 for o in outs if " 6 " in " " + o + " " and " 5" in o or o.endswith(" 6") or o == "6")}},
        {"name": "reset", "gen": gen_reset, "fixed": fixed_reset, "quick": 20000, "thorough": 500000,
         "valid": lambda c: len(c) >= 1 and 0 <= c[0] <= 8 and len(c) >= 1 + 16 * c[0] and all(0 <= v <= 255 for v in c[1:]),
         "nontrivial": lambda case, out: case[0] > 0 and len(case) - 1 - 16 * case[0] >= 16,
         "histogram": lambda cases, outs: {"matched": sum(1 for o in outs if o.strip() != "0"), "none": sum(1 for o in outs if o.strip() == "0")}},
        {"name": "resetmap", "harness": ("h_transport", "C06r"), "gen": gen_resetmap, "fixed": fixed_resetmap,
         "quick": 20000, "thorough": 500000, "valid": valid_resetmap,
         "nontrivial": lambda case, out: any(v > 0 for v in out) and 4 in case,
         "histogram": lambda cases, outs: {"datagrams_matched": sum(1 for o in outs for v in o.split() if v not in ("0", "9", "-1")),
                                           "cases": len(cases)}},
    ],
    "rule": "hp: all 256 first bytes x 8 first-byte masks x header lengths, exact sample-bound lengths, seeded random "
            "(space, header length 1..40, 5 mask bytes, packet bytes around the bound hlen+4+16); a case is non-trivial "
            "when the packet is long enough to be sealed; nonce: the three cipher suites with random secrets (iv = HKDF-Expand-Label "
            "computed independently by the generator), every single-bit packet number, pairs p,q equal / one bit apart / random, "
            "candidate nonces = RFC value or a wrong construction (no pn, right padded, little endian, addition, one bit off); "
            "non-trivial when p != q; rxpipe: packets sealed with the harness keys through the real encrypt/protect, then for four "
            "packet shapes EVERY single-byte mutation at EVERY position and every truncation before and after the genuine delivery, "
            "window edges 127..130, seeded random interleavings of genuine deliveries, replays, byte flips, truncations, splices "
            "(header of one packet + body of another), random datagrams and packet-number reuse by the peer; reset: every single-bit "
            "change of a registered token, tokens not at the end, short datagrams, duplicate tokens; resetmap (real PeerIdRegistry + "
            "ConnectionIdMapper through the hook): connections opened with/without a transport-parameter token, NEW_CONNECTION_ID, ids taken "
            "into use, ids retired by retire_prior_to (RETIRE_CONNECTION_ID written and acknowledged), connections dropped, datagrams ending in a registered / one-bit-off / misplaced token, the same token on two connections; "
            "rxpipe additionally: integrity limits 1..10 through the real KeySet (failure counter, AEAD_LIMIT_REACHED)",
    "assumptions": [
        "ideal AEAD (open succeeds only on what seal produced) is a hypothesis of the rxpipe theorems, not proved",
    ],
    "trusted_base": [],
    "explanation": "Coq theorems C06_* over models of header_crypto.rs / iv.rs / the receive pipeline; models tied to the source "
                   "by generated constants and differential execution against the real s2n_quic_core::crypto functions",
})
