"""C19 -- dc: a key id is accepted at most once and issued at most once."""
import registry

VMAX = (1 << 62) - 1


def gen_dcr(rng):
    n = rng.choice([1, 2, 3, 5, 8, 13, 30, 60])
    ids = []
    mx = None
    for _ in range(n):
        r = rng.random()
        if mx is None or r < 0.05:
            v = rng.choice([0, 1, 5, 895, 896, 897, 1000, rng.randrange(1 << 20), rng.randrange(1 << 62), VMAX - 1, VMAX - 2, VMAX - 897])
        elif r < 0.45:
            v = mx - rng.choice([0, 1, 2, 3, 894, 895, 896, 897, 898, rng.randrange(0, 900), rng.randrange(0, 2000)])
        elif r < 0.60 and ids:
            v = rng.choice(ids)                       # replay
        elif r < 0.90:
            v = mx + rng.choice([1, 1, 2, 3, 63, 64, 65, 895, 896, 897, 898, rng.randrange(1, 900), rng.randrange(1, 3000)])
        elif r < 0.95:
            v = mx + rng.randrange(1 << 30)
        else:
            v = rng.choice([VMAX, VMAX, VMAX - 1, rng.randrange(1 << 62)])
        v = max(0, min(VMAX, v))
        ids.append(v)
        if v != VMAX:
            mx = v if mx is None else max(mx, v)
    return ids


def fixed_dcr(tier):
    """boundary families: exact window edges, and (thorough) all sequences of length <= L over a small alphabet"""
    out = []
    for base in (896, 897, 1000, 5000, VMAX - 1):
        for d in (894, 895, 896, 897, 898):
            if base - d >= 0:
                out.append([base, base - d, base - d])
                out.append([base - d, base, base - d])
    out.append([VMAX, 0, VMAX])
    out.append([VMAX - 1, VMAX, VMAX - 1, VMAX - 897, VMAX - 896])
    alpha = [0, 1, 2, 895, 896, 897, 898, VMAX]
    import itertools
    L = 4 if tier == "quick" else 6
    for n in range(1, L + 1):
        for t in itertools.product(alpha, repeat=n):
            out.append(list(t))
    return out


def gen_dcs(rng):
    n = rng.choice([1, 2, 5, 10, 40])
    ops = []
    for _ in range(n):
        if rng.random() < 0.7:
            ops.append(0)
        else:
            ops.append(1)
            r = rng.random()
            if r < 0.5:
                ops.append(rng.randrange(0, 50))
            elif r < 0.8:
                ops.append(rng.randrange(1 << 40))
            else:
                ops.append(rng.choice([VMAX, VMAX - 1, VMAX - 2, VMAX - 3, rng.randrange(1 << 62)]))
    return ops


def fixed_dcs(tier):
    out = [[0, 0, 0], [1, VMAX - 3, 0, 0, 0, 0], [1, VMAX, 0], [1, VMAX - 1, 0], [1, VMAX - 2, 0, 0], [0, 1, 0, 0, 1, 5, 0, 1, 3, 0]]
    return out


def gen_dedup(rng):
    """delivery schedule over sequentially issued one-shot key ids (< 3000): mostly ascending with
    jumps, probes at the window edges 894..898 below the running maximum, replays, stragglers"""
    n = rng.choice([2, 5, 10, 20, 40, 80])
    out = []
    mx = None
    for _ in range(n):
        r = rng.random()
        if mx is None:
            v = rng.choice([0, 1, 5, 895, 896, 897, 1000, rng.randrange(0, 2000)])
        elif r < 0.30:
            v = mx + rng.choice([1, 1, 2, 3, 64, 500, 894, 895, 896, 897, 898, rng.randrange(1, 1200)])
        elif r < 0.60:
            v = mx - rng.choice([893, 894, 895, 896, 897, 898, 899])
        elif r < 0.75 and out:
            v = rng.choice(out)                      # replay
        elif r < 0.90:
            v = mx - rng.randrange(0, 896)
        else:
            v = rng.randrange(0, mx + 1)
        v = max(0, min(2999, v))
        out.append(v)
        mx = v if mx is None else max(mx, v)
    return out


def fixed_dedup(tier):
    out = [[], [0], [0, 0]]
    for base in (895, 896, 897, 1000, 2000, 2999):
        for d in (893, 894, 895, 896, 897, 898):
            if base - d >= 0:
                out.append([base, base - d, base - d, base])
                out.append([base - d, base, base - d])
                out.append([base, base - 1, base - d, base - d + 1, base - d - 1 if base - d >= 1 else 0])
    out.append([1000, 105, 104, 105, 1000])
    out.append([2000, 2000, 1105, 1104, 1103, 1999, 2000])
    out.append(list(range(0, 40)) + list(range(39, -1, -1)))
    out.append([0, 896, 1, 895, 897, 2, 1792, 897, 896, 898])
    return out


def mt_check(ctx, stats):
    """supporting evidence for the linearisation argument: real threads share one sender"""
    cases = [[4, 20000, 0, 0], [8, 20000, 7, 977], [16, 5000, 3, 12345]]
    if ctx.tier == "thorough":
        cases += [[16, 200000, 5, 99991], [16, 200000, 0, 0], [12, 100000, 2, 7]]
    from run_check import hexline, parse_hexline
    lines = [hexline(c) for c in cases]
    outs = ctx.impl("dcs_mt", lines)
    probs = []
    for c, o in zip(cases, outs):
        v = parse_hexline(o) if not o.startswith("!") else [0, -1, 0]
        if v[0] != v[1] or v[2] != 1:
            probs.append({"kind": "judge", "component": "dcs_mt", "case": c, "impl": o, "model": None})
    # receiver: every thread offers every id; no id may be accepted twice
    rcases = [[8, 20000, 1, 1], [8, 20000, 3, 2], [16, 10000, 1, 3], [4, 30000, 7, 4]]
    if ctx.tier == "thorough":
        rcases += [[16, 200000, 1, 5], [8, 200000, 2, 6], [12, 100000, 5, 7], [16, 100000, 1, 8]]
    rlines = [hexline(c) for c in rcases]
    routs = ctx.impl("dcr_mt", rlines)
    for c, o in zip(rcases, routs):
        v = parse_hexline(o) if not o.startswith("!") else [0, 1, 0, 99]
        if v[1] != 0 or v[3] > 1:
            probs.append({"kind": "judge", "component": "dcr_mt", "case": c, "impl": o, "model": None})
    stats.append({"component": "dcr_mt", "cases": len(rcases), "distinct": len(rcases), "distinct_nontrivial": len(rcases),
                  "samples": [{"case": rlines[0], "impl": routs[0]}], "note": "threads x ids offered by every thread; output = offers, ids accepted more than once, ids accepted once, largest accept count"})
    stats.append({"component": "dcs_mt", "cases": len(cases), "distinct": len(cases), "distinct_nontrivial": len(cases),
                  "samples": [{"case": lines[0], "impl": outs[0]}], "note": "threads x per-thread issues; output = issued, distinct, per-thread monotone"})
    return probs


registry.register("C19", {
    "gen": ["C19"],
    "props_file": "props/C19.v",
    "extract_target": "extract/Ex_C19.vo",
    "harness": "h_dc",
    "axioms_allowed": [],
    "components": [
        {"name": "dcr", "gen": gen_dcr, "fixed": fixed_dcr, "quick": 20000, "thorough": 1000000,
         "valid": lambda c: all(0 <= v <= VMAX for v in c),
         "nontrivial": lambda case, out: len(set(out[1::3])) >= 2,
         "histogram": lambda cases, outs: {"codes": {k: sum(o.split()[1::3].count(k) for o in outs) for k in ("0", "1", "2")}}},
        {"name": "dcs", "gen": gen_dcs, "fixed": fixed_dcs, "quick": 20000, "thorough": 500000,
         "valid": lambda c: all(0 <= v <= VMAX for v in c),
         "nontrivial": lambda case, out: len(out) >= 2 and 1 in case},
        {"name": "dedup", "gen": gen_dedup, "fixed": fixed_dedup, "quick": 4000, "thorough": 60000,
         "valid": lambda c: all(0 <= v <= 2999 for v in c),
         "nontrivial": lambda case, out: len(set(out)) >= 2,
         "histogram": lambda cases, outs: {"codes": {k: sum(o.split().count(k) for o in outs) for k in ("0", "1", "2", "3")}}},
    ],
    "extra_checks": [mt_check],
    "rule": "cases: corpus + boundary families (window edges 894..898, reserved maximum; all sequences of length <= 4 (quick) / 6 (thorough) over {0,1,2,895,896,897,898,2^62-1}) + seeded random id sequences clustered within +-900/3000 of the running maximum with replays and huge jumps; a receiver case is non-trivial when at least two different result codes occur, a sender case when it mixes next_key_id and StaleKey updates",
    "assumptions": [
        "receiver critical section runs under a Mutex and the sender operations are single atomic RMWs, so each concurrent execution equals some sequence of the modelled operations (linearisation; supported, not proved, by the multi-threaded run)",
        "key ids handed to the receiver are VarInts (< 2^62), as the type guarantees",
    ],
    "trusted_base": ["no axioms: Print Assumptions reports 'Closed under the global context' for every C19 theorem"],
    "explanation": "Coq theorems C19_* over the models of receiver.rs / sender.rs for all id sequences; models tied to the source by the generated WINDOW constant and by differential execution",
})
