"""C04 -- peer protocol violations are rejected with the right error; buffering is bounded."""
import registry

VMAX = (1 << 62) - 1
U32 = (1 << 32) - 1


def _edge(rng, base):
    return max(0, base + rng.choice([-2, -1, 0, 0, 1, 2]))


def gen_rx(rng):
    """adversarial frame sequences around the stream / connection window edges, FIN games,
    RESET_STREAM with conflicting sizes, reads that move the window, transmissions, ack/loss"""
    ws = rng.choice([0, 1, 2, 9, 10, 11, 20, 50, 100, 100, 1000, 4096, 65535, 70000, U32, rng.randrange(1, 300)])
    wc = rng.choice([0, 1, ws, ws, 2 * ws, 3 * ws, ws + 1, max(0, ws - 1), 150, 4 * ws + 5, U32, rng.randrange(0, 1200)])
    wc = min(wc, U32)
    wl = rng.choice([ws, ws, ws, 0, 1, ws // 2, 2 * ws, ws + 1, max(0, ws - 1), 1000, rng.randrange(0, 300)])
    wl = min(wl, U32)
    case = [ws, wl, wc]
    win = [ws, ws, wl, wl]
    nops = rng.choice([1, 2, 3, 5, 8, 12, 20, 30])
    nstr = rng.choice([1, 2, 4, 4])
    first = rng.choice([0, 0, 2]) if nstr < 4 else 0
    hi = [0, 0, 0, 0]       # highest offset sent per stream
    rd = [0, 0, 0, 0]       # bytes read (upper estimate)
    fin = [None] * 4
    npk = 0
    nframes = 0
    for _ in range(nops):
        r = rng.random()
        s = (first + rng.randrange(nstr)) % 4
        lim = rd[s] + win[s]
        if r < 0.45 and nframes < 200:
            nframes += 1
            m = rng.random()
            if m < 0.35:      # in order, small
                off = hi[s]
                ln = rng.choice([0, 1, 2, 5, 10, rng.randrange(0, 40)])
            elif m < 0.60:    # end at the stream limit edge
                e = _edge(rng, lim)
                ln = min(e, rng.choice([0, 1, 3, 10, 50, e]))
                ln = min(ln, 65536)
                off = e - ln
            elif m < 0.70:    # end at the connection limit edge
                others = sum(hi) - hi[s]
                e = _edge(rng, max(0, sum(rd) + wc - others))
                ln = min(e, rng.choice([0, 1, 3, 10]), 65536)
                off = e - ln
            elif m < 0.80:    # overlap / retransmission / gap
                off = rng.randrange(0, hi[s] + 5)
                ln = rng.randrange(0, 30)
            elif m < 0.88 and fin[s] is not None:   # around the final size
                e = _edge(rng, fin[s])
                ln = min(e, rng.choice([0, 1, 4]))
                off = e - ln
            elif m < 0.93:    # huge offsets
                off = rng.choice([VMAX, VMAX - 1, VMAX - 10, 1 << 32, (1 << 32) - 1, 1 << 40, rng.randrange(1 << 62)])
                ln = rng.choice([0, 1, 2, 11, 65536])
            else:
                off = rng.randrange(0, max(1, lim + 10))
                ln = rng.randrange(0, 20)
            f = 1 if rng.random() < 0.25 else 0
            case += [1, s, off, ln, f]
            e = off + ln
            if e <= VMAX:
                hi[s] = max(hi[s], e) if e <= lim else hi[s]
                if f and fin[s] is None and e <= lim:
                    fin[s] = e
        elif r < 0.55:
            m = rng.random()
            if m < 0.3:
                size = hi[s]
            elif m < 0.5 and fin[s] is not None:
                size = _edge(rng, fin[s])
            elif m < 0.7:
                size = _edge(rng, lim)
            elif m < 0.8:
                size = _edge(rng, hi[s])
            elif m < 0.9:
                size = rng.randrange(0, hi[s] + 3)
            else:
                size = rng.choice([0, VMAX, 1 << 32, rng.randrange(1 << 62)])
            case += [2, s, size]
        elif r < 0.75:
            n = rng.choice([0, 1, 2, 5, 10, 11, 50, 100, 1 << 20, rng.randrange(0, 64)])
            case += [3, s, n]
            rd[s] = min(hi[s], rd[s] + n)
        elif r < 0.79:
            case += [4, s]
        elif r < 0.90:
            case += [5]
            npk += 1
        elif r < 0.94:
            case += [6, rng.randrange(0, npk + 1)]
        elif r < 0.97:
            case += [7, rng.randrange(0, npk + 1)]
        else:
            case += [8, s]
    return case


def _fixed_rx_old(tier):
    out = []
    # window edges for every small window, one stream: frame ending at w-1, w, w+1, with and without fin
    for w in (0, 1, 2, 10, 100):
        for wc in (0, 1, w, w + 1, 2 * w):
            for d in (-1, 0, 1):
                e = w + d
                if e < 0:
                    continue
                for ln in (0, 1, e):
                    if ln > e:
                        continue
                    for f in (0, 1):
                        out.append([w, wc, 1, 0, e - ln, ln, f, 3, 0, 1000, 5])
            # two streams share the connection window
            out.append([w, wc, 1, 0, 0, w, 0, 1, 1, 0, w, 0, 5, 3, 0, w, 5, 1, 1, w, 1, 0])
    # final size games
    out += [
        [100, 200, 1, 0, 0, 10, 1, 1, 0, 10, 1, 0],          # data beyond final size
        [100, 200, 1, 0, 0, 10, 1, 1, 0, 5, 5, 1],           # same final size again
        [100, 200, 1, 0, 0, 10, 1, 1, 0, 5, 4, 1],           # smaller final size
        [100, 200, 1, 0, 5, 10, 0, 1, 0, 0, 10, 1],          # final size below received data
        [100, 200, 1, 0, 0, 10, 1, 2, 0, 10],                # reset with the same final size
        [100, 200, 1, 0, 0, 10, 1, 2, 0, 11],                # reset with another final size
        [100, 200, 1, 0, 5, 5, 1, 2, 0, 9],
        [100, 200, 1, 0, 0, 10, 0, 2, 0, 10, 3, 0, 5],       # reset at the received size
        [100, 200, 2, 0, 100, 5, 2, 0, 101],                 # reset at / beyond the limit
        [100, 200, 2, 0, 101],
        [100, 99, 2, 0, 100],
        [100, 200, 1, 0, 0, 0, 1, 3, 0, 1],                  # empty stream
        [100, 200, 1, 0, VMAX, 1, 0],
        [100, 200, 1, 0, VMAX, 0, 0],
        [100, 200, 1, 0, VMAX - 5, 65536, 1],
        [U32, U32, 1, 0, U32 - 1, 1, 0, 1, 1, 0, 1, 0],
        [10, 100, 1, 0, 0, 10, 0, 3, 0, 10, 5, 6, 0, 1, 0, 10, 10, 0, 1, 0, 20, 1, 0],   # window slides after read + transmit
        [10, 100, 1, 0, 0, 10, 0, 3, 0, 1, 5, 1, 0, 10, 1, 0, 5, 7, 0, 5],
        [100, 200, 1, 0, 0, 10, 0, 4, 0, 1, 0, 0, 1000, 0, 2, 0, 50, 5],                 # stop_sending then reset
        [100, 200, 1, 0, 0, 10, 0, 4, 0, 2, 0, 101],
        [100, 200, 1, 3, 0, 1, 0, 3, 1, 5, 3, 2, 5, 8, 0],
    ]
    return out


def fixed_rx(tier):
    # the families above were written for one stream window: same window for both directions
    out = [[c[0], c[0], c[1]] + c[2:] for c in _fixed_rx_old(tier)]
    # different windows for peer-initiated (index 0, 1) and locally initiated (2, 3) streams:
    # a frame ending at window-1 / window / window+1 of the stream's own direction
    for ws, wl in ((10, 20), (20, 10), (0, 5), (5, 0), (100, 1000), (1000, 100), (1, 2)):
        for s, w in ((0, ws), (2, wl), (3, wl), (1, ws)):
            for d in (-1, 0, 1):
                e = w + d
                if e < 0:
                    continue
                out.append([ws, wl, 5000, 1, s, 0, e, 0, 3, s, 1 << 20, 5, 6, 0, 1, s, e, e, 0])
                out.append([ws, wl, 5000, 1, s, e, 0, 1, 5])
                out.append([ws, wl, 5000, 2, s, e])
    # out-of-order chunks, then a FIN / RESET_STREAM below data already received
    for s in (0, 2):
        for a, b, lo, f in ((10, 20, 5, 8), (10, 20, 5, 19), (10, 20, 5, 20), (10, 20, 5, 5), (3, 4, 1, 2), (50, 60, 10, 30)):
            out.append([100, 100, 300, 1, s, a, b - a, 0, 1, s, 0, lo, 0, 1, s, lo, f - lo if f >= lo else 0, 1, 3, s, 1000])
            out.append([100, 100, 300, 1, s, a, b - a, 0, 1, s, 0, lo, 0, 1, s, f, 0, 1, 3, s, 1000])
            out.append([100, 100, 300, 1, s, a, b - a, 0, 3, s, 5, 1, s, 0, lo, 0, 3, s, 2, 1, s, f, 0, 1, 3, s, 1000])
    return out


def valid_rx(c):
    if len(c) < 3 or not all(isinstance(v, int) and 0 <= v <= VMAX for v in c):
        return False
    return sum(1 for v in c if v == 1) <= 250


def gen_st(rng):
    """frames of every kind for streams of every class around the stream limit and around what
    the application has opened; closing peer unidirectional streams; timers, transmissions, ack/loss"""
    lb = rng.choice([0, 1, 2, 3, 5, 9, 10, 11, 20, 40, 63, 64, 100, rng.randrange(0, 70)])
    lu = rng.choice([0, 1, 2, 3, 5, 9, 10, 11, 20, 40, 63, 64, 100, rng.randrange(0, 70)])
    case = [rng.randrange(2), lb, lu]
    lim = [lb, lu]
    lopen = [0, 0]
    closed = 0
    npk = 0
    for _ in range(rng.choice([1, 2, 3, 5, 8, 12, 20, 40])):
        r = rng.random()
        if r < 0.45:
            t = rng.choice([0, 1, 1, 2, 3])
            if t < 2:
                base = lim[t] + (closed if t == 1 else 0)
                n = rng.choice([max(0, base + rng.choice([-2, -1, 0, 0, 1])), rng.randrange(0, max(1, base)), rng.randrange(0, 64), 0, 1])
            else:
                n = rng.choice([max(0, lopen[t - 2] + rng.choice([-1, 0, 0, 1])), rng.randrange(0, 5)])
            case += [1, t, min(n, 63), rng.choice([0, 1, 1, 2, 2, 3, 4, 5])]
        elif r < 0.55:
            b = rng.randrange(2)
            case += [2, b]
            lopen[0 if b else 1] += 1
        elif r < 0.75:
            case += [3, 1, rng.choice([0, 1, 2, rng.randrange(0, max(1, lu + closed + 1))]) % 64]
            closed += 1
        elif r < 0.80:
            case += [4]
        elif r < 0.93:
            case += [5]
            npk += 1
        elif r < 0.97:
            case += [6, rng.randrange(0, npk + 1)]
        else:
            case += [7, rng.randrange(0, npk + 1)]
    return case


def fixed_st(tier):
    out = []
    for server in (0, 1):
        # every frame kind on every stream class: unopened / opened / at and beyond the limit
        for k in range(6):
            for lim in (0, 1, 5):
                for n in (0, max(0, lim - 1), lim, lim + 1):
                    out.append([server, lim, lim, 1, 0, n, k])
                    out.append([server, lim, lim, 1, 1, n, k])
                    out.append([server, lim, lim, 1, 0, n, 0, 1, 0, n, k, 1, 1, n, 0, 1, 1, n, k])
            out.append([server, 5, 5, 1, 2, 0, k])
            out.append([server, 5, 5, 1, 3, 0, k])
            out.append([server, 5, 5, 2, 1, 1, 2, 0, k, 1, 2, 1, k])
            out.append([server, 5, 5, 2, 0, 1, 3, 0, k, 1, 3, 1, k])
            out.append([server, 5, 5, 2, 0, 2, 0, 2, 1, 1, 3, 1, k, 1, 2, 0, k, 1, 3, 2, k])
        # closing streams moves the limit: limit L, close c streams (FIN or RESET, then read), timers, transmit
        for lim in (1, 2, 5, 10, 11, 20):
            for c in (1, 2, lim):
                seq = [server, lim, lim]
                for i in range(c):
                    seq += [1, 1, i, 1 + (i % 2), 3, 1, i]
                seq += [5, 1, 1, lim + c - 1, 0, 1, 1, lim + c, 0]
                out.append(seq)
                seq2 = [server, lim, lim]
                for i in range(c):
                    seq2 += [1, 1, i, 1 + (i % 2), 3, 1, i]
                seq2 += [5, 7, 0, 5, 6, 1, 4, 5, 1, 1, lim + c - 1, 0, 3, 1, lim + c - 1, 1, 1, lim + c - 1, 1, 3, 1, lim + c - 1, 4, 5, 5, 1, 1, lim + c, 2]
                out.append(seq2)
    return out


def valid_st(c):
    if len(c) < 3 or not all(isinstance(v, int) and 0 <= v <= VMAX for v in c):
        return False
    return sum(1 for v in c if v == 2) <= 400


def hist_st(cases, outs):
    h = {"stream_limit_error": 0, "stream_state_error": 0, "not_closed": 0, "max_streams_frames": 0}
    for o in outs:
        t = o.split()
        if t and t[-1] == "4":
            h["stream_limit_error"] += 1
        elif t and t[-1] == "5":
            h["stream_state_error"] += 1
        else:
            h["not_closed"] += 1
    return h


T60 = 1 << 60


def gen_fv(rng):
    kind = rng.randrange(5)
    if kind < 4:
        a = rng.choice([0, 1, T60 - 1, T60, T60 + 1, T60 + 2, VMAX, VMAX - 1, 1 << 32, rng.randrange(1 << 62), rng.randrange(T60 - 5, T60 + 5)])
        return [kind, a, 0, 0]
    a = rng.choice([0, 1, 2, 63, 64, 16383, 16384, VMAX, VMAX - 1, rng.randrange(1 << 62), rng.randrange(0, 10)])
    b = rng.choice([0, a, max(0, a - 1), min(VMAX, a + 1), min(VMAX, a + 2), VMAX, rng.randrange(1 << 62), rng.randrange(0, 10)])
    ln = rng.choice([0, 1, 2, 8, 19, 20, 21, 22, 255, rng.randrange(0, 256)])
    return [kind, a, b, ln]


def fixed_fv(tier):
    out = []
    for kind in range(4):
        for a in (0, 1, T60 - 1, T60, T60 + 1, VMAX):
            out.append([kind, a, 0, 0])
    for a in (0, 1, 5, VMAX):
        for b in (0, max(0, a - 1), a, min(VMAX, a + 1), VMAX):
            for ln in (0, 1, 20, 21, 255):
                out.append([4, a, b, ln])
    return out


CL = 128 * 1024


def gen_crypto(rng):
    """CRYPTO frames that fill the buffer in order, out of order and around consumed + limit, mixed
    with reads of the TLS stack"""
    case = []
    con = 0      # consumed (estimate: exact as long as data is contiguous)
    hi = 0       # contiguous end
    mx = 0
    for _ in range(rng.choice([1, 2, 3, 5, 8, 12, 20])):
        r = rng.random()
        if r < 0.70:
            m = rng.random()
            if m < 0.45:        # in order, large: this is how the buffer fills up
                off, ln = hi, rng.choice([65536, 65536, 65535, 32768, 4096, 1000, rng.randrange(0, 65537)])
            elif m < 0.70:      # ending at consumed + limit -2 .. +2
                e = max(0, con + CL + rng.choice([-2, -1, 0, 0, 1, 1, 2]))
                ln = min(e, rng.choice([0, 1, 2, 100, 65536]))
                off = e - ln
            elif m < 0.80:      # ending at consumed + 4096 +- 1
                e = max(0, con + 4096 + rng.choice([-1, 0, 1]))
                ln = min(e, rng.choice([0, 1, 4096]))
                off = e - ln
            elif m < 0.90:      # out of order / overlapping
                off, ln = rng.randrange(0, mx + 5000), rng.randrange(0, 3000)
            else:
                off, ln = rng.choice([VMAX, VMAX - 1, VMAX - 65536, 1 << 40, rng.randrange(1 << 62)]), rng.choice([0, 1, 2, 65536])
            case += [1, off, ln]
            e = off + ln
            if e <= con + CL and e <= VMAX:
                mx = max(mx, e)
                if off <= hi:
                    hi = max(hi, e)
        else:
            n = rng.choice([0, 1, 100, 4096, 65536, 70000, CL, 1 << 30, rng.randrange(0, 200000)])
            case += [2, n]
            con = min(hi, con + n)
    return case


def fixed_crypto(tier):
    out = []
    full = [1, 0, 65536, 1, 65536, 65536]            # exactly 128 KiB in order
    for d in (-1, 0, 1, 2):
        out.append([1, 0, 65536, 1, 65536, 65535, 1, 131071, max(0, 1 + d)])
        out.append(full + [1, CL + d, 0] if CL + d >= 0 else full)
        out.append(full + [1, CL, max(0, d)])
        out.append(full + [1, CL, 1 + max(0, d), 2, 10])
        out.append(full + [2, 10, 1, CL, 10 + d, 1, CL + 10, 1])
        out.append([1, CL + d - 5, 5])
        out.append([1, 4096 + d - 1, 1])
    out.append(full + [1, CL, 65536])                # the third 64 KiB frame in order
    out.append(full + [1, CL, 1])
    out.append(full + [2, 1 << 30, 1, CL, 65536, 1, CL + 65536, 65536, 1, CL + 131072, 1])
    out.append([1, 100000, 31072, 1, 100000, 31073])
    out.append([1, VMAX, 1])
    out.append([1, VMAX, 0])
    out.append([1, VMAX - 65535, 65536])
    return out


def _tolerant_ok(comp, p):
    import os, subprocess
    from run_check import hexline, BUILD
    exe = os.path.join(BUILD, "ocaml", "C04", "model_C04")
    for key_c, key_o in (("minimal_case", "minimal_impl"), ("case", "impl")):
        if p.get(key_c) is None or p.get(key_o) is None:
            continue
        line = "%s | %s\n" % (hexline(p[key_c]), p[key_o])
        try:
            r = subprocess.run([exe, "judge", comp + "_tolerant"], input=line.encode(), stdout=subprocess.PIPE, timeout=60)
            if r.stdout.decode().strip() != "1":
                return False
        except Exception:
            return False
    return True


def classify(p):
    """a judge failure that the tolerant judgement of the component accepts is exactly the known
    class that judgement tolerates (rx: a RESET_STREAM whose final size is below data already
    received is accepted; st: a wrong-direction frame on an existing stream is accepted)"""
    if p.get("component") == "rx" and _tolerant_ok("rx", p):
        return "reset_final_size_below_received"
    if p.get("component") == "st" and _tolerant_ok("st", p):
        return "wrong_direction_stream_frame_accepted"
    return None


def hist_rx(cases, outs):
    h = {"cases_closed_by_flow_control_error": 0, "cases_closed_by_final_size_error": 0, "cases_not_closed": 0,
         "stream_window_0_or_1": 0}
    for c, o in zip(cases, outs):
        if c and c[0] in (0, 1):
            h["stream_window_0_or_1"] += 1
    import re
    for o in outs:
        t = o.split()
        # a closing error code is followed by the four post-mortem reads and nothing else
        if re.search(r"(^| )3( -1| [0-9a-f]+ [01] [0-9a-f]+( [0-9a-f]+ [0-9a-f]+)*){4}$", o):
            h["cases_closed_by_flow_control_error"] += 1
        elif re.search(r"(^| )6( -1| [0-9a-f]+ [01] [0-9a-f]+( [0-9a-f]+ [0-9a-f]+)*){4}$", o):
            h["cases_closed_by_final_size_error"] += 1
        else:
            h["cases_not_closed"] += 1
    return h


registry.register("C04", {
    "gen": ["C04"],
    "props_file": "props/C04.v",
    "extract_target": "extract/Ex_C04.vo",
    "harness": "h_transport",
    "axioms_allowed": [],
    "components": [
        {"name": "rx", "gen": gen_rx, "fixed": fixed_rx, "quick": 20000, "thorough": 500000,
         "valid": valid_rx,
         "nontrivial": lambda case, out: len(out) >= 2 and any(v not in (0, -1) for v in out),
         "histogram": hist_rx},
        {"name": "st", "gen": gen_st, "fixed": fixed_st, "quick": 20000, "thorough": 500000,
         "valid": valid_st,
         "nontrivial": lambda case, out: len(out) >= 2 and any(v not in (0, 1) for v in out),
         "histogram": hist_st},
        {"name": "crypto", "gen": gen_crypto, "fixed": fixed_crypto, "quick": 3000, "thorough": 100000,
         "valid": lambda c: all(0 <= v <= VMAX for v in c),
         "nontrivial": lambda case, out: len(out) >= 3,
         "histogram": lambda cases, outs: {"closed_by_crypto_buffer_exceeded": sum(1 for o in outs if o.split()[-1:] == ["d"]),
                                           "max_in_order_buffered": max([int(t, 16) for o in outs for t in o.split() if not t.startswith("-")] + [0])}},
        {"name": "fv", "gen": gen_fv, "fixed": fixed_fv, "quick": 5000, "thorough": 200000,
         "valid": lambda c: len(c) == 4 and all(0 <= v <= VMAX for v in c),
         "nontrivial": lambda case, out: out != [0],
         "histogram": lambda cases, outs: {"accepted": sum(1 for o in outs if o.strip() == "0"), "rejected": sum(1 for o in outs if o.strip() != "0")}},
    ],
    "classify": classify,
    "rule": "rx: corpus + boundary families (for stream windows 0,1,2,10,100 and connection windows 0,1,w,w+1,2w: frames ending at window-1, window, window+1 with lengths 0/1/all, with and without FIN, followed by read + transmit; two streams sharing the connection window; final-size games: FIN then more data / other FIN / smaller FIN, RESET_STREAM with equal, other, smaller and limit-edge sizes, empty stream, offsets at 2^62-1, u32 window edge, window sliding after read + MAX_* transmission + ack/loss, stop_sending then RESET_STREAM) + seeded random sequences of 1..30 operations over 1..4 streams (STREAM frames in order / ending at the stream limit +-2 / ending at the connection limit +-2 / overlapping / around the final size / huge offsets; RESET_STREAM at received size, final size +-2, limit +-2, random; reads of 0..2^20; stop_sending; transmit; ack; loss; STREAM_DATA_BLOCKED), windows incl. 0, 1 and 2^32-1; a case is non-trivial when something other than plain acceptance happens (bytes delivered, an error, a MAX_* frame); header = window of peer-initiated streams, window of locally opened streams (different values included), connection window. st: boundary families (every frame kind STREAM / STREAM+FIN / RESET_STREAM / STREAM_DATA_BLOCKED / MAX_STREAM_DATA / STOP_SENDING on every stream class -- peer bidi, peer uni, local bidi, local uni -- unopened, opened, at limit-1, limit, limit+1 for limits 0,1,5, both endpoint roles; closing c of L streams by FIN or RESET + read, then timers / transmit / loss / ack / 200 ms steps and frames at the moved limit) + seeded random sequences of 1..40 operations with indices clustered at the (moving) limit +-2 and at the number of locally opened streams +-1. crypto: CRYPTO frames filling the buffer in order with 64 KiB frames up to and beyond 128 KiB, frames ending at consumed + limit -2..+2 and consumed + 4096 +-1, out-of-order and overlapping frames, offsets near 2^62, reads of 0..2^30 bytes in between. fv: MAX_STREAMS / STREAMS_BLOCKED values around 2^60 and NEW_CONNECTION_ID (sequence, retire_prior_to, length) around retire_prior_to = sequence +-1 and lengths 0,1,20,21,255",
    "assumptions": [
        "the judge takes consumed + configured window (the value the endpoint is committed to advertise) as the advertised limit; between the largest MAX_* actually transmitted and that value a frame may be accepted or refused with FLOW_CONTROL_ERROR",
        "frames for a receive half that is closed (application stop_sending, accepted RESET_STREAM, read to the end) may be ignored instead of rejected",
        "st: a peer-initiated unidirectional stream counts as closed once the application has read its end (FIN -> finished, RESET_STREAM -> error); bidirectional streams are never closed in this component; between the largest MAX_STREAMS transmitted and closed + limit a stream-creating frame may be accepted or refused with STREAM_LIMIT_ERROR; time moves in 200 ms steps with min_rtt 100 ms",
        "RFC 9000 section 11: PROTOCOL_VIOLATION and INTERNAL_ERROR are accepted in place of any specific code when a rule is broken; another specific code is not",
        "streams are driven through the real stream::Manager by the hook verif_hooks/recv.rs with one server endpoint and four client-initiated bidirectional streams; packets, decryption and frame decoding are not part of this component",
    ],
    "trusted_base": ["no axioms: Print Assumptions reports 'Closed under the global context' for every C04 theorem",
                     "tools/genfam_C04.py (parser of space/*.rs for the frame permission matrix)",
                     "/repo verif_hooks/recv.rs (driver around stream::Manager), harness/h_transport/src/bin/C04.rs"],
    "explanation": "frame x packet-space permission matrix parsed from space/*.rs equals RFC 9000 Table 3 (theorem by vm_compute over the finite table); receive-side flow control / final size: Coq model of IncrementalValueSync + ReceiveStream + IncomingConnectionFlowController + Reassembler cursors with theorems C04_rx_rejects_exactly and C04_advertised_credit_bound, tied to the source by differential execution against the real stream manager; independent RFC judgement applied to every implementation output; stream limits / stream states: model of RemoteInitiated + TokenBucket + the manager's open/direction checks with theorems C04_streams_rejects_exactly and C04_max_streams_bound; frame value validators: model + proved judge (C04_fv_judge_model); CRYPTO receive buffer: model of CryptoStream::on_crypto_frame with theorems C04_crypto_rejects_exactly / C04_crypto_buffer_bound, limit generated from crypto_stream.rs",
})
