"""Translator family C01: constants of the stream reassembly buffer read from the current source."""
import re
from gen_consts import family, Family, read, strip_comments, eval_int, EvalError

RE = "quic/s2n-quic-core/src/buffer/reassembler.rs"


def _try(fn):
    try:
        return fn()
    except (EvalError, AttributeError, TypeError, ValueError):
        return None


@family
def gen_C01():
    f = Family("C01")
    src = read(RE)
    src = strip_comments(src) if src is not None else ""
    f.const("min_buffer_allocation_size", RE, r"const\s+MIN_BUFFER_ALLOCATION_SIZE\s*:\s*usize\s*=\s*([^;]+);")
    f.const("unknown_final_size", RE, r"const\s+UNKNOWN_FINAL_SIZE\s*:\s*u64\s*=\s*([^;]+);")
    # fn allocation_size: `for pow in (LO..=HI).rev()`
    body = _try(lambda: re.search(r"fn\s+allocation_size\s*\(\s*offset\s*:\s*u64\s*\)\s*->\s*usize\s*\{(.*?)\n    \}", src, re.S).group(1)) or ""
    m = re.search(r"for\s+pow\s+in\s+\(\s*(\w+)\s*\.\.=\s*(\w+)\s*\)\s*\.rev\(\)", body)
    f.n("alloc_pow_lo", _try(lambda: eval_int(m.group(1))), RE)
    f.n("alloc_pow_hi", _try(lambda: eval_int(m.group(2))), RE)
    # the ladder formulas the model transcribes: min_offset = MIN * (1 << pow)^2, size = MIN * (1 << pow),
    # threshold test `offset >= min_offset`, fall-through MIN; emitted only when every line is found as written
    need = [
        r"let\s+mult\s*=\s*1\s*<<\s*pow\s*;",
        r"let\s+square\s*=\s*mult\s*\*\s*mult\s*;",
        r"let\s+min_offset\s*=\s*\(\s*MIN_BUFFER_ALLOCATION_SIZE\s*\*\s*square\s*\)\s*as\s+u64\s*;",
        r"let\s+allocation_size\s*=\s*MIN_BUFFER_ALLOCATION_SIZE\s*\*\s*mult\s*;",
        r"if\s+offset\s*>=\s*min_offset\s*\{\s*return\s+allocation_size\s*;\s*\}",
        r"\}\s*MIN_BUFFER_ALLOCATION_SIZE\s*$",
    ]
    ok = bool(body) and all(re.search(p, body.strip(), re.S) for p in need)
    f.n("alloc_ladder_formula_as_transcribed", 1 if ok else None, RE)
    # align_offset: (offset / alignment) * alignment
    al = _try(lambda: re.search(r"fn\s+align_offset\s*\(.*?\)\s*->\s*u64\s*\{(.*?)\n    \}", src, re.S).group(1)) or ""
    ok2 = bool(re.search(r"\(\s*offset\s*/\s*\(\s*alignment\s+as\s+u64\s*\)\s*\)\s*\*\s*\(\s*alignment\s+as\s+u64\s*\)", al))
    f.n("align_offset_as_transcribed", 1 if ok2 else None, RE)
    return f
