"""C05 -- wire codecs: total, exact round trip, RFC 9000 layout."""
import registry

VMAX = (1 << 62) - 1


def venc(v, n=None):
    """python-side encoder used only to *generate* inputs (never to judge)"""
    if n is None:
        n = 1 if v < 1 << 6 else 2 if v < 1 << 14 else 4 if v < 1 << 30 else 8
    p = {1: 0, 2: 1, 4: 2, 8: 3}[n]
    x = (v & ((1 << (8 * n - 2)) - 1)) | (p << (8 * n - 2))
    return list(x.to_bytes(n, "big"))


def rbytes(rng, n):
    return [rng.randrange(256) for _ in range(n)]


# ------------------------------------------------------------------ varint
BOUNDS = sorted({max(0, min((1 << 64) - 1, (1 << k) + d)) for k in (0, 6, 8, 14, 16, 30, 32, 62, 63, 64) for d in (-2, -1, 0, 1, 2)})


def gen_varint(rng):
    r = rng.random()
    if r < 0.12:                        # encode_updated(placeholder, replacement <= placeholder)
        p = rng.choice(BOUNDS + [rv(rng), rv(rng)])
        p = min(p, VMAX)
        q = rng.choice([0, 1, 63, 64, 16383, 16384, p, p // 2, rng.randrange(p + 1)])
        return [2, p, min(q, p)]
    if r < 0.35:                        # encode
        k = rng.choice([3, 6, 7, 14, 15, 30, 31, 40, 62, 62, 63, 64])
        v = rng.randrange(1 << k)
        if rng.random() < 0.3:
            v = rng.choice(BOUNDS)
        return [1, v]
    if r < 0.6:                         # decode a valid encoding (any length) + tail, maybe cut
        n = rng.choice([1, 2, 4, 8])
        v = rng.randrange(1 << rng.randrange(0, 8 * n - 1))
        bs = venc(v, n) + rbytes(rng, rng.choice([0, 0, 1, 3, 9]))
        if rng.random() < 0.3:
            bs = bs[:rng.randrange(0, len(bs) + 1)]
        return [0] + bs
    return [0] + rbytes(rng, rng.choice([0, 1, 2, 3, 4, 5, 7, 8, 9, 12]))


def fixed_varint(tier):
    out = [[0]]
    for p in BOUNDS:
        if p <= VMAX:
            for q in BOUNDS + [0]:
                if q <= p:
                    out.append([2, p, q])
    for v in BOUNDS:
        out.append([1, v])
        if v <= VMAX:
            for n in (1, 2, 4, 8):
                if v < 1 << (8 * n - 2):
                    e = venc(v, n)
                    out.append([0] + e)
                    out.append([0] + e + [0xFF])
                    out.append([0] + e[:-1])
    # all 2^16 two-byte prefixes at several lengths
    lens = (2, 4, 8, 9) if tier == "quick" else (1, 2, 3, 4, 5, 7, 8, 9)
    for a in range(256):
        for b in range(256):
            for L in lens:
                out.append([0] + ([a, b] + [(a * 7 + b * 13 + i * 29) & 0xFF for i in range(L)])[:L])
    return out


def hist_varint(cases, outs):
    h = {"decode_ok": 0, "decode_err": 0, "encode_ok": 0, "encode_reject": 0, "len1": 0, "len2": 0, "len4": 0, "len8": 0}
    for c, o in zip(cases, outs):
        t = o.split()
        if not t:
            continue
        if c and c[0] == 2:
            h["encode_updated"] = h.get("encode_updated", 0) + 1
        elif c and c[0] == 0:
            if t[0] == "1":
                h["decode_ok"] += 1
                h["len" + str(int(t[2], 16))] = h.get("len" + str(int(t[2], 16)), 0) + 1
            else:
                h["decode_err"] += 1
        else:
            h["encode_ok" if t[0] == "1" else "encode_reject"] += 1
    return h



# ------------------------------------------------------------------ frames
def rv(rng, bits=None):
    """a varint value with an interesting magnitude"""
    if bits is None:
        bits = rng.choice([0, 3, 6, 7, 14, 15, 30, 31, 62])
    if bits == 0:
        return rng.choice([0, 1, 2, 63, 64, 16383, 16384, (1 << 30) - 1, 1 << 30, VMAX, VMAX - 1])
    return rng.randrange(1 << bits)


def ev(rng, v, p=0.15):
    """encode a varint, sometimes in a longer than necessary form"""
    short = 1 if v < 1 << 6 else 2 if v < 1 << 14 else 4 if v < 1 << 30 else 8
    if rng.random() < p:
        return venc(v, rng.choice([n for n in (1, 2, 4, 8) if n >= short]))
    return venc(v, short)


def elen(rng, d):
    return ev(rng, len(d)) + d


def gen_ack_body(rng, ecn):
    largest = rv(rng)
    first = rng.randrange(0, min(largest, 1 << rng.choice([2, 8, 40])) + 1) if rng.random() < 0.9 else largest + rng.choice([0, 1])
    out = ev(rng, largest) + ev(rng, rv(rng, rng.choice([6, 14, 30])))
    n = rng.choice([0, 0, 1, 1, 2, 3, 5, 9])
    body = []
    smallest = largest - first
    cnt = 0
    for _ in range(n):
        if smallest < 2:
            if rng.random() < 0.5:
                break
        r = rng.random()
        gap = smallest - 2 if r < 0.15 else smallest - 1 if r < 0.2 else rng.randrange(0, max(1, min(smallest, 300)))
        gap = max(0, gap)
        nl = smallest - gap - 2
        r = rng.random()
        ln = nl if r < 0.15 else nl + 1 if r < 0.2 else rng.randrange(0, max(1, min(max(nl, 0) + 1, 300)))
        ln = max(0, ln)
        body += ev(rng, gap) + ev(rng, ln)
        smallest = nl - ln
        cnt += 1
        if smallest < 0:
            smallest = 0
    if rng.random() < 0.05:
        cnt = max(0, cnt + rng.choice([-1, 1, 1 << 20, VMAX - cnt]))
    out += ev(rng, cnt) + ev(rng, first) + body
    if ecn:
        out += ev(rng, rv(rng)) + ev(rng, rv(rng)) + ev(rng, rv(rng))
    return out


def gen_frame(rng, last_ok=True):
    """one grammar-generated frame (mostly valid; semantic edge values are common)"""
    t = rng.choice([0, 1, 2, 3, 4, 5, 6, 7, 8, 9, 10, 11, 12, 13, 14, 15, 16, 17, 18, 19, 20, 21, 22, 23, 24, 24, 25, 26, 27,
                    28, 29, 30, 0x30, 0x31, 0xdc0000, 0xdc0002, 2, 3, 8, 10, 14])
    if t == 0:
        return [0] * rng.choice([1, 1, 2, 5, 17])
    if t in (1, 30):
        return [t]
    if t in (2, 3):
        return [t] + gen_ack_body(rng, t == 3)
    if t == 4:
        return [t] + ev(rng, rv(rng)) + ev(rng, rv(rng)) + ev(rng, rv(rng))
    if t in (5, 17, 21):
        return [t] + ev(rng, rv(rng)) + ev(rng, rv(rng))
    if t == 6:
        return [t] + ev(rng, rv(rng)) + elen(rng, rbytes(rng, rng.choice([0, 1, 5, 30, 70])))
    if t == 7:
        return [t] + elen(rng, rbytes(rng, rng.choice([0, 1, 1, 5, 30, 64, 70])))
    if 8 <= t <= 15:
        if not last_ok:
            t |= 2
        out = [t] + ev(rng, rv(rng))
        if t & 4:
            out += ev(rng, rng.choice([0, rv(rng), VMAX, VMAX - 3]))
        d = rbytes(rng, rng.choice([0, 1, 5, 30, 63, 64, 70]))
        return out + (elen(rng, d) if t & 2 else d)
    if t in (16, 20, 25):
        return [t] + ev(rng, rv(rng))
    if t in (18, 19, 22, 23):
        v = rng.choice([rv(rng), 1 << 60, (1 << 60) + 1, (1 << 60) - 1, rv(rng, 62)])
        return [t] + ev(rng, v)
    if t == 24:
        seq = rv(rng)
        r = rng.random()
        rpt = seq if r < 0.2 else seq + 1 if r < 0.3 else rng.randrange(0, seq + 1)
        rpt = min(rpt, VMAX)
        ln = rng.choice([0, 1, 1, 4, 8, 8, 16, 20, 20, 21, 255, rng.randrange(256)])
        n = ln if rng.random() < 0.9 else rng.randrange(0, 24)
        return [t] + ev(rng, seq) + ev(rng, rpt) + [ln] + rbytes(rng, n) + rbytes(rng, 16)
    if t in (26, 27):
        return [t] + rbytes(rng, 8)
    if t == 28:
        return [t] + ev(rng, rv(rng)) + ev(rng, rv(rng)) + elen(rng, rbytes(rng, rng.choice([0, 0, 1, 12, 64])))
    if t == 29:
        return [t] + ev(rng, rv(rng)) + elen(rng, rbytes(rng, rng.choice([0, 0, 1, 12, 64])))
    if t in (0x30, 0x31):
        if not last_ok:
            t = 0x31
        d = rbytes(rng, rng.choice([0, 1, 5, 40]))
        return [t] + (elen(rng, d) if t & 1 else d)
    if t == 0xdc0000:
        cnt = rng.choice([0, 1, 1, 2, 3, 5])
        n = cnt if rng.random() < 0.9 else cnt + rng.choice([-1, 1])
        tag = venc(t, rng.choice([4, 4, 4, 8]))
        return tag + ev(rng, cnt) + rbytes(rng, max(0, n) * 16 + rng.choice([0, 0, 0, 1, 15]))
    tag = venc(0xdc0002, rng.choice([4, 4, 4, 8]))
    return tag + rbytes(rng, 2)


def mutate(rng, bs):
    bs = list(bs)
    for _ in range(rng.choice([1, 1, 2, 3])):
        r = rng.random()
        if not bs:
            bs.append(rng.randrange(256))
        elif r < 0.5:
            i = rng.randrange(len(bs))
            bs[i] = rng.choice([bs[i] ^ (1 << rng.randrange(8)), rng.randrange(256), 0, 0xFF, (bs[i] + 1) & 0xFF, (bs[i] - 1) & 0xFF])
        elif r < 0.65:
            bs.insert(rng.randrange(len(bs) + 1), rng.randrange(256))
        elif r < 0.8:
            del bs[rng.randrange(len(bs))]
        else:
            bs = bs[:rng.randrange(len(bs))]
    return bs


def gen_frames(rng):
    r = rng.random()
    if r < 0.5:                       # grammar-generated sequence
        n = rng.choice([1, 1, 2, 3, 4])
        bs = []
        for i in range(n):
            bs += gen_frame(rng, last_ok=(i == n - 1))
        return [0] + bs
    if r < 0.85:                      # 1-3 byte mutations of a generated sequence
        n = rng.choice([1, 1, 2, 3])
        bs = []
        for i in range(n):
            bs += gen_frame(rng, last_ok=(i == n - 1))
        return [0] + mutate(rng, bs)
    return [0] + rbytes(rng, rng.choice([1, 2, 3, 5, 8, 13, 21, 40]))


def fixed_frames(tier):
    import random
    rng = random.Random(505)
    out = [[0]]
    tail = [0x01, 0x00, 0x3f, 0xff, 0x80, 0x01, 0x02, 0x03, 0x04, 0x05, 0x06, 0x07, 0x08, 0x09, 0x0a, 0x0b, 0x0c, 0x0d,
            0x0e, 0x0f, 0x10, 0x11, 0x12, 0x13, 0x14, 0x15, 0x16, 0x17, 0x18, 0x19, 0x1a, 0x1b]
    # every first byte, with several tails and every truncation of a short tail
    for b in range(256):
        for L in (0, 1, 2, 3, 4, 8, 9, 17, 27, 32):
            out.append([0, b] + tail[:L])
        out.append([0, b] + [0] * 20)
        out.append([0, b] + [1] * 30)
        out.append([0, b] + [0x40, 0x00] * 12)
    # every two-byte frame type 0x40xx / 0x41xx and the extension tags in every encoding
    for b in range(256):
        out.append([0, 0x40, b] + tail[:12])
    for tag in (0xdc0000, 0xdc0001, 0xdc0002, 0xdc0003, 0x00, 0x01, 0x1e, 0x30, 0x3f, 0x40):
        for n in (1, 2, 4, 8):
            if tag < 1 << (8 * n - 2):
                for L in (0, 1, 2, 3, 17, 18, 33, 40):
                    out.append([0] + venc(tag, n) + ([1] + tail)[:L])
    # semantic boundaries
    for t in (18, 19, 22, 23):
        for v in ((1 << 60) - 1, 1 << 60, (1 << 60) + 1, VMAX, 0):
            out.append([0, t] + venc(v) + [1])
    for ln in range(0, 24):
        for extra in (-1, 0, 1):
            out.append([0, 24] + venc(7) + venc(7) + [ln] + [0xAB] * max(0, ln + 16 + extra))
    for seq, rpt in ((0, 0), (0, 1), (5, 5), (5, 6), (5, 4), (VMAX, VMAX), (VMAX - 1, VMAX)):
        out.append([0, 24] + venc(seq) + venc(rpt) + [4] + [1, 2, 3, 4] + [9] * 16 + [1])
    for n in (0, 1, 2):
        out.append([0, 7] + venc(n) + [0x77] * n + [1])
        out.append([0, 7] + venc(n, 2) + [0x77] * n)
    # ACK: first range / gap / length at and just beyond the largest values that do not go negative
    for largest in (0, 1, 2, 3, 10, VMAX):
        for first in sorted({0, largest, largest + 1, max(0, largest - 1)}):
            if first > VMAX:
                continue
            out.append([0, 2] + venc(largest) + venc(0) + venc(0) + venc(first) + [1])
            sm = largest - first
            for gap in sorted({0, max(0, sm - 3), max(0, sm - 2), max(0, sm - 1), sm}):
                nl = sm - gap - 2
                for ln in sorted({0, max(0, nl), max(0, nl + 1), max(0, nl - 1)}):
                    if gap <= VMAX and ln <= VMAX:
                        out.append([0, 3] + venc(largest) + venc(9) + venc(1) + venc(first) + venc(gap) + venc(ln) + [1, 2, 3, 1])
    for cnt in (0, 1, 2, 3, VMAX, VMAX - 1):
        out.append([0, 2] + venc(100) + venc(0) + venc(cnt) + venc(0) + [0, 0] * 3)
    # stream frames: all eight types, id / offset / length at the 2^62 limit
    for t in range(8, 16):
        for sid in (0, 3, VMAX):
            for off in (0, 1, VMAX):
                for d in ([], [0xEE], [0xEE] * 63, [0xEE] * 64):
                    bs = [t] + venc(sid) + (venc(off) if t & 4 else [])
                    bs += (venc(len(d)) + d + [1]) if t & 2 else d
                    out.append([0] + bs)
        out.append([0, t] + venc(1) + (venc(0) if t & 4 else []) + venc(VMAX) + [1, 2, 3])
        out.append([0, t] + venc(1) + (venc(0) if t & 4 else []) + venc(4) + [1, 2, 3])
    for cnt in (0, 1, 2, 4092, 4093):
        for extra in (-1, 0, 1):
            for n in (4, 8):
                out.append([0] + venc(0xdc0000, n) + venc(cnt) + [0x11] * max(0, cnt * 16 + extra))
    # every prefix of a sample of generated frames (truncation anywhere must give an error or a shorter parse)
    k = 150 if tier == "quick" else 1500
    for _ in range(k):
        bs = gen_frame(rng) + gen_frame(rng)
        for i in range(len(bs)):
            out.append([0] + bs[:i])
    return out


KIND_NAMES = {0: "PADDING", 1: "PING", 2: "ACK", 3: "ACK_ECN", 4: "RESET_STREAM", 5: "STOP_SENDING", 6: "CRYPTO", 7: "NEW_TOKEN",
              8: "STREAM", 16: "MAX_DATA", 17: "MAX_STREAM_DATA", 18: "MAX_STREAMS", 20: "DATA_BLOCKED", 21: "STREAM_DATA_BLOCKED",
              22: "STREAMS_BLOCKED", 24: "NEW_CONNECTION_ID", 25: "RETIRE_CONNECTION_ID", 26: "PATH_CHALLENGE", 27: "PATH_RESPONSE",
              28: "CONNECTION_CLOSE", 29: "CONNECTION_CLOSE_APP", 30: "HANDSHAKE_DONE", 48: "DATAGRAM", 0xdc0000: "DC_TOKENS",
              0xdc0002: "MTU_PROBING_COMPLETE"}


def hist_frames(cases, outs):
    h = {"first_frame": {}, "ends_ok": 0, "ends_error": 0, "error_at_first_frame": 0, "multi_frame": 0}
    for o in outs:
        t = o.split()
        if not t:
            continue
        if t[-1] == "2":
            h["ends_ok"] += 1
        elif t[-1] == "0":
            h["ends_error"] += 1
        if t[0] == "1" and len(t) > 1:
            k = KIND_NAMES.get(int(t[1], 16), t[1])
            h["first_frame"][k] = h["first_frame"].get(k, 0) + 1
        elif t[0] == "0":
            h["error_at_first_frame"] += 1
    return h


def frames_nontrivial(case, out):
    return len(out) >= 2 and out[0] == 1



# ------------------------------------------------------------------ packet headers
def cid(rng, lim=20):
    r = rng.random()
    n = rng.choice([0, 1, 4, 8, 8, 16, 20, 20]) if r < 0.85 else rng.choice([21, 22, 40, 255, rng.randrange(256)])
    if lim > 20 and r > 0.95:
        n = rng.choice([21, 64, 255])
    return n


def gen_packet(rng, dl):
    """one grammar-generated packet; returns (bytes, ends_datagram)"""
    k = rng.choice(["short", "vn", "initial", "initial", "zero", "hs", "hs", "retry"])
    low = rng.randrange(16)
    ver = rng.choice([1, 1, 1, 0x6b3343cf, 0xff00001d, rng.randrange(1, 1 << 32), 0xffffffff])
    if k == "short":
        b = 0x40 | rng.randrange(64)
        return [b] + rbytes(rng, dl) + rbytes(rng, rng.choice([0, 1, 5, 20, 40])), True
    if k == "vn":
        b = 0x80 | rng.randrange(128)
        d, s_ = cid(rng), cid(rng)
        n = rng.choice([1, 1, 2, 3, 8])
        vs = rbytes(rng, 4 * n)
        if rng.random() < 0.15:
            vs = rbytes(rng, rng.choice([0, 1, 2, 3, 5, 6, 7]))
        return [b, 0, 0, 0, 0, d] + rbytes(rng, d) + [s_] + rbytes(rng, s_) + vs, True
    hdr = lambda ty: [0xC0 | (ty << 4) | low] + list(ver.to_bytes(4, "big"))
    body = rbytes(rng, rng.choice([0, 1, 4, 20, 21, 50]))
    ln = len(body)
    if rng.random() < 0.1:
        ln = max(0, ln + rng.choice([-1, 1, 1, 1000]))
    if k == "initial":
        d, s_ = cid(rng, 255), cid(rng, 255)
        tok = rbytes(rng, rng.choice([0, 0, 0, 1, 16, 40]))
        return hdr(0) + [d] + rbytes(rng, d) + [s_] + rbytes(rng, s_) + elen(rng, tok) + ev(rng, ln, 0.3) + body, False
    if k in ("zero", "hs"):
        d, s_ = cid(rng), cid(rng)
        return hdr(1 if k == "zero" else 2) + [d] + rbytes(rng, d) + [s_] + rbytes(rng, s_) + ev(rng, ln, 0.3) + body, False
    d, s_ = cid(rng), cid(rng)
    tok = rbytes(rng, rng.choice([0, 1, 1, 8, 30]))
    tag = rbytes(rng, rng.choice([16, 16, 16, 16, 15, 0]))
    return hdr(3) + [d] + rbytes(rng, d) + [s_] + rbytes(rng, s_) + tok + tag, True


def gen_packets(rng):
    dl = rng.choice([0, 4, 8, 8, 8, 16, 20, 20, 21, 22])
    r = rng.random()
    if r < 0.9:
        bs = []
        for _ in range(rng.choice([1, 1, 1, 2, 3])):
            p, end = gen_packet(rng, dl)
            bs += p
            if end:
                break
        if r >= 0.5:
            bs = mutate(rng, bs)
        return [dl] + bs
    return [dl] + rbytes(rng, rng.choice([1, 2, 5, 6, 7, 8, 12, 30, 60]))


def fixed_packets(tier):
    import random
    rng = random.Random(1705)
    out = [[8], [0]]
    tail = [7, 1, 2, 3, 4, 5, 6, 7, 3, 9, 9, 9, 2, 8, 8, 0, 4, 1, 2, 3, 4, 5, 6, 7, 8, 9, 10, 11, 12, 13, 14, 15, 16, 17, 18, 19, 20]
    # every first byte x {version 0, version 1, unknown version} x several lengths, and short-header dcid lengths 0..22
    for b in range(256):
        for ver in ([0, 0, 0, 0], [0, 0, 0, 1], [0xFA, 0xCE, 0xB0, 0x0C]):
            for L in (0, 1, 2, 5, 6, 9, 22, 37):
                out.append([8, b] + ver + tail[:L])
        for dl in (0, 1, 8, 20, 21, 22):
            for L in (dl - 1, dl, dl + 1):
                if L >= 0:
                    out.append([dl, b] + [0x5A] * L)
    # connection id lengths around the 20 byte limit in every long packet type, and truncations
    for ty in range(4):
        for d in (0, 1, 19, 20, 21, 255):
            for s_ in (0, 20, 21):
                base = [0xC0 | (ty << 4)] + [0, 0, 0, 1] + [d] + [0xD1] * d + [s_] + [0x5C] * s_
                rest = {0: [0, 2, 9, 9], 1: [2, 9, 9], 2: [2, 9, 9], 3: [0xAA] + [0x7A] * 16}[ty]
                out.append([8] + base + rest)
                out.append([8] + base + rest + [0x41, 1, 2])
                out.append([8] + base + rest[:-1])
        for d in (0, 20, 21):
            out.append([8, 0x80 | (ty << 4)] + [0, 0, 0, 0] + [d] + [0xD1] * d + [4, 1, 2, 3, 4] + [0, 0, 0, 1])
    # Length field at, below and above what is present; non-shortest Length encodings
    for ty in (0, 1, 2):
        for present in (0, 1, 5, 64):
            for ln in sorted({0, max(0, present - 1), present, present + 1, 16383, VMAX}):
                for n in (1, 2, 4, 8):
                    if ln < 1 << (8 * n - 2):
                        base = [0xC3 | (ty << 4)] + [0, 0, 0, 1] + [4, 1, 2, 3, 4] + [0] + ([1, 0x99] if ty == 0 else [])
                        out.append([8] + base + venc(ln, n) + [0xEE] * present)
    # retry: token / tag boundary
    for n in range(0, 20):
        out.append([8, 0xF0, 0, 0, 0, 1, 0, 0] + [0x77] * n)
    k = 100 if tier == "quick" else 1000
    for _ in range(k):
        dl = 8
        bs = gen_packet(rng, dl)[0] + gen_packet(rng, dl)[0]
        for i in range(len(bs)):
            out.append([dl] + bs[:i])
    return out


def hist_packets(cases, outs):
    names = {0: "short", 1: "version_negotiation", 2: "initial", 3: "zero_rtt", 4: "handshake", 5: "retry"}
    h = {"first_packet": {}, "ends_ok": 0, "ends_error": 0, "coalesced": 0}
    for o in outs:
        t = o.split()
        if not t:
            continue
        if t[-1] == "2":
            h["ends_ok"] += 1
        elif t[-1] == "0":
            h["ends_error"] += 1
        if t[0] == "1" and len(t) > 1:
            k = names.get(int(t[1], 16), t[1])
            h["first_packet"][k] = h["first_packet"].get(k, 0) + 1
    return h


def gen_pn(rng):
    largest = rv(rng, rng.choice([0, 6, 14, 30, 40, 62]))
    r = rng.random()
    if r < 0.6:
        d = rng.choice([0, 1, 2, 127, 128, 129, 32767, 32768, 32769, (1 << 23) - 1, 1 << 23, (1 << 23) + 1, (1 << 31) - 1, 1 << 31,
                        (1 << 31) + 1, rng.randrange(1 << 8), rng.randrange(1 << 16), rng.randrange(1 << 24), rng.randrange(1 << 33)])
        pn = largest + d
    elif r < 0.7:
        pn = largest - rng.randrange(0, 5)
    else:
        pn = rv(rng, rng.choice([6, 14, 30, 40, 62]))
    return [largest, max(0, min(VMAX, pn))]


def fixed_pn(tier):
    out = []
    for largest in (0, 1, 255, 256, 0xabe8bc, 0xa82f30ea, VMAX - (1 << 31), VMAX - 1, VMAX):
        for d in (-1, 0, 1, 127, 128, 32767, 32768, (1 << 23) - 1, 1 << 23, (1 << 31) - 1, 1 << 31, 1 << 40):
            pn = largest + d
            if 0 <= pn <= VMAX:
                out.append([largest, pn])
    out.append([0xabe8bc, 0xac5c02])
    out.append([0xabe8bc, 0xace8fe])
    return out



# ------------------------------------------------------------------ transport parameter block grammar
def unknown_id(rng):
    """ids no implementation knows: 2^30 <= id < 2^62 (reserved 31*N+27 ids among them)"""
    if rng.random() < 0.5:
        return 31 * rng.randrange(1 << 26, 1 << 56) + 27
    return rng.randrange(1 << 30, 1 << 62)


def tp_block(rng, n):
    params = []
    for _ in range(n):
        v = rbytes(rng, rng.choice([0, 0, 1, 2, 8, 16, 40, 70]))
        params.append(venc(unknown_id(rng), 8) + ev(rng, len(v), 0.3) + v)
    return params


def gen_tparams(rng):
    side = rng.randrange(2)
    params = tp_block(rng, rng.choice([0, 1, 1, 2, 3, 5]))
    bs = [b for p in params for b in p]
    r = rng.random()
    if r < 0.45 or not bs:
        return [side] + bs
    if r < 0.8:                                      # a prefix: the same parse, cut short
        return [side] + bs[:rng.randrange(len(bs))]
    # the last parameter announces more bytes than remain
    head = [b for p in params[:-1] for b in p]
    v = rbytes(rng, rng.choice([0, 1, 8]))
    over = rng.choice([1, 2, 63, 64, 16383, 16384, VMAX - len(v)])
    return [side] + head + venc(unknown_id(rng), 8) + venc(len(v) + over) + v


def fixed_tparams(tier):
    import random
    rng = random.Random(1805)
    out = [[0], [1]]
    for side in (0, 1):
        for _ in range(20 if tier == "quick" else 200):
            bs = [b for p in tp_block(rng, 3) for b in p]
            for i in range(len(bs) + 1):
                out.append([side] + bs[:i])
    return out


KNOWN_TP = [0, 1, 2, 3, 4, 5, 6, 7, 8, 9, 10, 11, 12, 13, 14, 15, 16, 0x20, 0xdc0000, 0xdc0002]


def gen_tp_total(rng):
    side = rng.randrange(2)
    r = rng.random()
    if r < 0.15:
        return [side] + rbytes(rng, rng.choice([1, 2, 3, 5, 9, 17, 40]))
    bs = []
    for _ in range(rng.choice([1, 2, 3, 5, 8])):
        pid = rng.choice(KNOWN_TP) if rng.random() < 0.85 else rng.choice([17, 18, 0x1f, 0x21, 0x2ab2, 0xdc0001, unknown_id(rng)])
        k = rng.random()
        if k < 0.6:
            v = venc(rv(rng))
        elif k < 0.7:
            v = []
        else:
            v = rbytes(rng, rng.choice([1, 2, 4, 8, 16, 20, 21, 41, 45]))
        bs += ev(rng, pid, 0.1) + ev(rng, len(v), 0.1) + v
    if r > 0.6:
        bs = mutate(rng, bs)
    return [side] + bs



# ------------------------------------------------------------------ packet number reconstruction (RFC 9000 A.3)
PN_WINS = [1 << 8, 1 << 16, 1 << 24, 1 << 32]


def clampv(v):
    return max(0, min(VMAX, v))


def gen_pnx(rng):
    r = rng.random()
    base = rng.choice([0, 0, VMAX, VMAX, rv(rng, rng.choice([8, 16, 24, 32, 40, 62]))])
    near = lambda: clampv(base + rng.choice([-1, 1]) * rng.choice([0, 1, 2, rng.randrange(1 << 8), rng.randrange(1 << 16), rng.randrange(1 << 24), rng.randrange(1 << 33)]))
    if r < 0.45:
        tag = rng.randrange(4)
        w = 1 << (8 * (tag + 1))
        t = rng.choice([0, 1, w - 1, w // 2, w // 2 - 1, w // 2 + 1, rng.randrange(w), near() % w])
        return [0, near(), tag, t]
    pn = near()
    la = clampv(pn - rng.choice([0, 1, 2, 127, 128, 32767, 32768, (1 << 23) - 1, 1 << 23, (1 << 31) - 1, 1 << 31, rng.randrange(1 << 8), rng.randrange(1 << 16), rng.randrange(1 << 32)]))
    d = 2 * (pn - la)
    w = PN_WINS[0] if d <= 255 else PN_WINS[1] if d <= 65535 else PN_WINS[2] if d <= 16777215 else PN_WINS[3]
    k = rng.random()
    if k < 0.6:     # a receiver state inside the A.3 window: must give pn back
        L = clampv(pn - 1 + rng.choice([0, 1, -1, w // 2 - 1, -(w // 2), w // 2 - 2, -(w // 2) + 1, rng.randrange(-(w // 2), w // 2)]))
    else:
        L = near()
    return [1, la, pn, L]


def fixed_pnx(tier):
    out = []
    # dense around 2^62 - 1 and around 0: every window size, truncated values and largest at the edges
    edges = [0, 1, 2, 3]
    for tag in range(4):
        w = 1 << (8 * (tag + 1))
        hw = w // 2
        offs = sorted({0, 1, 2, hw - 2, hw - 1, hw, hw + 1, hw + 2, w - 2, w - 1, w, w + 1, w + 2, 2 * w - 1, 2 * w, 2 * w + 1})
        ts = sorted({0, 1, 2, hw - 1, hw, hw + 1, w - 3, w - 2, w - 1})
        for o in offs:
            for L in (o, VMAX - o):
                if 0 <= L <= VMAX:
                    for t in ts:
                        out.append([0, L, tag, t])
                    # the truncation of numbers just around L
                    for d in (-hw - 1, -hw, -hw + 1, -1, 0, 1, 2, hw - 1, hw, hw + 1, hw + 2):
                        v = L + 1 + d
                        if 0 <= v <= VMAX:
                            out.append([0, L, tag, v % w])
        # encoder -> bytes -> decoder, receiver anywhere in (and just outside) the window
        for pn in (VMAX, VMAX - 1, VMAX - hw, VMAX - w, VMAX - w + 1, w, w - 1, hw, 1, 0):
            for dla in (0, 1, hw // 2 - 1, hw // 2, (hw - 1) // 2):
                la = pn - dla
                if la < 0:
                    continue
                for dl in (-hw - 1, -hw, -hw + 1, -2, -1, 0, 1, hw - 2, hw - 1, hw, hw + 1):
                    L = pn - 1 + dl
                    if 0 <= L <= VMAX:
                        out.append([1, la, pn, L])
    out.append([0, VMAX - 1, 0, 0])
    return out



# ------------------------------------------------------------------ capacity helpers (try_fit)
def vlen_py(v):
    return 1 if v < 1 << 6 else 2 if v < 1 << 14 else 4 if v < 1 << 30 else 8


FIT_LENS = [0, 1, 2, 62, 63, 64, 65, 66, 16382, 16383, 16384, 16385, 16386, (1 << 30) - 2, (1 << 30) - 1, 1 << 30, (1 << 30) + 1, (1 << 30) + 2]
FIT_IDS = [0, 4, 63, 64, 16383, 16384, (1 << 30) - 1, 1 << 30, VMAX]


def fit_fixed(kind, sid, off):
    return 1 + vlen_py(off) if kind == 1 else 1 + vlen_py(sid) + (vlen_py(off) if off else 0)


def gen_fit(rng):
    kind = rng.randrange(2)
    sid = rng.choice(FIT_IDS) if rng.random() < 0.7 else rv(rng)
    off = rng.choice([0, 0, 1, 63, 64, 16384, 1 << 30, VMAX]) if rng.random() < 0.7 else rv(rng)
    dlen = rng.choice(FIT_LENS) if rng.random() < 0.7 else rng.randrange(1 << rng.choice([4, 7, 10, 15, 20, 31]))
    fixed = fit_fixed(kind, sid, off)
    r = rng.random()
    if r < 0.5:       # around header + prefix + payload
        cap = fixed + dlen + rng.choice([0, 1, 2, 4, 8]) + rng.randrange(-4, 5)
    elif r < 0.7:     # the remaining capacity itself at a varint boundary
        cap = fixed + rng.choice(FIT_LENS) + rng.randrange(-3, 4)
    elif r < 0.8:     # around the header
        cap = fixed + rng.randrange(-3, 4)
    else:
        cap = rng.randrange(1 << rng.choice([3, 6, 11, 14, 16, 31]))
    return [kind, sid, off, dlen, rng.randrange(2), max(0, cap)]


def fixed_fit(tier):
    out = []
    for kind in (0, 1):
        for sid in ((0, 4, 16384, VMAX) if kind == 0 else (0,)):
            for off in (0, 1, 16384, VMAX):
                fixed = fit_fixed(kind, sid, off)
                for cap in range(0, fixed + 4):
                    for dlen in (0, 1, 100):
                        out.append([kind, sid, off, dlen, 0, cap])
                for dlen in FIT_LENS:
                    # capacities within +-3 of header+payload, of header+prefix+payload for every prefix size,
                    # and of every varint boundary of the remaining capacity
                    caps = set()
                    for extra in (0, 1, 2, 4, 8):
                        for d in range(-3, 4):
                            caps.add(fixed + dlen + extra + d)
                    for b in (64, 16384, 1 << 30):
                        for d in range(-3, 4):
                            caps.add(fixed + b + d)
                            caps.add(fixed + b + vlen_py(b) + d)
                    for cap in sorted(caps):
                        if cap >= 0:
                            out.append([kind, sid, off, dlen, 1 if dlen % 2 else 0, cap])
    out.append([0, 4, 0, 64, 0, 67])
    return out


def hist_fit(cases, outs):
    h = {"stream_ok": 0, "stream_err": 0, "crypto_ok": 0, "crypto_err": 0, "last_frame": 0, "trimmed": 0, "materialized": 0}
    for c, o in zip(cases, outs):
        t = o.split()
        if not t:
            continue
        k = "stream" if c[0] == 0 else "crypto"
        if t[0] == "1":
            h[k + "_ok"] += 1
            if t[2] == "1":
                h["last_frame"] += 1
            if int(t[1], 16) < c[3]:
                h["trimmed"] += 1
            if t[4] != "-1":
                h["materialized"] += 1
        else:
            h[k + "_err"] += 1
    return h



# ------------------------------------------------------------------ short header first byte (17.3.1)
def gen_shortbits(rng):
    if rng.random() < 0.6:
        return [0, rng.randrange(64), rng.choice([0, 1, 2, 100, 127, rng.randrange(128)])]
    return [1, rng.randrange(2), rng.randrange(2), rng.randrange(4)]


def fixed_shortbits(tier):
    out = []
    for b in range(64):                     # every combination of spin / reserved / key phase / pn length bits
        for pn in (0, 1, 77, 127):
            out.append([0, b, pn])
    for spin in (0, 1):                     # the crate's own encoder: both key phases, every pn length
        for kp in (0, 1):
            for sel in range(4):
                out.append([1, spin, kp, sel])
    return out


registry.register("C05", {
    "gen": ["C05"],
    "props_file": "props/C05.v",
    "extract_target": "extract/Ex_C05.vo",
    "harness": "h_core",
    "axioms_allowed": [],
    "components": [
        {"name": "varint", "gen": gen_varint, "fixed": fixed_varint, "quick": 30000, "thorough": 500000,
         "valid": lambda c: len(c) >= 1 and c[0] in (0, 1, 2) and (all(0 <= b <= 255 for b in c[1:]) if c[0] == 0 else (len(c) == 2 and 0 <= c[1] < 1 << 64) if c[0] == 1 else (len(c) == 3 and 0 <= c[2] <= c[1] <= VMAX)),
         "nontrivial": lambda case, out: len(case) >= 2,
         "histogram": hist_varint},
        {"name": "frames", "gen": gen_frames, "fixed": fixed_frames, "quick": 60000, "thorough": 600000,
         "valid": lambda c: len(c) >= 1 and all(0 <= b <= 255 for b in c[1:]),
         "nontrivial": frames_nontrivial,
         "histogram": hist_frames},
        {"name": "packets", "gen": gen_packets, "fixed": fixed_packets, "quick": 40000, "thorough": 500000,
         "valid": lambda c: len(c) >= 1 and 0 <= c[0] <= 64 and all(0 <= b <= 255 for b in c[1:]),
         "nontrivial": lambda case, out: len(out) >= 2 and out[0] == 1,
         "histogram": hist_packets},
        {"name": "pn", "gen": gen_pn, "fixed": fixed_pn, "quick": 10000, "thorough": 200000,
         "valid": lambda c: len(c) == 2 and all(0 <= v <= VMAX for v in c),
         "nontrivial": lambda case, out: len(out) >= 2 and out[0] == 1},
        {"name": "pnx", "gen": gen_pnx, "fixed": fixed_pnx, "quick": 30000, "thorough": 500000,
         "valid": lambda c: len(c) == 4 and c[0] in (0, 1) and all(0 <= v <= VMAX for v in c[1:]),
         "nontrivial": lambda case, out: len(out) >= 1 and (case[0] == 0 or out[0] == 1)},
        {"name": "fit", "gen": gen_fit, "fixed": fixed_fit, "quick": 30000, "thorough": 500000,
         "valid": lambda c: len(c) == 6 and c[0] in (0, 1) and all(0 <= v <= VMAX for v in c[1:3]) and 0 <= c[3] < 1 << 40 and c[4] in (0, 1) and 0 <= c[5] < 1 << 40,
         "nontrivial": lambda case, out: len(out) >= 2 and out[0] == 1,
         "histogram": hist_fit},
        {"name": "shortbits", "gen": gen_shortbits, "fixed": fixed_shortbits, "quick": 3000, "thorough": 30000,
         "valid": lambda c: (len(c) == 3 and c[0] == 0 and 0 <= c[1] < 64 and 0 <= c[2] < 128) or (len(c) == 4 and c[0] == 1 and all(0 <= v < 4 for v in c[1:])),
         "nontrivial": lambda case, out: len(out) >= 1,
         "histogram": lambda cases, outs: {"accepted": sum(1 for o in outs if " 0 " in " " + o + " " and len(o.split()) >= 5), "protocol_violation": sum(1 for o in outs if o.split()[-1:] == ["3"])}},
        {"name": "tparams", "gen": gen_tparams, "fixed": fixed_tparams, "quick": 20000, "thorough": 300000,
         "valid": lambda c: False,      # no shrinking: deleting bytes could turn value bytes into known ids (C14's domain)
         "nontrivial": lambda case, out: len(case) >= 10,
         "histogram": lambda cases, outs: {"accepted": sum(1 for o in outs if o.strip() == "1"), "malformed": sum(1 for o in outs if o.strip() == "0")}},
        {"name": "tparams_total", "gen": gen_tp_total, "quick": 30000, "thorough": 500000, "model": False,
         "valid": lambda c: len(c) >= 1 and all(0 <= b <= 255 for b in c[1:]),
         "nontrivial": lambda case, out: len(case) >= 4,
         "histogram": lambda cases, outs: {"accepted": sum(1 for o in outs if o.strip() == "1"), "rejected": sum(1 for o in outs if o.strip() == "0")}},
    ],
    "rule": ("varint: all 2^16 two-byte prefixes at 4 (quick) / 8 (thorough) buffer lengths, boundary values 2^k+-2 for k in {0,6,8,14,16,30,32,62,63,64} "
             "encoded and decoded at every admissible length (whole, with a trailing byte, one byte short), seeded random encodes, random valid encodings with tails/cuts, random bytes. "
             "frames: three streams - grammar-generated sequences of 1-4 frames of all 25 kinds with semantic edge values (ACK gaps/lengths at and one beyond the underflow limit, "
             "MAX_STREAMS/STREAMS_BLOCKED at 2^60+-1, NEW_CONNECTION_ID lengths 0..255 and retire_prior_to = seq / seq+1, empty NEW_TOKEN, non-shortest varints), 1-3 byte mutations "
             "(flip/replace/insert/delete/truncate) of such sequences, random bytes; fixed family: every first byte with ten tails, every 0x40xx two-byte type, extension tags in every "
             "encoding length, all eight STREAM types x id/offset/length limits, dc token counts 0,1,2,4092,4093 +-1 byte, every prefix of 150 (quick) / 1500 (thorough) two-frame payloads. "
             "packets: grammar-generated datagrams of 1-3 coalesced packets of all six kinds, mutations, random bytes; fixed: every first byte x versions {0,1,unknown} x lengths, "
             "short-header dcid lengths 0..22, connection id lengths {0,1,19,20,21,255} in every long type, Length field at/below/above the bytes present in every encoding length, "
             "Retry token/tag boundary 0..19 bytes, every prefix of sample datagrams. pnx (RFC 9000 A.3): direct decode of every window size with truncated values and largest-received at 0/1/2, half window +-2, window +-2, twice the window +-1 away from 0 and from 2^62-1, and encoder->bytes->decoder->expand with the receiver anywhere in and just outside the window; random cases clustered at 0, 2^62-1 and random bases. fit (Stream::try_fit / Crypto::try_fit): stream id and offset at every varint size, payload lengths 0..2, 62..66, 16382..16386, 2^30-2..2^30+2, capacities 0..header+3 and within +-3 of header+payload, header+prefix+payload for each prefix size, and of each varint boundary of the remaining capacity; frames up to 100000 bytes are really encoded. shortbits: all 64 settings of the spin/reserved/key-phase/pn-length bits of a 1-RTT first byte through real encrypt+protect -> ProtectedPacket::decode -> unprotect -> decrypt, and the crate's Short encoder for both spin values, both key phases and all four pn lengths through the same path. varint also: encode_updated(placeholder, replacement) over all boundary pairs. tparams (grammar only): blocks of 0-5 parameters with unknown ids >= 2^30 (greased ids among them), whole / every prefix / last length overrunning; tparams_total: blocks with known ids and random values, mutations, random bytes - judged for totality only. pn: deltas at 2^7, 2^15, 2^23, 2^31 +-1 from the largest acknowledged. "
             "A varint case is non-trivial when it carries a byte or a value; a frames/packets case when at least the first frame/packet decodes; a pn case when a truncation exists"),
    "assumptions": [
        "totality of the *Rust* decoders (no panic / out-of-bounds / endless loop) is established on the inputs tried (each call under catch_unwind with a step budget, overflow checks and debug assertions on) plus the proved totality of the reference model; agreement with the reference is likewise per input",
        "little-endian host for the model of varint/table.rs (u64::to_be = byte swap); the harness runs on the same host",
        "frame-level validation is that of RFC 9000 section 19 proper; the stream/crypto 'offset + length <= 2^62-1' rule (19.6/19.8, FRAME_ENCODING_ERROR *or* FLOW_CONTROL_ERROR) is enforced by the receive buffers (stream/receive_stream.rs, space/crypto_stream.rs), not by the frame decoder, and is outside this check",
        "an Initial packet's connection IDs are parsed up to 255 bytes (17.2 SHOULD, for Version Negotiation); the 20-byte limit of version 1 is applied by the endpoint after the version check, outside the codec",
        "header protection and AEAD are C06; the choice of the truncated packet number length is C08 (here: wire bytes and RFC A.3 reconstruction); the meaning and validation of individual transport parameters is C14 - here only the block grammar (unknown ids) is compared, and arbitrary blocks are run for totality",
    ],
    "trusted_base": ["no axioms: Print Assumptions reports 'Closed under the global context' for every C05 theorem"],
    "explanation": "Coq reference codecs written from RFC 9000 sections 16-19 (varints, all frames, packet headers, truncated packet number bytes) with round-trip / announced-size / progress / totality theorems; the real decoders and encoders must give exactly the reference's answer on every generated input (judge = equality with the reference's canonical rendering, including bytes consumed, encoding_size() vs bytes written, re-encoded bytes and re-decode), and the varint table rows are read from the source and proved equal to the RFC table",
})
