"""C15 -- packet-protection keys respect AEAD limits and survive key updates."""
import registry

FORGED = 1 << 48
GRAN = 1000
VMAX = (1 << 62) - 1


# ------------------------------------------------------------------------------------------
# a light shadow of one endpoint, used only to steer the generators towards interesting cases
# (it is not an oracle: nothing is compared with it)
# ------------------------------------------------------------------------------------------
class Shadow:
    def __init__(self, cl, win):
        self.cl, self.win = cl, win
        self.phase = 0
        self.slots = [[0, 0], [1, 0]]     # [generation, encrypted]
        self.timer = None

    def act(self):
        return self.slots[self.phase][0]

    def enc(self):
        k = self.slots[self.phase]
        ph = self.phase
        if k[1] > max(0, self.cl - self.win) and self.timer is None:
            ph ^= 1
        k = self.slots[ph]
        if k[1] >= self.cl:
            return None
        k[1] += 1
        return k[0], ph

    def dec(self, g, p, pto):
        if self.slots[p][0] != g:
            return False
        if p != self.phase and self.timer is None:
            self.phase ^= 1
            self.timer = pto
        return True

    def timeout(self, now):
        if self.timer is not None and self.timer < now + GRAN:
            self.timer = None
            self.slots[self.phase ^ 1] = [self.act() + 1, 0]


def limits(rng):
    r = rng.random()
    if r < 0.08:
        cl = rng.choice([10010, 10003, 10001])
        win = 10000
    else:
        cl = rng.choice([0, 1, 2, 3, 4, 5, 6, 8, 12, 20, 64])
        win = rng.choice([0, 1, 2, 3, 4, cl, cl + 1, max(0, cl - 1), 10000])
    il = rng.choice([0, 1, 2, 3, 5, 64, 1 << 36])
    return cl, il, win


def gen_ks(rng):
    cl, il, win = limits(rng)
    sh = Shadow(cl, win)
    now = rng.choice([0, 1, 1000, 5000])
    ops = [cl, il, win]
    n = rng.choice([2, 4, 8, 16, 30, 60])
    for _ in range(n):
        r = rng.random()
        if r < 0.5:
            ops.append(0)
            sh.enc()
        elif r < 0.8:
            a = sh.act()
            q = rng.random()
            if q < 0.35:
                g = a + 1
            elif q < 0.55:
                g = a
            elif q < 0.75:
                g = max(0, a - 1)
            elif q < 0.85:
                g = a + 2
            elif q < 0.95:
                g = FORGED + rng.randrange(4)
            else:
                g = rng.randrange(0, a + 4)
            p = g & 1
            if rng.random() < 0.07:
                p ^= 1
            pn = rng.randrange(0, 64)
            la = rng.randrange(0, 64)
            pto = now + rng.choice([0, 1, 500, 999, 1000, 1001, 3000])
            ops += [1, g, p, pn, la, pto]
            sh.dec(g, p, max(1, pto))
        else:
            q = rng.random()
            if sh.timer is not None and q < 0.6:
                now = max(now, sh.timer + rng.choice([-1001, -1000, -999, -1, 0, 1, 500]))
                now = max(0, now)
            else:
                now += rng.choice([0, 1, 500, 1000, 2000, 5000])
            ops += [2, now]
            sh.timeout(max(1, now))
    return ops


def fixed_ks(tier):
    out = []
    # F3: a peer-initiated update, then sealing straight into the update window of the new key
    for cl, win, k in ((10010, 10000, 20), (12, 10, 6), (5, 3, 6), (3, 3, 5), (2, 1, 4)):
        out.append([cl, 64, win, 1, 1, 1, 5, 0, 1000000] + [0] * k)
        out.append([cl, 64, win] + [0] * min(k, cl) + [1, 1, 1, 5, 0, 1000000] + [0] * k)
    # a reordered packet of the previous phase arrives inside the derivation window
    out.append([100, 100, 10, 1, 1, 1, 5, 0, 1000000, 0, 1, 0, 0, 3, 5, 1000000, 0, 2, 2000000, 0])
    out.append([5, 100, 2, 0, 0, 1, 1, 1, 5, 0, 5000, 0, 0, 1, 0, 0, 3, 5, 9000, 0, 2, 20000, 0, 0, 0, 0, 0, 0, 0])
    # limits: exactly at / one below / one above; window 0, window >= limit
    for cl in (0, 1, 2, 3):
        for win in (0, 1, cl, cl + 1):
            out.append([cl, 64, win] + [0] * (2 * cl + 3))
    # integrity limit edges
    for il in (0, 1, 2, 3):
        out.append([8, il, 2] + [1, FORGED, 0, 1, 0, 1000] * (il + 2))
        out.append([8, il, 2] + [1, 5, 1, 1, 0, 1000] * (il + 1) + [1, 0, 0, 2, 0, 1000])
    # timer edges: the timer set to T fires at the first on_timeout with T < now + 1000
    for d in (-1001, -1000, -999, 0, 1):
        out.append([8, 8, 2, 1, 1, 1, 1, 0, 5000, 2, 5000 + d, 0, 1, 2, 0, 2, 1, 9000, 1, 0, 0, 0, 1, 9000])
    # several complete updates driven by the peer, each after the timer fired
    seq = [6, 64, 2]
    t = 0
    for g in range(1, 7):
        seq += [1, g, g & 1, 10 * g, 10 * g - 1, t + 500, 0, 0, 2, t + 2000, 0]
        t += 3000
    out.append(seq)
    return out


def gen_duo(rng):
    r = rng.random()
    if r < 0.1:
        cl, win = rng.choice([(10004, 10000), (10006, 10000)])
    else:
        cl = rng.choice([1, 2, 3, 4, 5, 6, 8, 12, 20])
        win = rng.choice([0, 1, 2, 3, cl, max(0, cl - 1), max(0, cl - 2)])
    il = rng.choice([0, 1, 2, 5, 1 << 36, 1 << 36])
    pto = rng.choice([0, 500, 1000, 1500, 3000])
    ops = [cl, il, win, pto]
    n = rng.choice([4, 8, 16, 32, 64, 120])
    nsent = [0, 0]
    style = rng.random()
    for _ in range(n):
        r = rng.random()
        if style < 0.5:
            # orderly exchange with perturbations
            if r < 0.4:
                e = rng.randrange(2)
                ops += [0, e]; nsent[e] += 1
            elif r < 0.8:
                e = rng.randrange(2)
                m = nsent[1 - e]
                if m and rng.random() < 0.75:
                    i = max(0, m - 1 - rng.choice([0, 0, 0, 1, 2, 3]))
                else:
                    i = rng.randrange(0, max(1, m + 2))
                ops += [1, e, i]
            elif r < 0.96:
                ops += [2, rng.choice([1, 500, 999, 1000, 1001, pto, pto + 999, pto + 1000, pto + 1001, 5000])]
            else:
                ops += [3, rng.randrange(2), rng.randrange(2), rng.randrange(64)]
        else:
            if r < 0.45:
                e = rng.randrange(2)
                ops += [0, e]; nsent[e] += 1
            elif r < 0.8:
                ops += [1, rng.randrange(2), rng.randrange(0, 1 << 12)]
            elif r < 0.95:
                ops += [2, rng.choice([0, 1, 400, 1000, 2500, 10000])]
            else:
                ops += [3, rng.randrange(2), rng.randrange(2), rng.randrange(64)]
    return ops


def fixed_duo(tier):
    out = []
    # A initiates (limit 4, window 2), B follows, a reordered old packet reaches B inside the window
    out.append([4, 64, 2, 1000, 0, 0, 0, 0, 0, 0, 0, 0, 1, 1, 3, 0, 1, 1, 1, 0, 0, 1, 2, 3000, 0, 1, 0, 0])
    # clean ping-pong with the timers firing between updates
    seq = [4, 64, 2, 500]
    for _ in range(6):
        seq += [0, 0, 0, 0, 0, 0, 0, 0, 1, 1, 1 << 20, 0, 1, 1, 0, 1 << 20, 2, 3000]
    out.append(seq)
    out.append([3, 2, 1, 100, 3, 0, 0, 5, 3, 0, 1, 6, 3, 0, 0, 7, 0, 0, 1, 1, 0])
    return out


# ------------------------------------------------------------------------------------------
def parse_ks(case):
    ops, i = [], 3
    while i < len(case):
        t = case[i]
        if t == 0:
            ops.append(("enc",)); i += 1
        elif t == 1:
            a = (case[i + 1:i + 6] + [0] * 5)[:5]
            ops.append(("dec", a[0], a[1] & 1)); i += 6
        else:
            ops.append(("time",)); i += 2
    return ops


def walk_ks(case, out):
    """yields (op, op_output, state) triples"""
    res, j = [], 0
    for op in parse_ks(case):
        k = {"enc": 3, "dec": 2, "time": 0}[op[0]]
        res.append((op, out[j:j + k], out[j + k:j + k + 6]))
        j += k + 6
    return res


def nontrivial_ks(case, out):
    w = walk_ks(case, out)
    kinds = {o[0][0] for o in w}
    return len(kinds) >= 2 and any(st and st[1] >= 1 for _, _, st in w)


def hist_ks(cases, outs):
    h = {"enc_ok": 0, "enc_limit": 0, "dec_ok": 0, "dec_rotate": 0, "dec_err": 0, "dec_aead_limit": 0,
         "timeouts": 0, "derivations": 0, "max_generation": 0, "cases_with_2plus_updates": 0}
    for c, o in zip(cases, outs):
        if o.startswith("!"):
            continue
        out = [(-int(t[1:], 16) if t.startswith("-") else int(t, 16)) for t in o.split()]
        mg = 0
        for op, r, st in walk_ks(c, out):
            if op[0] == "enc" and r:
                h["enc_ok" if r[0] == 0 else "enc_limit"] += 1
            elif op[0] == "dec" and r:
                h[["dec_ok", "dec_rotate", "dec_err", "dec_aead_limit"][min(r[0], 3)]] += 1
            elif op[0] == "time":
                h["timeouts"] += 1
            if st:
                mg = max(mg, st[1])
        if len(out) >= 6:
            h["derivations"] += out[-1]
        h["max_generation"] = max(h["max_generation"], mg)
        if mg >= 2:
            h["cases_with_2plus_updates"] += 1
    return h


def nontrivial_duo(case, out):
    # some endpoint moved past generation 0 and both directions carried traffic
    tags = set()
    i = 4
    dirs = set()
    while i < len(case):
        t = case[i]
        if t == 0:
            dirs.add(("s", case[i + 1] & 1 if i + 1 < len(case) else 0)); i += 2
        elif t == 1:
            i += 3
        elif t == 2:
            i += 2
        else:
            i += 4
        tags.add(min(t, 3))
    return len(tags) >= 2 and len(dirs) == 2 and len(out) >= 6 and (out[-5] >= 1 or out[-2] >= 1)


def hist_duo(cases, outs):
    h = {"final_gen_0": 0, "final_gen_1": 0, "final_gen_2": 0, "final_gen_3plus": 0}
    for c, o in zip(cases, outs):
        if o.startswith("!"):
            continue
        out = o.split()
        if len(out) >= 6:
            g = max(int(out[-5], 16), int(out[-2], 16))
            h["final_gen_%s" % (g if g < 3 else "3plus")] += 1
    return h


def gen_rot(rng):
    cl, il, win = limits(rng)
    r = rng.random()
    if r < 0.6:
        n = rng.randrange(0, 40)
    elif r < 0.95:
        n = rng.randrange(0, 3000)
    else:
        n = rng.choice([65534, 65535, 65536, 65537, 65538])
    return [cl, il, win, n]


def fixed_rot(tier):
    # around the u16 wrap of the rotation counter (repaired by the wrapping_add fix), and the largest n
    return [[64, 64, 10, n] for n in (0, 1, 2, 255, 256, 65535, 65536, 65537, 131071)] + [[0, 0, 0, 65537], [1, 1, 1, 70000]]


def classify(p):
    """names the input class of a judged violation (used only to match KNOWN_FINDINGS.txt lines)"""
    try:
        case = p.get("minimal_case", p["case"])
        o = p.get("minimal_impl", p["impl"])
        if p["component"] != "ks" or o.startswith("!"):
            return None
        out = [(-int(t[1:], 16) if t.startswith("-") else int(t, 16)) for t in o.split()]
        prev = [0, 0, 0, 0, 0, 0]
        for op, r, st in walk_ks(case, out):
            if op[0] == "dec" and r and r[0] == 1 and prev[4] == 1:
                return "stale_phase_rollback"
            prev = st
        prev = [0, 0, 0, 0, 0, 0]
        last = 0
        for op, r, st in walk_ks(case, out):
            if op[0] == "enc" and r and r[0] == 0:
                if r[2] < last and prev[4] == 1:
                    return "second_update_inside_derivation_window"
                last = r[2]
            prev = st
    except Exception:
        return None
    return None


registry.register("C15", {
    "gen": ["C15"],
    "props_file": "props/C15.v",
    "extract_target": "extract/Ex_C15.vo",
    "harness": "h_core",
    "axioms_allowed": [],
    "classify": classify,
    "components": [
        {"name": "ks", "gen": gen_ks, "fixed": fixed_ks, "quick": 30000, "thorough": 1000000,
         "valid": lambda c: len(c) >= 3 and all(0 <= v <= VMAX for v in c),
         "nontrivial": nontrivial_ks, "histogram": hist_ks},
        {"name": "duo", "gen": gen_duo, "fixed": fixed_duo, "quick": 20000, "thorough": 600000,
         "valid": lambda c: len(c) >= 4 and all(0 <= v <= VMAX for v in c),
         "nontrivial": nontrivial_duo, "histogram": hist_duo},
        {"name": "rot", "gen": gen_rot, "fixed": fixed_rot, "quick": 400, "thorough": 5000,
         "valid": lambda c: len(c) >= 4 and all(0 <= v <= VMAX for v in c),
         "nontrivial": lambda case, out: len(out) == 8 and out[1] >= 2,
         "histogram": lambda cases, outs: {"n_ge_65536": sum(1 for c in cases if (c[3] % 131072) >= 65536),
                                           "max_n": max((c[3] % 131072) for c in cases)}},
    ],
    "rule": "cases: corpus + boundary families (limit/window edges incl. 0 and window >= limit, integrity-limit edges, derivation-timer "
            "edges at expiry-1001..+1 us, update straight into the update window, reordered old-phase packet inside the derivation window, "
            "six consecutive peer-driven updates) + seeded random op sequences steered by a shadow endpoint (tiny limits 0..64 and the "
            "10_010/10_000 pair); ks: one real KeySet, ops encrypt / decrypt (generation a-1, a, a+1, a+2, forged; right or flipped phase bit) / "
            "on_timeout; rot: a fresh real KeySet driven through n complete peer-driven updates, n up to 2^17 incl. 65535..65538 (u16 rotation counter wrap); duo: two real KeySets exchanging their own packets through a drop/duplicate/reorder schedule with virtual time. "
            "A ks case is non-trivial when it mixes at least two op kinds and reaches generation >= 1; a duo case when both endpoints seal, "
            "at least two op kinds occur and an endpoint ends at generation >= 1",
    "assumptions": [
        "ideal AEAD: opening succeeds iff the key tried has the generation the packet was sealed under; a forged packet opens under no key (Section-free model assumption, realised in the harness by the instrumented key type)",
        "packet numbers are assigned in increasing order by the transport (C08/C12), so 'higher packet number' = 'sealed later'",
    ],
    "trusted_base": ["no axioms: Print Assumptions reports 'Closed under the global context' for every C15 theorem"],
    "explanation": "Coq theorems C15_* over the model of keyset.rs / limited.rs for all op sequences and all limit/window settings; model tied to the "
                   "source by generated constants (KEY_UPDATE_WINDOW, K_GRANULARITY, cipher-suite limits) and by differential execution against the real KeySet<K>",
})
