"""E2E -- end-to-end trace components: real s2n-quic endpoints on the deterministic testing IO
provider (harness/h_e2e/src/bin/E2E.rs), judged by Coq-extracted monitors that are proved sound
(coq/model/E2E.v, coq/proofs/E2EProofs.v, coq/props/E2E.v).

Running a monitor on a trace is testing, not proof: the proved part is monitor soundness.

This file registers no property: it defines E2E_COMPONENTS, which tools/props_zz_attach.py attaches
to C01 C02 C03 C04 C06 C08 C09 C10 C11 C12 C13.  tools/e2e_batch.py runs one component alone.
"""
import registry

# ---------------------------------------------------------------------------------------------
# e2e_stream  (C01, C02, C03, C12)
# case: [seed, drop_pm, dup_pm, corrupt_pm, jitter_ms, max_udp, n_bidi, bytes, stream_window,
#        conn_window, max_streams, chunk, read_size, blackhole_after_ms, blackhole_len_ms (0 = forever),
#        n_uni, delay_ms, idle_ms, fault_until_ms, close_at_end, finish_mode,
#        write_modes_mask (bit m: 0 send, 1 send_vectored, 2 tokio write_vectored, 3 write_all),
#        read_modes_mask (0 receive, 1 read, 2 receive_vectored, 3 tokio read, 4 slow reader then receive_vectored,
#        5 tokio read_exact of 3000..20000 bytes on one ReadBuf),
#        max_send_buffer_size (0 = default),
#        max_data_drop_pm (datagrams that carry a MAX_DATA frame are dropped with this permille while faults are active)]
# ---------------------------------------------------------------------------------------------
STREAM_LEN = 25


def _stream_case(rng, profile):
    seed = rng.randrange(1, 1 << 48)
    n_bidi = rng.choice([1, 1, 2, 3, 4, 6, 8])
    n_uni = rng.choice([0, 0, 1, 2, 3])
    delay = rng.choice([1, 5, 10, 20, 50, 100])
    max_udp = rng.choice([1200, 1250, 1350, 1450, 1500, 1500, 9000])
    chunk = rng.choice([1, 7, 100, 1000, 1200, 5000, 40000])
    read = rng.choice([0, 0, 1, 13, 500, 4096, 70000])
    close_at_end = rng.choice([0, 1, 1])
    drop = dup = corrupt = jitter = 0
    bh_after = bh_len = 0
    idle = 30000
    fault_until = 0
    sw = rng.choice([20000, 65536, 200000, 1 << 20])
    cw = rng.choice([30000, 131072, 400000, 1 << 21])
    ms = rng.choice([1, 2, 3, 5, 10, 100])
    total = rng.choice([0, 1, 1000, 20000, 60000, 100000, 200000])
    if profile == "lossy":
        drop = rng.choice([0, 10, 30, 60, 100, 150])
        dup = rng.choice([0, 0, 20, 100, 300])
        corrupt = rng.choice([0, 0, 10, 50, 100])
        jitter = rng.choice([0, 0, 5, 30, 100, 300])
        fault_until = rng.choice([2000, 5000, 15000, 40000])
    elif profile == "tiny":
        sw = rng.choice([1, 2, 10, 100, 1000, 1500, 5000])
        cw = rng.choice([1, 3, 50, 500, 3000, 10000])
        ms = rng.choice([1, 1, 2, 3])
        total = min(total, 150 * min(sw, cw))
        n_bidi = min(n_bidi, 4)
        if rng.random() < 0.5:
            drop = rng.choice([10, 50, 100])
            fault_until = rng.choice([2000, 10000])
    elif profile == "blackhole":
        bh_after = rng.choice([1, 5, 15, 30, 60, 100, 150, 250, 400, 800, 1500, 3000])
        bh_len = 0
        idle = rng.choice([2000, 3000, 5000, 8000])
        if rng.random() < 0.4:
            drop = rng.choice([20, 80])
            fault_until = 100000
    elif profile == "outage":
        bh_after = rng.choice([20, 60, 150, 400, 1000])
        bh_len = rng.choice([100, 500, 1500, 3000])
        idle = 30000
    # keep the volume (and with it the wall time) bounded
    nflows = 2 * n_bidi + n_uni
    total = min(total, 1600000 // max(1, nflows))
    finish_mode = 0
    if ms >= n_bidi + n_uni and rng.random() < 0.3:
        # finish() followed by flush(): the stream is never finalized by the implementation
        # (finding reported by the e2e harness), harmless only while stream credit is not needed
        finish_mode = 1
    wmask = rng.choice([0, 0, 15, 15, 1, 2, 4, 8, 6])
    rmask = rng.choice([0, 0, 63, 63, 1, 2, 4, 8, 16, 20, 32, 32, 40])
    send_buf = rng.choice([0, 0, 0, 1000, 3000, 20000])
    md_drop = 0
    if profile in ("lossy", "tiny") and rng.random() < 0.4:
        md_drop = rng.choice([300, 1000])
        fault_until = max(fault_until, rng.choice([1000, 4000]))
    return [seed, drop, dup, corrupt, jitter, max_udp, n_bidi, total, sw, cw, ms, chunk, read,
            bh_after, bh_len, n_uni, delay, idle, fault_until, close_at_end, finish_mode, wmask, rmask, send_buf, md_drop]


def gen_stream(rng):
    profile = rng.choice(["clean", "lossy", "lossy", "tiny", "tiny", "blackhole", "blackhole", "outage"])
    return _stream_case(rng, profile)


def fixed_stream(tier):
    return [
        # plain transfer, one of each stream type
        [1, 0, 0, 0, 0, 1500, 2, 20000, 65536, 131072, 10, 1000, 500, 0, 0, 1, 20, 10000, 0, 1, 0, 0, 0, 0, 0],
        # stream-count credit of 1 with several streams
        [4, 0, 0, 0, 0, 1500, 3, 100, 100000, 300000, 1, 700, 100, 0, 0, 2, 10, 5000, 0, 1, 0, 0, 0, 0, 0],
        # one byte windows
        [5, 0, 0, 0, 0, 1500, 1, 150, 1, 1, 1, 50, 10, 0, 0, 1, 5, 30000, 0, 0, 0, 0, 0, 0, 0],
        # blackhole from the first millisecond / mid handshake / mid transfer
        [6, 0, 0, 0, 0, 1500, 2, 50000, 65536, 131072, 10, 1000, 500, 1, 0, 1, 20, 5000, 0, 1, 0, 0, 0, 0, 0],
        [7, 0, 0, 0, 0, 1500, 2, 50000, 65536, 131072, 10, 1000, 500, 30, 0, 1, 20, 5000, 0, 1, 0, 0, 0, 0, 0],
        [8, 0, 0, 0, 0, 1500, 2, 200000, 65536, 131072, 10, 1000, 500, 150, 0, 1, 20, 3000, 0, 1, 0, 0, 0, 0, 0],
        # heavy faults for 30 s
        [3, 100, 100, 50, 100, 1400, 8, 100000, 20000, 50000, 3, 5000, 0, 0, 0, 3, 50, 30000, 30000, 1, 0, 0, 0, 0, 0],
        # known finding finish_flush_stream_never_finalized: a send half ended by finish() and then
        # flush().await is never finalized, so stream credit is never returned
        [4, 0, 0, 0, 0, 1500, 3, 100, 100000, 300000, 1, 700, 100, 0, 0, 2, 10, 5000, 0, 1, 1, 0, 0, 0, 0],
        [9, 30, 0, 0, 0, 1500, 4, 5000, 65536, 131072, 2, 1000, 0, 0, 0, 0, 20, 6000, 3000, 0, 1, 0, 0, 0, 0],
        [10, 0, 0, 0, 0, 1350, 2, 20000, 65536, 131072, 1, 5000, 500, 0, 0, 3, 5, 4000, 0, 1, 1, 0, 0, 0, 0],
        # known finding both_windows_blocked_state_masks_stream_credit
        [273259354617794, 0, 0, 0, 0, 1500, 1, 150, 1, 50, 3, 5000, 4096, 0, 0, 0, 10, 30000, 0, 1, 0, 0, 0, 0, 0],
        [207524318816640, 0, 0, 0, 0, 9000, 4, 15000, 100, 3000, 3, 100, 0, 0, 0, 1, 100, 30000, 0, 0, 0, 0, 0, 0, 0],
        # application API glue: vectored writes under send-buffer backpressure, vectored / slow readers
        [11, 0, 0, 0, 0, 1500, 2, 60000, 200000, 400000, 10, 5000, 500, 0, 0, 1, 10, 30000, 0, 1, 0, 4, 31, 2000, 0],
        [12, 0, 0, 0, 0, 1500, 3, 40000, 200000, 400000, 10, 3000, 0, 0, 0, 0, 20, 30000, 0, 1, 0, 15, 16, 3000, 0],
        [13, 20, 0, 0, 10, 1500, 2, 100000, 1048576, 2097152, 10, 1200, 77, 0, 0, 2, 5, 30000, 5000, 0, 0, 6, 20, 1000, 0],
        [14, 0, 0, 0, 0, 1500, 4, 30000, 1048576, 2097152, 10, 40000, 13, 0, 0, 0, 50, 30000, 0, 1, 0, 4, 4, 0, 0],
        # tokio read_exact over data that arrives in packet-sized pieces, with jitter
        [15, 20, 0, 0, 20, 1500, 2, 100000, 200000, 400000, 10, 5000, 0, 0, 0, 1, 10, 30000, 5000, 1, 0, 0, 32, 0, 0],
        [16, 0, 0, 0, 5, 1350, 3, 60000, 65536, 131072, 10, 1200, 0, 0, 0, 0, 20, 30000, 3000, 1, 0, 6, 32, 3000, 0],
        # every datagram that carries MAX_DATA is lost for the first seconds while the sender depends on it
        [21, 0, 0, 0, 0, 1500, 2, 60000, 20000, 30000, 10, 1000, 0, 0, 0, 0, 10, 30000, 3000, 1, 0, 0, 0, 0, 1000],
        [22, 20, 0, 0, 10, 1400, 3, 40000, 8000, 10000, 10, 3000, 500, 0, 0, 1, 20, 30000, 5000, 1, 0, 0, 0, 0, 1000],
    ]


def valid_stream(c):
    return (len(c) == STREAM_LEN and all(v >= 0 for v in c) and c[5] >= 1200 and c[6] <= 8 and c[15] <= 3
            and c[7] <= 200000 and c[1] <= 150 and c[17] >= 2000
            and (c[14] == 0 or c[14] <= 3000) and (c[20] == 0 or c[10] >= c[6] + c[15])
            and (c[18] <= 100000) and c[7] <= 150 * min(c[8], c[9]) + 1 and c[21] <= 15 and c[22] <= 63 and c[24] <= 1000)


def nontrivial_stream(case, out):
    # connected and at least one flow moved data
    return len(out) > 35 and out[4] == 1 and out[34] >= 1


def hist_stream(cases, outs):
    h = {"perm_blackhole": 0, "outage": 0, "lossy": 0, "capped_records": 0, "connected": 0, "idle_closed": 0}
    for c, o in zip(cases, outs):
        if o.startswith("!"):
            continue
        v = o.split()
        h["perm_blackhole"] += 1 if (c[13] > 0 and c[14] == 0) else 0
        h["outage"] += 1 if (c[13] > 0 and c[14] > 0) else 0
        h["lossy"] += 1 if c[1] + c[2] + c[3] + c[4] > 0 else 0
        h["connected"] += 1 if v[4] == "1" else 0
        h["idle_closed"] += 1 if v[12] == "5" else 0
    return h


# ---------------------------------------------------------------------------------------------
# e2e_amp  (C11)
# case: [seed, drop_pm, dup_pm, jitter_ms, delay_ms, chain_extra, n_raw, raw_kinds_mask, raw_per_sender,
#        fault_until_ms, bytes, corrupt_pm, rebind_at_ms after the client connected (0 = none; then only the first datagram from the
#        new address gets through), server_close_ms after the server accepted, pause_ms]
# ---------------------------------------------------------------------------------------------
AMP_LEN = 15


def gen_amp(rng):
    seed = rng.randrange(1, 1 << 48)
    lossy = rng.random() < 0.7
    drop = rng.choice([50, 100, 200, 300, 500]) if lossy else 0
    dup = rng.choice([0, 100, 300, 600]) if lossy else 0
    jitter = rng.choice([0, 0, 10, 50]) if lossy else 0
    corrupt = rng.choice([0, 0, 50, 200]) if lossy else 0
    delay = rng.choice([1, 5, 20, 50, 150])
    chain = rng.choice([0, 0, 1, 2, 3, 4, 6])
    n_raw = rng.choice([0, 1, 2, 4])
    mask = rng.choice([15, 15, 1, 2, 4, 8, 6])
    per = rng.choice([3, 10, 25])
    fault_until = rng.choice([500, 2000, 6000])
    rebind = close = pause = 0
    nbytes = rng.choice([0, 1000, 20000])
    if rng.random() < 0.3:
        # handshake starvation: half of the datagrams are lost for several seconds, so the server
        # spends its budget, runs into PTO after PTO and must stay silent at the limit
        drop = rng.choice([400, 500, 600])
        dup = rng.choice([0, 300, 600])
        fault_until = rng.choice([4000, 6000, 9000])
        chain = rng.choice([2, 4, 6])
        delay = rng.choice([20, 50, 150])
        return [seed, drop, dup, jitter, delay, chain, n_raw, mask, per, fault_until, 0, corrupt, 0, 0, 0]
    if rng.random() < 0.35:
        # the client moves to a new port mid-transfer, one datagram from there arrives, then silence;
        # the server application closes some time later
        rebind = rng.choice([20, 50, 200, 600])
        close = rebind + rng.choice([30, 300, 1500, 4000])
        pause = rng.choice([20, 50])
        nbytes = 40000
        drop = min(drop, 100)
    return [seed, drop, dup, jitter, delay, chain, n_raw, mask, per, fault_until, nbytes, corrupt, rebind, close, pause]


def fixed_amp(tier):
    return [
        [1, 0, 0, 0, 20, 0, 2, 15, 6, 0, 1000, 0, 0, 0, 0],
        [2, 300, 300, 0, 20, 4, 0, 0, 0, 4000, 1000, 0, 0, 0, 0],
        [3, 500, 0, 20, 50, 6, 2, 15, 20, 6000, 0, 100, 0, 0, 0],
        [4, 0, 600, 0, 5, 6, 4, 2, 25, 2000, 1000, 0, 0, 0, 0],
        [5, 0, 0, 0, 20, 0, 0, 0, 0, 0, 40000, 0, 300, 1300, 30],   # rebinding, silence, server closes
        [6, 0, 0, 0, 5, 2, 1, 15, 5, 0, 40000, 0, 100, 4100, 20],
        # handshake starvation: the server must stop at the 3x limit through PTO after PTO
        [121074333754589, 600, 0, 0, 150, 2, 0, 8, 25, 4000, 0, 0, 0, 0, 0],
        [140477015489208, 600, 0, 0, 20, 2, 4, 15, 10, 9000, 0, 0, 0, 0, 0],
        [58434253564625, 500, 600, 10, 150, 6, 0, 15, 25, 6000, 0, 200, 0, 0, 0],
    ]


def valid_amp(c):
    return len(c) == AMP_LEN and all(v >= 0 for v in c) and c[1] <= 600 and c[5] <= 6 and c[6] <= 4 and c[8] <= 25 and c[12] <= 5000 and c[13] <= 20000 and c[14] <= 100


def nontrivial_amp(case, out):
    # at least one server datagram towards the client before validation, or a reply to a raw sender
    if len(out) < 9:
        return False
    n = out[8]
    srv, cli = out[1], out[2]
    rows = [out[10 + 7 * i:17 + 7 * i] for i in range(n)]
    return any(r[1] == 0 and r[2] == srv for r in rows)


def hist_amp(cases, outs):
    h = {"rebinding": sum(1 for c in cases if len(c) > 12 and c[12] > 0), "validated": 0, "never_validated": 0, "vn_replies": 0, "other_replies": 0, "capped": 0, "server_pre_validation_datagrams": 0}
    for c, o in zip(cases, outs):
        if o.startswith("!"):
            continue
        v = _parse(o)
        h["validated" if v[4] >= 0 else "never_validated"] += 1
        h["capped"] += v[7]
        srv, cli = v[1], v[2]
        valid = False
        for i in range(v[8]):
            r = v[10 + 7 * i:17 + 7 * i]
            if r[1] == 2:
                valid = True
            if r[1] == 0 and r[2] == srv:
                if r[3] == cli:
                    h["server_pre_validation_datagrams"] += 0 if valid else 1
                elif r[6] == 3:
                    h["vn_replies"] += 1
                else:
                    h["other_replies"] += 1
    return h


def _amp_scan(rows, srv, cli, foreign=None, ledger=False):
    """python mirror of amp_scan for client address [cli] on an already filtered / re-marked log.
    foreign: another client address whose datagrams delivered to the server before the marker are
    credited to [cli] as well (what the server does before the handshake is confirmed);
    ledger: judge a send by the implementation's own ledger (allowance += 3 * received, saturating
    subtraction on send, blocked only at allowance 0) instead of sent < 3 * received.
    returns (amplification clause ok, everything else ok)"""
    recv = sent = allow = 0
    valid = False
    amp_ok = other_ok = True
    seen = []
    for e in rows:
        t, k, s, d, ln, fb, cl = e
        if k == 0 and s == srv:
            if d == cli:
                if not valid:
                    ok = (allow > 0) if ledger else (sent < 3 * recv)
                    amp_ok &= ok
            else:
                trig = next((x for x in reversed(seen) if (x[1] == 0 and x[2] == srv and x[3] == d) or (x[1] == 1 and x[3] == srv and x[2] == d)), None)
                if trig is None or not (trig[1] == 1 and trig[3] == srv):
                    other_ok = False
                elif cl == 3:
                    other_ok &= trig[4] >= 1200 and trig[6] != 3
                else:
                    other_ok &= ln < trig[4]
        if k == 0 and s == cli and cl == 1:
            other_ok &= ln >= 1200
        other_ok &= ln >= 0
        seen.append(e)
        if k == 1 and d == srv and (s == cli or (foreign is not None and s == foreign and not valid)):
            recv += ln
            allow += 3 * ln
        if k == 0 and s == srv and d == cli:
            sent += ln
            allow = max(0, allow - ln)
        if k == 2:
            valid = True
    return amp_ok, other_ok


def classify_amp(p):
    """known classes of e2e_amp judge failures (None = not known).

    amp_credit_from_other_address_during_handshake: before the handshake is confirmed the server
    attributes a datagram that arrives from another address to the connection's only path and
    credits its bytes to the ORIGINAL address (path::Manager::on_datagram_received picks the active
    path), so it sends to the original address beyond 3 x the bytes received from that address;
    with the other address's datagrams counted as credit the 3 x rule holds.
    amp_overshoot_forgiven (F2): every send to the unvalidated address starts with a positive
    allowance in the implementation's ledger (3 x received added, saturating subtraction on send),
    but bytes sent had already reached 3 x bytes received."""
    try:
        if p.get("component") != "e2e_amp" or p["impl"].startswith("!"):
            return None
        v = _parse(p["impl"])
        if v[6] != 0:
            return None
        srv, cli, cli2 = v[1], v[2], v[9]
        rows = [v[10 + 7 * i:17 + 7 * i] for i in range(v[8])]
        log1 = [r for r in rows if cli2 == -1 or cli2 not in (r[2], r[3])]
        if cli2 != -1:
            log2 = []
            for r in rows:
                if cli in (r[2], r[3]) and r[1] != 2:
                    continue
                r = list(r)
                if r[1] == 3 and r[2] == cli2:
                    r[1] = 2
                elif r[1] == 2:
                    r[1] = 9
                log2.append(r)
            a2, o2 = _amp_scan(log2, srv, cli2)
            if not (a2 and o2):
                return None
        a1, o1 = _amp_scan(log1, srv, cli)
        if a1 or not o1:
            return None
        # the only failing clause is the 3 x rule towards the original client address
        if cli2 != -1:
            logf = [r for r in rows if not (r[1] == 0 and cli2 in (r[2], r[3])) and not (r[1] == 0 and r[2] == srv and r[3] == cli2)]
            logf = [r for r in logf if not (r[2] == srv and r[3] == cli2)]
            af, of = _amp_scan(logf, srv, cli, foreign=cli2)
            if af:
                return "amp_credit_from_other_address_during_handshake"
        al, _ = _amp_scan(log1, srv, cli, ledger=True)
        if al:
            return "amp_overshoot_forgiven"
        if cli2 != -1:
            afl, _ = _amp_scan(logf, srv, cli, foreign=cli2, ledger=True)
            if afl:
                return "amp_credit_from_other_address_during_handshake"
        return None
    except Exception:
        return None


# ---------------------------------------------------------------------------------------------
# e2e_inject  (C06)
# case: [seed, inject_pm, inject_kinds_mask, inject_from_ms, inject_len_ms, n_bidi, bytes, delay_ms,
#        drop_pm, jitter_ms, n_uni, chunk, read_size]
# ---------------------------------------------------------------------------------------------
INJ_LEN = 13


def gen_inject(rng):
    seed = rng.randrange(1, 1 << 48)
    delay = rng.choice([2, 10, 20, 50])
    pm = rng.choice([50, 200, 500, 1000])
    mask = rng.choice([63, 63, 63, 1, 2, 4, 8, 16, 32, 18])
    start = 4 * delay + rng.choice([0, 20, 100, 500])
    length = rng.choice([500, 2000, 10000])
    n_bidi = rng.choice([1, 2, 4])
    n_uni = rng.choice([0, 1, 2])
    total = rng.choice([20000, 100000, 200000])
    total = min(total, 1200000 // (2 * n_bidi + n_uni))
    if rng.random() < 0.3:
        # a long upload: thousands of 1-RTT packets, so that replays of datagrams more than 128 and
        # more than 1000 packet numbers old happen (the replay kind picks old datagrams half the time)
        n_bidi, n_uni = 1, 0
        total = rng.choice([2500000, 4000000])
        mask = rng.choice([16, 16, 63])
        pm = rng.choice([50, 200])
        length = 60000
        delay = rng.choice([2, 10])
        return [seed, pm, mask, start, length, n_bidi, total, delay, rng.choice([0, 0, 20, 80]), rng.choice([0, 0, 10, 40]),
                n_uni, rng.choice([1000, 20000]), rng.choice([0, 500, 10000])]
    return [seed, pm, mask, start, length, n_bidi, total, delay, rng.choice([0, 0, 20, 80]), rng.choice([0, 0, 10, 40]),
            n_uni, rng.choice([100, 1000, 20000]), rng.choice([0, 500, 10000])]


def fixed_inject(tier):
    return [
        [1, 300, 63, 200, 3000, 2, 100000, 20, 0, 0, 1, 1000, 0],
        [2, 1000, 16, 50, 10000, 1, 200000, 10, 0, 0, 0, 1000, 0],      # replays only
        [3, 1000, 2, 50, 10000, 1, 200000, 10, 50, 20, 0, 1000, 500],   # bit flips only, lossy
        [4, 100, 16, 50, 60000, 1, 4000000, 5, 0, 0, 0, 20000, 0],      # long upload, old replays
        [5, 100, 16, 30, 60000, 1, 3000000, 2, 20, 5, 0, 20000, 0],
    ]


def valid_inject(c):
    # the last two conditions keep shrink candidates cheap: no multi-megabyte upload in 1-byte writes or reads
    return (len(c) == INJ_LEN and all(v >= 0 for v in c) and 1 <= c[5] <= 4 and c[10] <= 2 and c[8] <= 80
            and c[6] <= 4000000 and c[4] <= 60000
            and c[6] <= 20000 * max(1, c[11]) and (c[12] == 0 or c[6] <= 20000 * c[12]))


def nontrivial_inject(case, out):
    if len(out) < 30:
        return False
    n = out[29]
    b = 30 + 10 * n
    return out[2] == 1 and sum(out[b:b + 6]) > 0


def hist_inject(cases, outs):
    h = {"injected_by_kind": [0] * 6, "processed_packets": 0}
    for c, o in zip(cases, outs):
        if o.startswith("!"):
            continue
        v = _parse(o)
        b = 30 + 10 * v[29]
        for k in range(6):
            h["injected_by_kind"][k] += v[b + k]
        b += 6
        for _ in range(2):
            h["processed_packets"] += v[b + 1]
            b += 2 + 3 * v[b + 1]
    return h


# ---------------------------------------------------------------------------------------------
# e2e_pn  (C08)
# case: [seed, retry_first, drop_pm, dup_pm, jitter_ms, delay_ms, n_bidi, bytes, max_ack_delay_ms,
#        fault_until_ms, cc, n_uni, corrupt_pm, server_max_ack_delay_ms (0 = same as the client's), pause_ms, chunk]
# ---------------------------------------------------------------------------------------------
PN_LEN = 16


def gen_pn(rng):
    seed = rng.randrange(1, 1 << 48)
    if rng.random() < 0.35:
        # sparse traffic, different max_ack_delay on the two sides (both orders): lone in-order
        # packets arrive while the receiver has nothing to send, so its own ACK timer decides
        small, large = rng.choice([5, 10, 25]), rng.choice([100, 250, 400])
        mc, ms = (small, large) if rng.random() < 0.5 else (large, small)
        return [seed, rng.choice([0, 0, 1]), rng.choice([0, 0, 20]), 0, rng.choice([0, 5]), rng.choice([5, 20, 50]),
                rng.choice([1, 2]), rng.choice([2000, 6000]), mc, 2000, rng.choice([0, 0, 1]), rng.choice([0, 1]), 0,
                ms, rng.choice([300, 700]), rng.choice([200, 500])]
    lossy = rng.random() < 0.7
    return [seed, rng.choice([0, 1, 1, 1, 2]),
            rng.choice([10, 50, 100, 200]) if lossy else 0,
            rng.choice([0, 50, 300]) if lossy else 0,
            rng.choice([0, 10, 50, 200]) if lossy else 0,
            rng.choice([1, 5, 20, 50, 100]),
            rng.choice([1, 2, 4]), rng.choice([0, 2000, 30000, 100000, 200000]),
            rng.choice([0, 1, 5, 25, 100, 400]),
            rng.choice([1000, 5000, 20000]), rng.choice([0, 1]), rng.choice([0, 1, 2]),
            rng.choice([0, 0, 20, 100]) if lossy else 0,
            rng.choice([0, 0, 5, 100]), 0, 0]


def fixed_pn(tier):
    return [
        [1, 1, 0, 0, 0, 20, 2, 20000, 0, 0, 0, 1, 0, 0, 0, 0],        # one Retry, clean network
        [2, 0, 0, 0, 0, 20, 2, 20000, 0, 0, 0, 1, 0, 0, 0, 0],        # no Retry
        [3, 2, 100, 100, 50, 50, 2, 100000, 5, 10000, 1, 1, 50, 0, 0, 0],
        [4, 1, 200, 300, 200, 5, 4, 200000, 100, 20000, 0, 2, 0, 0, 0, 0],
        # sparse one-way and ping-pong traffic, the two sides advertise different max_ack_delay
        [5, 0, 0, 0, 0, 20, 1, 3000, 400, 0, 0, 1, 0, 10, 500, 300],
        [6, 0, 0, 0, 0, 20, 1, 3000, 10, 0, 0, 1, 0, 250, 500, 300],
    ]


def valid_pn(c):
    return (len(c) == PN_LEN and all(v >= 0 for v in c) and c[1] <= 2 and c[2] <= 200 and 1 <= c[6] <= 4 and c[7] <= 200000
            and c[11] <= 2 and c[14] <= 1000 and (c[14] == 0 or c[7] <= 20 * max(1, c[15])))


def nontrivial_pn(case, out):
    return len(out) > 7 and out[2] == 1 and out[6] > 50


def _pn_check(v, extra_us, evict=False, hold=False):
    """python mirror of the e2e_pn monitor; extra_us(srtt, cwnd) is added to max_ack_delay + 5 ms.
    evict=True additionally (a) waives an obligation when the first ACK frame sent after it carries the
    maximum of 10 ranges, all above the packet number (RFC 9000 13.2.3: the receiver limits the
    ranges it keeps; while ACKs are held back by the pacer the oldest range falls out).
    hold=True (used for BBR only, whose pacing rate is not cwnd / srtt) lets an obligation run up to
    2 s as long as the endpoint sent a packet within the 100 ms before it processed the packet and
    has sent no packet at all since - the signature of the pacer holding back all transmission
    right after a burst, as opposed to an idle endpoint that simply acknowledges late.
    returns (incr_ok, ranges_ok, timely_ok)"""
    endt, mads = v[3], (v[4], v[7])
    rows = [v[8 + 8 * i:14 + 8 * i] for i in range(v[6])]
    incr_ok = ranges_ok = timely_ok = True
    for ep in (0, 1):
        mad = mads[ep]
        for sp in (0, 1, 2):
            last, proc = -1, set()
            for r in rows:
                if r[:3] == [0, ep, sp]:
                    incr_ok &= last < r[3]
                    last = r[3]
                elif r[:3] == [1, ep, sp]:
                    proc.add(r[3])
                elif r[:3] == [2, ep, sp]:
                    ranges_ok &= r[3] <= r[4] and all(x in proc for x in range(r[3], r[4] + 1))
        pend, largest, srtt, cwnd, closed, last_send = [], -1, 333000, 12000, False, -10**9
        frame = []   # ranges of the ACK frame being read
        for r in rows:
            if frame and r[:3] != [2, ep, 2]:
                if evict and len(frame) >= 10:
                    lo = min(a for a, _ in frame)
                    pend = [q for q in pend if not q[0] < lo]
                frame = []
            if hold:
                overdue = [q for q in pend if r[5] > q[1] and (q[2] or not q[4] or r[5] > q[3] + 2000000)]
            else:
                overdue = [q for q in pend if r[5] > q[1]]
            if overdue:
                timely_ok = False
                pend = [q for q in pend if q not in overdue]
            if r[:2] == [0, ep]:
                pend = [(q[0], q[1], True, q[3], q[4]) for q in pend]
                last_send = r[5]
            if r[0] == 4 and r[1] == ep:
                closed = True
                break
            if r[0] == 5 and r[1] == ep:
                cwnd, srtt = max(1, r[3]), r[4]
            if r[:3] == [2, ep, 2]:
                frame.append((r[3], r[4]))
                pend = [q for q in pend if not (r[3] <= q[0] <= r[4])]
            if r[:3] == [1, ep, 2]:
                if r[4] == 1 and largest < r[3]:
                    pend.append((r[3], r[5] + mad + 5000 + extra_us(srtt, cwnd), False, r[5], r[5] - last_send <= 100000))
                largest = max(largest, r[3])
        if not closed and any(endt > q[1] and (not hold or q[2] or not q[4] or endt > q[3] + 2000000) for q in pend):
            timely_ok = False
    return incr_ok, ranges_ok, timely_ok


def classify_pn(p):
    """known classes of e2e_pn judge failures (None = not known)"""
    try:
        if p.get("component") != "e2e_pn":
            return None
        c, o = p["case"], p["impl"]
        # (a panicking case ends the harness process: the line then reads "!crash rc=3 panic in e2e_pn: ...")
        if o.startswith("!") and "Initial ID" in o and "was already in the map" in o and len(c) > 1 and c[1] >= 1:
            return "initial_id_already_in_map_after_retry"
        if o.startswith("!"):
            return None
        v = _parse(o)
        strict = _pn_check(v, lambda srtt, cwnd: 0)
        # the pacer's interval is MAX_BURST_PACKETS (10) datagrams at 1.25..2 x cwnd / srtt: up to
        # 10 * mds * srtt / cwnd; twice that (the values move while the packet waits), at least 50 ms
        loose = _pn_check(v, lambda srtt, cwnd: max(50000, 2 * 15000 * srtt // cwnd), evict=True, hold=(len(c) > 10 and c[10] == 1))
        if strict[0] and strict[1] and not strict[2] and loose[2]:
            return "ack_only_packets_paced"
        return None
    except Exception:
        return None


def hist_pn(cases, outs):
    h = {"with_retry": 0, "connected": 0, "capped": 0, "rows": 0, "ack_ranges": 0}
    for c, o in zip(cases, outs):
        if o.startswith("!"):
            continue
        v = _parse(o)
        h["with_retry"] += 1 if c[1] > 0 else 0
        h["connected"] += v[2]
        h["capped"] += v[5]
        h["rows"] += v[6]
        h["ack_ranges"] += sum(1 for i in range(v[6]) if v[8 + 8 * i] == 2)
    return h


# ---------------------------------------------------------------------------------------------
# e2e_cid  (C13)
# case: [seed, cid_lifetime_s (0 = none, else >= 60), limit_client, limit_server, rebinds,
#        rebind_every_ms, drop_pm, delay_ms, pause_ms, bytes, n_bidi, jitter_ms, fault_until_ms]
# ---------------------------------------------------------------------------------------------
CID_LEN = 13


def gen_cid(rng):
    seed = rng.randrange(1, 1 << 48)
    life = rng.choice([0, 60, 60, 61, 90, 120])
    pause = rng.choice([0, 2000, 10000, 20000]) if life else rng.choice([0, 500])
    lossy = rng.random() < 0.6
    return [seed, life, rng.choice([2, 2, 3, 4, 8]), rng.choice([2, 3, 3, 5, 8]),
            rng.choice([0, 0, 1, 2, 4]), rng.choice([300, 2000, 15000, 45000]),
            rng.choice([20, 80, 200]) if lossy else 0, rng.choice([2, 20, 60]), pause,
            rng.choice([1000, 50000, 150000]), rng.choice([1, 2]),
            rng.choice([0, 20, 100]) if lossy else 0, rng.choice([2000, 60000, 400000])]


def fixed_cid(tier):
    return [
        [1, 60, 3, 4, 2, 40000, 0, 20, 10000, 50000, 1, 0, 0],
        [2, 0, 2, 2, 4, 500, 0, 10, 200, 50000, 1, 0, 0],
        [3, 60, 8, 2, 1, 20000, 100, 20, 20000, 20000, 2, 50, 400000],
        [4, 90, 2, 8, 3, 30000, 50, 50, 15000, 100000, 1, 20, 400000],
    ]


def valid_cid(c):
    return (len(c) == CID_LEN and all(v >= 0 for v in c) and (c[1] == 0 or 60 <= c[1] <= 120) and 2 <= c[2] <= 8
            and 2 <= c[3] <= 8 and c[4] <= 4 and c[6] <= 200 and c[8] <= 20000 and c[9] <= 150000 and 1 <= c[10] <= 2)


def nontrivial_cid(case, out):
    return len(out) > 7 and out[2] == 1 and out[6] >= 6


def hist_cid(cases, outs):
    h = {"new_cid_sent": 0, "retire_sent": 0, "drops_unknown_dcid": 0, "with_rebind": 0, "with_lifetime": 0}
    for c, o in zip(cases, outs):
        if o.startswith("!"):
            continue
        v = _parse(o)
        ks = [v[7 + 8 * i] for i in range(v[6])]
        h["new_cid_sent"] += ks.count(0)
        h["retire_sent"] += ks.count(1)
        h["drops_unknown_dcid"] += ks.count(4)
        h["with_rebind"] += 1 if c[4] else 0
        h["with_lifetime"] += 1 if c[1] else 0
    return h


def classify_cid(p):
    """rpt_gt_seq_nonmonotone_lifetimes: a NEW_CONNECTION_ID with retire_prior_to > sequence number
    (not expected with one constant lifetime)"""
    try:
        if p.get("component") != "e2e_cid" or p["impl"].startswith("!"):
            return None
        v = _parse(p["impl"])
        rows = [v[7 + 8 * i:15 + 8 * i] for i in range(v[6])]
        if any(r[0] == 0 and r[3] > r[2] for r in rows):
            return "rpt_gt_seq_nonmonotone_lifetimes"
        return None
    except Exception:
        return None


# ---------------------------------------------------------------------------------------------
# e2e_cc  (C09 / C10)
# case: [seed, cc (0 cubic, 1 bbr), drop_pm, dup_pm, jitter_ms, delay_ms, n_bidi, bytes, fault_until_ms,
#        n_uni, max_udp]
# ---------------------------------------------------------------------------------------------
CC_LEN = 11


def gen_cc(rng):
    lossy = rng.random() < 0.75
    return [rng.randrange(1, 1 << 48), rng.choice([0, 1]),
            rng.choice([10, 50, 100, 200]) if lossy else 0, rng.choice([0, 100, 300]) if lossy else 0,
            rng.choice([0, 10, 100, 300]) if lossy else 0, rng.choice([1, 5, 20, 80, 200]),
            rng.choice([1, 2, 4]), rng.choice([5000, 50000, 150000, 300000]), rng.choice([3000, 20000, 60000]),
            rng.choice([0, 1]), rng.choice([1200, 1350, 1500, 9000])]


def fixed_cc(tier):
    return [
        [1, 0, 0, 0, 0, 20, 1, 100000, 0, 0, 1500],
        [2, 1, 0, 0, 0, 20, 1, 100000, 0, 0, 1500],
        [3, 0, 50, 0, 10, 20, 2, 100000, 5000, 1, 1500],
        [4, 1, 100, 100, 100, 50, 2, 300000, 20000, 1, 9000],
    ]


def valid_cc(c):
    return len(c) == CC_LEN and all(v >= 0 for v in c) and c[1] <= 1 and c[2] <= 200 and 1 <= c[6] <= 4 and c[7] <= 300000 and c[10] >= 1200


def nontrivial_cc(case, out):
    return len(out) > 6 and out[2] == 1 and out[5] > 100


def _cc_check(v, slack_us):
    """python mirror of the e2e_cc monitor (cc_scan and, for cubic, once_scan) with a slack on the
    time threshold; True = accepted"""
    cc = v[3]
    rows = [v[6 + 8 * i:14 + 8 * i] for i in range(v[5])]
    thr = lambda s, l: max(9 * max(s, l) // 8, 1000)
    for ep in (0, 1):
        unres, largest = {}, {}
        cwnd, srtt, latest, mtu, bif, after_cong, disc_t, pending = 12000, 333000, 333000, 1200, 0, False, -1, []
        # once_scan state
        o_sent, o_cwnd, o_mtu, o_rec, o_lost, o_ack_t = {}, 12000, 1200, -1, False, -1
        for r in rows:
            if r[1] != ep:
                continue
            k, t = r[0], r[7]
            if k == 7:
                break
            if k == 0:
                sp, pn, b, el, mode = r[2:7]
                if (sp, pn) in unres:
                    return False
                if el == 1 and mode == 0:
                    if not (bif < cwnd or after_cong):
                        return False
                    after_cong = False
                unres[(sp, pn)] = (b, el, t)
                o_sent[(sp, pn)] = (t, el)
                if el == 1:
                    bif += b
            elif k == 1:
                sp, lo, hi = r[2:5]
                for key in [q for q in unres if q[0] == sp and lo <= q[1] <= hi]:
                    if unres[key][1] == 1:
                        bif -= unres[key][0]
                    del unres[key]
                for key in [q for q in o_sent if q[0] == sp and lo <= q[1] <= hi]:
                    o_ack_t = max(o_ack_t, o_sent[key][0])
                    del o_sent[key]
                largest[sp] = max(largest.get(sp, -1), hi)
            elif k == 2:
                sp, pn, probe = r[2], r[3], r[5]
                if probe != 1 and (sp, pn) in o_sent and o_sent[(sp, pn)][1] == 1:
                    o_lost = True
                if (sp, pn) not in unres:
                    return False
                b, el, t0 = unres.pop((sp, pn))
                if el == 1:
                    bif -= b
                if not probe:
                    lg = largest.get(sp, -1)
                    if not pn < lg:
                        return False
                    if not (lg - pn >= 3 or t - t0 >= thr(srtt, latest) - slack_us):
                        pending.append(t - t0)
            elif k == 3:
                if not ((t == disc_t or r[4] == bif) and r[4] >= 0 and (2 if cc == 0 else 4) * mtu <= r[3]):
                    return False
                if any(a < thr(r[5], r[6]) - slack_us for a in pending):
                    return False
                cwnd, srtt, latest, pending = r[3], r[5], r[6], []
                if cc == 0:
                    is_md = abs(100 * r[3] - 70 * o_cwnd) <= o_cwnd
                    if o_lost and o_rec >= 0 and is_md and not r[3] <= 2 * o_mtu:
                        return False
                    rec1 = t if (o_lost and o_rec < 0 and is_md) else o_rec
                    rec2 = -1 if (rec1 >= 0 and rec1 < o_ack_t) else rec1
                    rec3 = -1 if (o_lost and r[3] <= 2 * o_mtu) else rec2
                    o_cwnd, o_rec, o_lost, o_ack_t = r[3], rec3, False, -1
            elif k == 4:
                for key in [q for q in unres if q[0] == r[2]]:
                    if unres[key][1] == 1:
                        bif -= unres[key][0]
                    del unres[key]
                disc_t = t
            elif k == 5:
                after_cong = True
            elif k == 6:
                mtu = r[3]
                o_mtu = r[3]
    return True


def classify_cc(p):
    """loss_time_threshold_short_by_granularity (known, C09): the only thing wrong is a time-threshold
    loss declared up to 1 ms (the timer granularity) early"""
    try:
        if p.get("component") != "e2e_cc" or p["impl"].startswith("!"):
            return None
        v = _parse(p["impl"])
        if not _cc_check(v, 0) and _cc_check(v, 1000):
            return "loss_time_threshold_short_by_granularity"
        return None
    except Exception:
        return None


def hist_cc(cases, outs):
    h = {"bbr": 0, "rows": 0, "lost": 0, "congestion_events": 0, "capped": 0}
    for c, o in zip(cases, outs):
        if o.startswith("!"):
            continue
        v = _parse(o)
        ks = [v[6 + 8 * i] for i in range(v[5])]
        h["bbr"] += c[1]
        h["rows"] += v[5]
        h["lost"] += ks.count(2)
        h["congestion_events"] += ks.count(5)
        h["capped"] += v[4]
    return h


# ---------------------------------------------------------------------------------------------
# e2e_violate  (C04)
# case: [seed, kind (1..8), after_n, n_bidi, n_uni, bytes, stream_window, conn_window, max_streams, delay_ms]
# ---------------------------------------------------------------------------------------------
VIOL_LEN = 10


def gen_violate(rng):
    return [rng.randrange(1, 1 << 48), rng.choice([1, 2, 3, 4, 5, 6, 7, 8]), rng.choice([1, 2, 5, 10, 25]),
            rng.choice([1, 2, 4]), rng.choice([1, 2]), rng.choice([20000, 60000, 200000]),
            rng.choice([10000, 50000, 300000]), rng.choice([20000, 100000, 1000000]),
            rng.choice([8, 10, 50]), rng.choice([1, 5, 20, 80])]


def fixed_violate(tier):
    return [[5, k, 3, 2, 1, 60000, 50000, 100000, 10, 10] for k in range(1, 9)]


def valid_violate(c):
    return len(c) == VIOL_LEN and all(v >= 0 for v in c) and 1 <= c[1] <= 8 and c[5] <= 200000


def nontrivial_violate(case, out):
    return len(out) > 11 and out[2] == 1


def hist_violate(cases, outs):
    h = {"injected_by_kind": [0] * 9, "victim_code": {}}
    for c, o in zip(cases, outs):
        if o.startswith("!"):
            continue
        v = _parse(o)
        if v[2] == 1:
            h["injected_by_kind"][v[1]] += 1
            h["victim_code"][str(v[8])] = h["victim_code"].get(str(v[8]), 0) + 1
    return h


def classify_violate(p):
    """the two known C04 findings: the victim does not close at all (no transport error; the run
    ends by idle timeout or normally) and no wrong byte was delivered"""
    try:
        if p.get("component") != "e2e_violate" or p["impl"].startswith("!"):
            return None
        v = _parse(p["impl"])
        n = v[11]
        flows = [v[12 + 10 * i:22 + 10 * i] for i in range(n)]
        if v[2] != 1 or any(f[6] != -1 for f in flows) or v[7] == 2:
            return None
        if v[1] == 6:
            return "reset_final_size_below_received"
        if v[1] == 7:
            return "wrong_direction_stream_frame_accepted"
        return None
    except Exception:
        return None


def _parse(o):
    return [(-int(t[1:], 16) if t.startswith("-") else int(t, 16)) for t in o.split()]


def classify_e2e(p):
    """class of a judge failure, for KNOWN_FINDINGS.txt (None = not a known class).

    both_windows_blocked_state_masks_stream_credit: bytes per stream > connection window > stream
    window; some stream direction stops although nothing is lost; both endpoints idle out.

    finish_flush_stream_never_finalized: finish_mode = 1 (finish() then flush().await) with fewer
    stream credits than streams; no permanent blackhole; no watchdog; every stream direction that
    exists delivered all of its data intact and ended cleanly; the only thing missing is streams
    that were never opened, and both endpoints ended by idle timeout."""
    try:
        if p.get("component") != "e2e_stream":
            return None
        c = p["case"]
        o = p["impl"]
        if len(c) != STREAM_LEN or o.startswith("!"):
            return None
        v = _parse(o)
        # common shape of both classes: finite faults, no watchdog, connected, both endpoints ended
        # by idle timeout, every application task resolved, no read byte wrong
        if v[0] != 1 or v[1] != 0 or v[4] != 1 or v[8] != 0:
            return None
        cl, sv = v[10:22], v[22:34]
        if not (cl[1] == 1 and cl[2] == 5 and sv[1] == 1 and sv[2] == 5):
            return None
        if cl[7] != cl[8] or sv[7] != sv[8]:
            return None
        n = v[34]
        flows = [v[35 + 10 * i:45 + 10 * i] for i in range(n)]
        if n == 0 or any(f[6] != -1 or f[5] > f[3] for f in flows):
            return None
        complete = [f[2] == f[3] == f[5] and f[4] == 1 and f[7] == 1 and f[8] == 0 and f[9] == 0 for f in flows]
        if c[20] == 1 and c[10] < c[6] + c[15]:
            # finish() + flush(): streams that exist are complete, later ones were never opened
            if all(complete) and n < 2 * v[5] + v[6]:
                return "finish_flush_stream_never_finalized"
            return None
        wanted = max(sum(f[2] for f in flows if f[1] == d) for d in (0, 1))
        if c[9] > c[8] and (c[7] > c[9] or wanted > c[9]) and not all(complete):
            # one sender's streams want more than the whole connection window while the stream window
            # is smaller: BlockedOnConnectionWindow masks the stream credit that arrives later
            return "both_windows_blocked_state_masks_stream_credit"
        return None
    except Exception:
        return None


E2E_COMPONENTS = {
    "e2e_stream": {
        "name": "e2e_stream", "harness": ("h_e2e", "E2E"), "ocaml": "E2E", "model": False,
        "gen": gen_stream, "fixed": fixed_stream, "quick": 40, "thorough": 600,
        "shard_lines": 1, "line_timeout": 300,
        "valid": valid_stream, "nontrivial": nontrivial_stream, "histogram": hist_stream,
        "classify": classify_e2e,
    },
    "e2e_amp": {
        "name": "e2e_amp", "harness": ("h_e2e", "E2E"), "ocaml": "E2E", "model": False,
        "gen": gen_amp, "fixed": fixed_amp, "quick": 60, "thorough": 1500,
        "shard_lines": 1, "line_timeout": 300,
        "valid": valid_amp, "nontrivial": nontrivial_amp, "histogram": hist_amp,
        "classify": classify_amp,
    },
    "e2e_pn": {
        "name": "e2e_pn", "harness": ("h_e2e", "E2E"), "ocaml": "E2E", "model": False,
        "gen": gen_pn, "fixed": fixed_pn, "quick": 50, "thorough": 800,
        "shard_lines": 1, "line_timeout": 300,
        "valid": valid_pn, "nontrivial": nontrivial_pn, "histogram": hist_pn,
        "classify": classify_pn,
    },
    "e2e_cid": {
        "name": "e2e_cid", "harness": ("h_e2e", "E2E"), "ocaml": "E2E", "model": False,
        "gen": gen_cid, "fixed": fixed_cid, "quick": 50, "thorough": 800,
        "shard_lines": 1, "line_timeout": 300,
        "valid": valid_cid, "nontrivial": nontrivial_cid, "histogram": hist_cid,
        "classify": classify_cid,
    },
    "e2e_cc": {
        "name": "e2e_cc", "harness": ("h_e2e", "E2E"), "ocaml": "E2E", "model": False,
        "gen": gen_cc, "fixed": fixed_cc, "quick": 40, "thorough": 600,
        "shard_lines": 1, "line_timeout": 300,
        "valid": valid_cc, "nontrivial": nontrivial_cc, "histogram": hist_cc,
        "classify": classify_cc,
    },
    "e2e_violate": {
        "name": "e2e_violate", "harness": ("h_e2e", "E2E"), "ocaml": "E2E", "model": False,
        "gen": gen_violate, "fixed": fixed_violate, "quick": 40, "thorough": 600,
        "shard_lines": 1, "line_timeout": 300,
        "valid": valid_violate, "nontrivial": nontrivial_violate, "histogram": hist_violate,
        "classify": classify_violate,
    },
    "e2e_inject": {
        "name": "e2e_inject", "harness": ("h_e2e", "E2E"), "ocaml": "E2E", "model": False,
        "gen": gen_inject, "fixed": fixed_inject, "quick": 40, "thorough": 600,
        "shard_lines": 1, "line_timeout": 300,
        "valid": valid_inject, "nontrivial": nontrivial_inject, "histogram": hist_inject,
    },
}

# the same traces judged for one property only: e2e_stream_c01 (C01), e2e_stream_c02 (C02),
# e2e_stream_c03 (C03), e2e_stream_c12 (C12).  The harness accepts these names as aliases of
# e2e_stream; the extracted model judges them with the corresponding conjunct of the combined
# judge (theorem E2E_stream_judge_split).  The two liveness findings only concern e2e_stream_c02.
for _suffix in ("c01", "c02", "c03", "c12"):
    _d = dict(E2E_COMPONENTS["e2e_stream"])
    _d["name"] = "e2e_stream_" + _suffix
    if _suffix != "c02":
        _d.pop("classify", None)
    E2E_COMPONENTS[_d["name"]] = _d


def classify_e2e_c02(p):
    q = dict(p)
    if q.get("component") == "e2e_stream_c02":
        q["component"] = "e2e_stream"
    return classify_e2e(q)


E2E_COMPONENTS["e2e_stream_c02"]["classify"] = classify_e2e_c02

