"""E2E -- end-to-end trace components: real s2n-quic endpoints on the deterministic testing IO
provider (harness/h_e2e/src/bin/E2E.rs), judged by Coq-extracted monitors that are proved sound
(coq/model/E2E.v, coq/proofs/E2EProofs.v, coq/props/E2E.v).

Running a monitor on a trace is testing, not proof: the proved part is monitor soundness.

This file does NOT register the components under C01/C02/C03/C06/C11/C12; it defines
E2E_COMPONENTS for the orchestrator to attach, plus ONE temporary property id "E2E" so that
`./check E2E` runs end to end.
"""
import registry

# ---------------------------------------------------------------------------------------------
# e2e_stream  (C01, C02, C03, C12)
# case: [seed, drop_pm, dup_pm, corrupt_pm, jitter_ms, max_udp, n_bidi, bytes, stream_window,
#        conn_window, max_streams, chunk, read_size, blackhole_after_ms, blackhole_len_ms (0 = forever),
#        n_uni, delay_ms, idle_ms, fault_until_ms, close_at_end, finish_mode]
# ---------------------------------------------------------------------------------------------
STREAM_LEN = 21


def _stream_case(rng, profile):
    seed = rng.randrange(1, 1 << 48)
    n_bidi = rng.choice([1, 1, 2, 3, 4, 6, 8])
    n_uni = rng.choice([0, 0, 1, 2, 3])
    delay = rng.choice([1, 5, 10, 20, 50, 100])
    max_udp = rng.choice([1200, 1250, 1350, 1450, 1500, 1500, 9000])
    chunk = rng.choice([1, 7, 100, 1000, 1200, 5000, 40000])
    read = rng.choice([0, 0, 1, 13, 500, 4096, 70000])
    close_at_end = rng.choice([0, 1, 1])
    drop = dup = corrupt = jitter = 0
    bh_after = bh_len = 0
    idle = 30000
    fault_until = 0
    sw = rng.choice([20000, 65536, 200000, 1 << 20])
    cw = rng.choice([30000, 131072, 400000, 1 << 21])
    ms = rng.choice([1, 2, 3, 5, 10, 100])
    total = rng.choice([0, 1, 1000, 20000, 60000, 100000, 200000])
    if profile == "lossy":
        drop = rng.choice([0, 10, 30, 60, 100, 150])
        dup = rng.choice([0, 0, 20, 100, 300])
        corrupt = rng.choice([0, 0, 10, 50, 100])
        jitter = rng.choice([0, 0, 5, 30, 100, 300])
        fault_until = rng.choice([2000, 5000, 15000, 40000])
    elif profile == "tiny":
        sw = rng.choice([1, 2, 10, 100, 1000, 1500, 5000])
        cw = rng.choice([1, 3, 50, 500, 3000, 10000])
        ms = rng.choice([1, 1, 2, 3])
        total = min(total, 150 * min(sw, cw))
        n_bidi = min(n_bidi, 4)
        if rng.random() < 0.5:
            drop = rng.choice([10, 50, 100])
            fault_until = rng.choice([2000, 10000])
    elif profile == "blackhole":
        bh_after = rng.choice([1, 5, 15, 30, 60, 100, 150, 250, 400, 800, 1500, 3000])
        bh_len = 0
        idle = rng.choice([2000, 3000, 5000, 8000])
        if rng.random() < 0.4:
            drop = rng.choice([20, 80])
            fault_until = 100000
    elif profile == "outage":
        bh_after = rng.choice([20, 60, 150, 400, 1000])
        bh_len = rng.choice([100, 500, 1500, 3000])
        idle = 30000
    # keep the volume (and with it the wall time) bounded
    nflows = 2 * n_bidi + n_uni
    total = min(total, 1600000 // max(1, nflows))
    finish_mode = 0
    if ms >= n_bidi + n_uni and rng.random() < 0.3:
        # finish() followed by flush(): the stream is never finalized by the implementation
        # (finding reported by the e2e harness), harmless only while stream credit is not needed
        finish_mode = 1
    return [seed, drop, dup, corrupt, jitter, max_udp, n_bidi, total, sw, cw, ms, chunk, read,
            bh_after, bh_len, n_uni, delay, idle, fault_until, close_at_end, finish_mode]


def gen_stream(rng):
    profile = rng.choice(["clean", "lossy", "lossy", "tiny", "tiny", "blackhole", "blackhole", "outage"])
    return _stream_case(rng, profile)


def fixed_stream(tier):
    return [
        # plain transfer, one of each stream type
        [1, 0, 0, 0, 0, 1500, 2, 20000, 65536, 131072, 10, 1000, 500, 0, 0, 1, 20, 10000, 0, 1, 0],
        # stream-count credit of 1 with several streams
        [4, 0, 0, 0, 0, 1500, 3, 100, 100000, 300000, 1, 700, 100, 0, 0, 2, 10, 5000, 0, 1, 0],
        # one byte windows
        [5, 0, 0, 0, 0, 1500, 1, 150, 1, 1, 1, 50, 10, 0, 0, 1, 5, 30000, 0, 0, 0],
        # blackhole from the first millisecond / mid handshake / mid transfer
        [6, 0, 0, 0, 0, 1500, 2, 50000, 65536, 131072, 10, 1000, 500, 1, 0, 1, 20, 5000, 0, 1, 0],
        [7, 0, 0, 0, 0, 1500, 2, 50000, 65536, 131072, 10, 1000, 500, 30, 0, 1, 20, 5000, 0, 1, 0],
        [8, 0, 0, 0, 0, 1500, 2, 200000, 65536, 131072, 10, 1000, 500, 150, 0, 1, 20, 3000, 0, 1, 0],
        # heavy faults for 30 s
        [3, 100, 100, 50, 100, 1400, 8, 100000, 20000, 50000, 3, 5000, 0, 0, 0, 3, 50, 30000, 30000, 1, 0],
    ]


def valid_stream(c):
    return (len(c) == STREAM_LEN and all(v >= 0 for v in c) and c[5] >= 1200 and c[6] <= 8 and c[15] <= 3
            and c[7] <= 200000 and c[1] <= 150 and c[17] >= 2000
            and (c[14] == 0 or c[14] <= 3000) and (c[20] == 0 or c[10] >= c[6] + c[15])
            and (c[18] <= 100000) and c[7] <= 150 * min(c[8], c[9]) + 1)


def nontrivial_stream(case, out):
    # connected and at least one flow moved data
    return len(out) > 30 and out[4] == 1 and out[29] >= 1


def hist_stream(cases, outs):
    h = {"perm_blackhole": 0, "outage": 0, "lossy": 0, "capped_records": 0, "connected": 0, "idle_closed": 0}
    for c, o in zip(cases, outs):
        if o.startswith("!"):
            continue
        v = o.split()
        h["perm_blackhole"] += 1 if (c[13] > 0 and c[14] == 0) else 0
        h["outage"] += 1 if (c[13] > 0 and c[14] > 0) else 0
        h["lossy"] += 1 if c[1] + c[2] + c[3] + c[4] > 0 else 0
        h["connected"] += 1 if v[4] == "1" else 0
        h["idle_closed"] += 1 if v[11] == "5" else 0
    return h


E2E_COMPONENTS = {
    "e2e_stream": {
        "name": "e2e_stream", "harness": ("h_e2e", "E2E"), "ocaml": "E2E", "model": False,
        "gen": gen_stream, "fixed": fixed_stream, "quick": 40, "thorough": 600,
        "shard_lines": 1, "line_timeout": 300,
        "valid": valid_stream, "nontrivial": nontrivial_stream, "histogram": hist_stream,
    },
}

# ---------------------------------------------------------------------------------------------
# temporary registration so that `./check E2E` runs end to end (to be removed by the orchestrator
# when the components are attached to C01/C02/C03/C06/C11/C12)
# ---------------------------------------------------------------------------------------------
registry.register("E2E", {
    "gen": ["E2E"],          # no translator family
    "props_file": "props/E2E.v",
    "extract_target": "extract/Ex_E2E.vo",
    "harness": "h_e2e",
    "harness_bin": "E2E",
    "axioms_allowed": [],
    "components": [E2E_COMPONENTS[k] for k in ("e2e_stream",)],
    "rule": "seeded simulated connections over parameter profiles (clean / lossy / tiny windows and stream credit / permanent blackhole at every phase / temporary outage); a case is non-trivial when the handshake completed and at least one stream direction exists",
    "assumptions": [
        "running a monitor on a recorded trace is testing, not proof; the proved part is monitor soundness (props/E2E.v)",
        "the harness computes the per-frame comparison flags (data vs written bytes, vs first-sent bytes), the checksums and the genuine-packet set membership; the monitors take those fields as given",
        "the TLS library's own randomness is outside the simulation's control (key material only)",
    ],
    "trusted_base": ["no axioms: Print Assumptions reports 'Closed under the global context' for every E2E theorem",
                     "harness/h_e2e/src/bin/E2E.rs (trace recording), s2n-quic testing IO provider (bach executor)"],
    "explanation": "Coq-extracted boolean monitors (the property texts of C01/C02/C03/C12, C11, C06 on integer traces) proved sound against Prop-level statements; traces come from real endpoints on the deterministic simulated network",
})
