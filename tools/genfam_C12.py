"""Translator family C12 (shared by C03): constants of the send side of streams."""
import re
from gen_consts import family, Family, read, strip_comments, eval_int, EvalError

TRAITS = "quic/s2n-quic-transport/src/sync/data_sender/traits.rs"
SID = "quic/s2n-quic-core/src/stream/id.rs"
CLOSE = "quic/s2n-quic-transport/src/connection/close_sender.rs"
STREAMF = "quic/s2n-quic-core/src/frame/stream.rs"


def _try(fn):
    try:
        return fn()
    except (EvalError, AttributeError, TypeError, ValueError):
        return None


@family
def gen_C12():
    f = Family("C12")
    # minimum payload the DataSender wants to write when a chunk would be fragmented
    f.const("min_write_size", TRAITS, r"const\s+MIN_WRITE_SIZE\s*:\s*usize\s*=\s*([^;]+);")
    # transmit_interval clamps the packet capacity: `capacity.min(u16::MAX as _)`
    f.const("transmit_capacity_clamp", "quic/s2n-quic-transport/src/sync/data_sender/transmissions.rs",
            r"let\s+capacity\s*=\s*capacity\.min\(([^)]+?)\s+as\s+_\)")
    # StreamId::next_of_type adds 4
    f.const("stream_id_step", SID, r"fn\s+next_of_type.*?checked_add\(VarInt::from_u32\(([^)]+)\)\)")
    # StreamId::initial: (bidi, client) -> 0, (bidi, server) -> 1, (uni, client) -> 2, (uni, server) -> 3
    src = read(SID)
    src = strip_comments(src) if src is not None else ""
    for name, pat in (("sid_initial_bidi_client", r"\(true,\s*true\)\s*=>\s*StreamId\(VarInt::from_u32\((\d+)\)\)"),
                      ("sid_initial_bidi_server", r"\(true,\s*false\)\s*=>\s*StreamId\(VarInt::from_u32\((\d+)\)\)"),
                      ("sid_initial_uni_client", r"\(false,\s*true\)\s*=>\s*StreamId\(VarInt::from_u32\((\d+)\)\)"),
                      ("sid_initial_uni_server", r"\(false,\s*false\)\s*=>\s*StreamId\(VarInt::from_u32\((\d+)\)\)")):
        f.n(name, _try(lambda: eval_int(re.search(pat, src).group(1))), SID)
    # close limiter: factor starts at 1, received at 0
    f.const("close_factor_init", CLOSE, r"factor:\s*Counter::new\(([^)]+)\)")
    f.const("close_received_init", CLOSE, r"received:\s*Counter::new\(([^)]+)\)")
    # STREAM frame tag bits
    f.const("stream_tag", STREAMF, r"const\s+STREAM_TAG\s*:\s*u8\s*=\s*([^;]+);")
    f.const("stream_off_bit", STREAMF, r"const\s+OFF_BIT\s*:\s*u8\s*=\s*([^;]+);")
    f.const("stream_len_bit", STREAMF, r"const\s+LEN_BIT\s*:\s*u8\s*=\s*([^;]+);")
    f.const("stream_fin_bit", STREAMF, r"const\s+FIN_BIT\s*:\s*u8\s*=\s*([^;]+);")
    return f
