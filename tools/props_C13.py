"""C13 -- connection IDs are issued, routed and retired consistently."""
import os, re
import registry

S = 1000000          # microseconds per second
ID_BASE, TOK_BASE = 1000, 5000
LIFES = [0, 60 * S, 60 * S, 61 * S, 90 * S, 120 * S, 3600 * S]
DELTAS = [-1001, -1000, -999, -1, 0, 1, 999, 1000, 1001, 2000, 2001]
KNOWN_CLASS = "rpt_gt_seq_nonmonotone_lifetimes"


def _known_listed():
    p = os.path.join(os.path.dirname(os.path.abspath(__file__)), "..", "KNOWN_FINDINGS.txt")
    try:
        return any(re.match(r"known:\s+property=C13\s+class=%s\b" % KNOWN_CLASS, ln) for ln in open(p))
    except OSError:
        return False


# ------------------------------------------------------------------------------------------------
# lcid: LocalIdRegistry + mapper.  case = nconn (rot life)^nconn (code c a b d)*

def gen_lcid(rng, vary_life=False):
    nconn = rng.choice([1, 1, 2, 2, 3])
    life = rng.choice(LIFES)
    case = [nconn - 1]
    now = 100 * S
    times = []          # interesting instants (retirement / removal times)
    pns = [0] * nconn
    nreg = [1] * nconn
    for c in range(nconn):
        case += [rng.choice([0, 1, 1]), life]
        if life:
            times += [now + life - 30 * S, now + life]
    nops = rng.choice([2, 4, 6, 10, 16, 24, 40])
    limit_done = [False] * nconn
    for _ in range(nops):
        c = rng.randrange(nconn)
        r = rng.random()
        if not limit_done[c] and r < 0.85:
            limit_done[c] = True
            case += [1, c, rng.choice([0, 1, 1, 1, 2, 3, 6]), 0, 0]
        elif r < 0.03:
            case += [1, c, rng.randrange(7), 0, 0]
        elif r < 0.30:
            lf = rng.choice(LIFES) if vary_life else life
            reuse = rng.choice([0, 0, 0, 0, rng.randrange(1, 12)])
            case += [2, c, lf, reuse, rng.choice([0, 1, 2, 3, 3])]
            nreg[c] += 2
            if lf:
                times += [now + lf - 30 * S, now + lf]
        elif r < 0.42:
            seq = rng.choice([0, 0, 1, 1, 2, 3, rng.randrange(0, max(1, nreg[c])), rng.randrange(16)])
            dsel = rng.choice([0, 1, 2, 3, rng.randrange(64)])
            rtt = rng.choice([0, 1, 333, 1000, 100000, 333333, S, 10 * S])
            case += [3, c, seq, dsel, rtt]
            times.append(now + 3 * rtt)
        elif r < 0.67:
            case += [4, c, rng.choice([0, 0, 0, 0, 0, 1, 1, 2, 3]), rng.choice([0, 1, 1, 2, 3, 4, 4]), 0]
            pns[c] += 1
        elif r < 0.77:
            lo = max(0, pns[c] - rng.choice([1, 1, 1, 2, 3]))
            case += [5, c, lo, rng.choice([0, 0, 1, 3]), 0]
        elif r < 0.84:
            lo = max(0, pns[c] - rng.choice([1, 1, 1, 2, 3]))
            case += [6, c, lo, rng.choice([0, 0, 1, 3]), 0]
        elif r < 0.95:
            fut = [t for t in times if t > now - 2000]
            if fut and rng.random() < 0.8:
                t = rng.choice(sorted(fut)[:3] if rng.random() < 0.7 else fut)
                dt = max(0, t - now + rng.choice(DELTAS))
            else:
                dt = rng.choice([0, 1, 999, 1000, S, 29 * S, 30 * S, 31 * S, 60 * S, 200 * S])
            dt = min(dt, 200 * S)
            now += dt
            case += [7, c, dt, 0, 0]
            times.append(now + 30 * S)
        elif r < 0.99:
            case += [8, c, 0, 0, 0]
        else:
            case += [9, c, 0, 0, 0]
    return case


def finding_family():
    """per-id lifetimes that are not monotone: seq 1 without lifetime, seq 2 with 60 s; seq 2 is retired at
    +31 s (retire_prior_to = 3) while seq 1 is still waiting to be sent"""
    return [
        [0, 0, 0, 1, 0, 1, 0, 0, 2, 0, 0, 0, 1, 2, 0, 60 * S, 0, 1, 7, 0, 31 * S, 0, 0, 4, 0, 0, 4, 0],
    ]


def fixed_lcid(tier):
    out = []
    # one connection, constant lifetime L: register, transmit, lose, retransmit, expire at the exact edges
    for L in (60 * S, 61 * S):
        for d in DELTAS:
            out.append([0, 1, L,
                        1, 0, 1, 0, 0,
                        2, 0, L, 0, 3,
                        4, 0, 0, 1, 0,
                        6, 0, 0, 0, 0,
                        7, 0, max(0, L - 30 * S + d), 0, 0,
                        4, 0, 0, 4, 0,
                        2, 0, L, 0, 3,
                        4, 0, 0, 4, 0,
                        7, 0, 30 * S + d, 0, 0,
                        2, 0, L, 0, 3,
                        4, 0, 1, 4, 0,
                        4, 0, 0, 4, 0])
    # retire by the peer: every sequence number, self and foreign DCID, removal after 3 RTT
    for seq in range(0, 4):
        for dsel in (0, 1, 2):
            out.append([1, 1, 0, 0, 0,
                        1, 0, 6, 0, 0, 1, 1, 0, 0, 0,
                        2, 0, 0, 0, 3, 2, 1, 0, 1, 3,
                        4, 0, 0, 4, 0, 5, 0, 0, 0, 0,
                        3, 0, seq, dsel, 1000,
                        7, 0, 2000, 0, 0, 7, 0, 1000, 0, 0, 7, 0, 1, 0, 0,
                        2, 0, 0, 2, 3, 4, 0, 0, 4, 0,
                        3, 0, seq, dsel + 1, 0, 7, 0, 0, 0, 0])
    # rotation of the handshake id with and without a lifetime
    for L in (0, 60 * S):
        out.append([0, 1, L, 8, 0, 0, 0, 0, 2, 0, L, 0, 3, 4, 0, 0, 4, 0, 1, 0, 0, 0, 0, 2, 0, L, 0, 3,
                    4, 0, 0, 4, 0, 3, 0, 0, 2, 0, 7, 0, 31 * S, 0, 0, 7, 0, 30 * S, 0, 0, 2, 0, L, 0, 3, 4, 0, 0, 4, 0])
    if _known_listed():
        out += finding_family()
    return out


def frames_of(out):
    """(seq, rpt) of every NEW_CONNECTION_ID frame in an lcid output line"""
    fr = []
    for i in range(len(out) - 4):
        if out[i] == 0x18 and ID_BASE <= out[i + 3] < ID_BASE + 64 and out[i + 4] == out[i + 3] + TOK_BASE - ID_BASE:
            fr.append((out[i + 1], out[i + 2]))
    return fr


def lives_of(case):
    if not case:
        return []
    nconn = case[0] % 3 + 1
    lv = [case[2 + 2 * i] for i in range(nconn) if 2 + 2 * i < len(case)]
    ops = case[1 + 2 * nconn:]
    for i in range(0, len(ops), 5):
        if ops[i] % 10 == 2 and i + 2 < len(ops):
            lv.append(ops[i + 2])
    return lv


def classify(p):
    """the only recorded class: a frame with retire_prior_to > sequence_number in a case whose per-id lifetimes differ"""
    try:
        from run_check import parse_hexline
        case = p.get("minimal_case", p["case"])
        impl = p.get("minimal_impl", p["impl"])
        if p["component"] != "lcid" or impl.startswith("!"):
            return None
        fr = frames_of(parse_hexline(impl))
        if any(rpt > seq for seq, rpt in fr) and len(set(lives_of(case))) > 1:
            return KNOWN_CLASS
    except Exception:
        return None
    return None


def hist_lcid(cases, outs):
    from run_check import parse_hexline
    ops = {}
    frames = 0
    for c in cases:
        n = c[0] % 3 + 1 if c else 1
        o = c[1 + 2 * n:]
        for i in range(0, len(o), 5):
            ops[o[i] % 10] = ops.get(o[i] % 10, 0) + 1
    for o in outs[:2000]:
        if not o.startswith("!"):
            frames += len(frames_of(parse_hexline(o)))
    return {"ops": ops, "new_connection_id_frames_in_first_2000": frames}


VMAX = (1 << 62) - 1


# ------------------------------------------------------------------------------------------------
# pcid: PeerIdRegistry.  case = rot tok0 (code a b c d)*

def gen_pcid(rng):
    case = [rng.choice([0, 1, 1]), rng.choice([0, 1])]
    nxt = 1           # next fresh sequence number of the simulated peer
    rpt = 0
    sent = []         # frames sent so far (seq, rpt, c, d)
    pn = 0
    nops = rng.choice([1, 2, 3, 5, 8, 12, 20, 30])
    for _ in range(nops):
        r = rng.random()
        if r < 0.45:
            q = rng.random()
            if q < 0.60 or not sent:
                seq = nxt + (rng.choice([1, 2]) if rng.random() < 0.08 else 0)
                nxt = seq + 1
                if rng.random() < 0.35:
                    rpt = min(seq, rpt + rng.choice([1, 1, 2, 3]))
                p = rpt if rng.random() < 0.85 else rng.choice([0, seq, seq + 1, max(0, rpt - 1)])
                f = (seq, p, seq % 16, seq % 16)
            elif q < 0.75:
                s0 = rng.choice(sent)          # retransmission, possibly with another retire_prior_to
                f = (s0[0], s0[1] if rng.random() < 0.6 else rng.choice([0, rpt, s0[0]]), s0[2], s0[3])
            elif q < 0.93:
                s0 = rng.choice(sent)          # conflicting frame
                k = rng.randrange(4)
                f = [(s0[0], s0[1], (s0[2] + 1) % 16, (s0[3] + 5) % 16),      # same seq, other id and token
                     (nxt, rpt, s0[2], nxt % 16),                              # same id, other seq
                     (nxt, rpt, nxt % 16, s0[3]),                              # same token, other id
                     (s0[0], s0[1], s0[2], (s0[3] + 1) % 16)][k]               # same seq and id, other token
            else:
                big = rng.choice([(1 << 32) - 1, 1 << 32, (1 << 32) + 1, (1 << 62) - 1])
                f = (big, rng.choice([0, rpt, big, (1 << 32)]), rng.randrange(16), rng.randrange(16))
            sent.append(f)
            case += [1, f[0], f[1], f[2], f[3]]
        elif r < 0.55:
            case += [2, 0, 0, 0, 0]
        elif r < 0.80:
            case += [3, rng.choice([0, 0, 0, 0, 1, 1, 2, 3]), rng.choice([0, 1, 1, 2, 4, 4]), 0, 0]
            pn += 1
        elif r < 0.92:
            lo = max(0, pn - rng.choice([1, 1, 1, 2, 3]))
            case += [4, lo, rng.choice([0, 0, 1, 3]), 0, 0]
        else:
            lo = max(0, pn - rng.choice([1, 1, 1, 2, 3]))
            case += [5, lo, rng.choice([0, 0, 1, 3]), 0, 0]
    return case


def fixed_pcid(tier):
    import itertools
    out = []
    # the validation rules one by one after a common prefix (seq 1 and 2 accepted)
    pre = [1, 1, 0, 1, 1, 1, 2, 0, 2, 2]
    for rot in (0, 1):
        for tok0 in (0, 1):
            h = [rot, tok0]
            for f in [(3, 4, 3, 3), (3, 3, 3, 3), (1, 0, 1, 1), (1, 1, 1, 1), (1, 0, 4, 1), (1, 0, 1, 4), (3, 0, 1, 3),
                      (3, 0, 3, 1), (3, 0, 3, 0), (0, 0, 0, 0), (0, 0, 5, 5), (5, 0, 0, 5), (3, 0, 3, 3), (4, 4, 4, 4),
                      (1 << 32, 0, 3, 3), ((1 << 32) - 1, 0, 3, 3), ((1 << 32) + 5, 1 << 32, 3, 3)]:
                out.append(h + pre + [1] + list(f) + [3, 0, 4, 0, 0, 1, 4, 0, 4, 4, 1, 5, 0, 5, 5, 3, 0, 4, 0, 0])
            # limit excess with and without retire_prior_to
            for rp in range(0, 5):
                c = list(h)
                for s in range(1, 5):
                    c += [1, s, min(rp, s), s, s]
                c += [3, 0, 4, 0, 0, 4, 0, 0, 0, 0, 1, 5, min(rp, 5), 5, 5, 2, 0, 0, 0, 0, 3, 0, 4, 0, 0]
                out.append(c)
            # more than 6 retirements outstanding
            c = list(h)
            for s in range(1, 12):
                c += [1, s, s, s, s]
            out.append(c)
    # all short sequences of a small alphabet of frames and ops
    alpha = [[1, 1, 0, 1, 1], [1, 2, 1, 2, 2], [1, 2, 2, 2, 2], [1, 3, 2, 3, 3], [1, 1, 0, 2, 1], [2, 0, 0, 0, 0],
             [3, 0, 4, 0, 0], [3, 1, 4, 0, 0], [4, 0, 1, 0, 0], [5, 0, 1, 0, 0]]
    L = 4 if tier == "quick" else 5
    for n in range(1, L + 1):
        for t in itertools.product(range(len(alpha)), repeat=n):
            out.append([1, 1] + [v for k in t for v in alpha[k]])
    return out


def retire_frames(out):
    return sum(1 for i in range(len(out) - 1) if out[i] == 0x19 and 0 <= out[i + 1] < 64)


def hist_pcid(cases, outs):
    from run_check import parse_hexline
    codes = {}
    for c, o in zip(cases[:5000], outs[:5000]):
        if o.startswith("!"):
            continue
        v = parse_hexline(o)
        ops = c[2:]
        # result code of every NEW_CONNECTION_ID op: walk the output in step with the ops
        i = 0
        closed = False
        for j in range(0, len(ops), 5):
            code = ops[j] % 6
            i += 1
            if closed:
                i += 3
                continue
            if code == 1:
                codes[v[i]] = codes.get(v[i], 0) + 1
                closed = v[i] != 0
                i += 3
            elif code == 2:
                i += 3
            elif code == 3:
                i += 2 + 2 * v[i + 1] + 2
            else:
                i += 2
    return {"new_connection_id_result_codes": {("%x" % k): n for k, n in sorted(codes.items())}}

registry.register("C13", {
    "gen": ["C13"],
    "props_file": "props/C13.v",
    "extract_target": "extract/Ex_C13.vo",
    "harness": "h_transport",
    "axioms_allowed": [],
    "classify": classify,
    "components": [
        {"name": "lcid", "gen": gen_lcid, "fixed": fixed_lcid, "quick": 20000, "thorough": 400000,
         "valid": lambda c: all(0 <= v <= VMAX for v in c),
         "nontrivial": lambda case, out: len(frames_of(out)) >= 1,
         "histogram": hist_lcid},
        {"name": "pcid", "gen": gen_pcid, "fixed": fixed_pcid, "quick": 20000, "thorough": 400000,
         "valid": lambda c: all(0 <= v <= VMAX for v in c),
         "nontrivial": lambda case, out: retire_frames(out) >= 1,
         "histogram": hist_pcid},
    ],
    "rule": "lcid: boundary families (constant lifetime 60/61 s with timeouts at every edge -1001..+2001 us around retirement and removal; "
            "RETIRE_CONNECTION_ID of every sequence number with own/foreign DCID and removal after 3 RTT; handshake id rotation) + seeded "
            "random op sequences over 1-3 connections sharing one mapper (set_limit 2..8, register up to interest with duplicate-id attempts, "
            "retire, transmit under all 4 constraints with packet capacity 0..4, ack/loss of recent packets, timeouts aimed at the recorded "
            "retirement/removal instants, handshake confirmed, close), one lifetime per case; a case is non-trivial when at least one "
            "NEW_CONNECTION_ID frame is written. pcid: every validation rule after a common prefix x rotate x initial token, limit excess "
            "with each retire_prior_to, >6 outstanding retirements, all sequences of length <= 4 (quick) / 5 (thorough) over a 10 letter "
            "alphabet of frames and ops + seeded random sequences with retransmissions, conflicts, gaps, retire_prior_to > seq, values "
            "around 2^32; non-trivial when at least one RETIRE_CONNECTION_ID frame is written",
    "assumptions": [
        "ids are registered as ConnectionImpl::on_new_connection_id does: only after connection_id_interest(), at most that many, with fresh stateless reset tokens",
        "set_active_connection_id_limit is applied once per connection (the peer's transport parameters) with a value >= 2",
        "lifetimes lie in [MIN_LIFETIME, MAX_LIFETIME] as connection::id::Generator validation enforces; u32 sequence counters do not wrap (at most 40 ids per case)",
        "an id counts as retired once the peer's RETIRE_CONNECTION_ID was accepted, its configured lifetime is over (to within 2 x K_GRANULARITY), or the connection is closed",
        "the destination connection id in use on the peer side follows path::Manager::on_new_connection_id / handle_connection_migration (re-created in the harness, the path manager itself is not driven)",
    ],
    "trusted_base": ["no axioms: Print Assumptions reports 'Closed under the global context' for every C13 theorem",
                     "hook /repo/quic/s2n-quic-transport/src/verif_hooks/cids.rs (recording WriteContext parses the written wire image by hand)"],
    "not_proved": "closed judge_run for lcid: the unconditional statement is false of the faithful model (C13_rpt_le_seq_refuted); the version under one constant lifetime is not proved (its ingredients are: C13_routed, C13_issued_within_limit, C13_seq_consecutive_distinct, C13_frames_are_registered, C13_rpt_le_seq_constant_lifetime); pcid has the closed C13_pcid_judge_model",
    "explanation": "Coq theorems C13_* over the models of local_id_registry.rs / peer_id_registry.rs / the mapper's maps for all operation sequences; models tied to the source by generated constants and differential execution; judgement recomputed from the ops alone",
})
