"""Translator family C06: header-protection masks, nonce layout, RFC 9001 salt and HKDF labels,
read from the current source tree."""
import re
from gen_consts import family, Family, read, strip_comments, eval_int, EvalError

HC = "quic/s2n-quic-core/src/crypto/header_crypto.rs"
PL = "quic/s2n-quic-core/src/crypto/payload.rs"
PP = "quic/s2n-quic-core/src/crypto/packet_protection.rs"
LB = "quic/s2n-quic-core/src/crypto/label.rs"
INI = "quic/s2n-quic-core/src/crypto/initial.rs"
PNL = "quic/s2n-quic-core/src/packet/number/packet_number_len.rs"
PNM = "quic/s2n-quic-core/src/packet/number/mod.rs"
IV = "quic/s2n-quic-crypto/src/iv.rs"
TOK = "quic/s2n-quic-core/src/stateless_reset/token.rs"


def _src(rel):
    s = read(rel)
    return strip_comments(s) if s is not None else ""


def _bytes_const(f, cname, rel, rust_name):
    """pub const NAME: [u8; n] = hex!("..") | *b"..";  ->  Definition cname : list N"""
    src = _src(rel)
    val = None
    m = re.search(r"const\s+%s\s*:\s*\[u8;\s*(\d+)\]\s*=\s*(hex!\(\s*\"([0-9a-fA-F\s]*)\"\s*\)|\*b\"([^\"]*)\")\s*;" % rust_name, src)
    if m:
        n = int(m.group(1))
        if m.group(3) is not None:
            h = re.sub(r"\s+", "", m.group(3))
            if len(h) % 2 == 0:
                val = [int(h[i:i + 2], 16) for i in range(0, len(h), 2)]
        else:
            s = m.group(4)
            if "\\" not in s:
                val = [ord(c) for c in s]
        if val is not None and len(val) != n:
            val = None
    if val is None:
        f.missing.append(cname)
        f.raw("(* MISSING %s : could not be read from %s *)" % (cname, rel))
    else:
        f.values[cname] = val
        f.raw("Definition %s : list N := [%s]%%N.   (* %s %s *)" % (cname, "; ".join(str(b) for b in val), rel, rust_name))
    return val


def _try(fn):
    try:
        return fn()
    except (EvalError, AttributeError, TypeError, ValueError):
        return None


@family
def gen_C06():
    f = Family("C06")
    # header protection (header_crypto.rs)
    f.const("hp_long_header_tag", HC, r"const\s+LONG_HEADER_TAG\s*:\s*u8\s*=\s*([^;]+);")
    f.const("hp_long_header_mask", HC, r"const\s+LONG_HEADER_MASK\s*:\s*u8\s*=\s*([^;]+);")
    f.const("hp_short_header_mask", HC, r"const\s+SHORT_HEADER_MASK\s*:\s*u8\s*=\s*([^;]+);")
    f.const("hp_mask_len", HC, r"const\s+HEADER_PROTECTION_MASK_LEN\s*:\s*usize\s*=\s*([^;]+);")
    # the pn bytes are XORed with mask[k..]: `zip(&mask[1..])`
    f.const("hp_mask_pn_start", HC, r"payload\.iter_mut\(\)\.zip\(&mask\[(\d+)\.\.\]\)")
    # packet number length: tag & PACKET_NUMBER_LEN_MASK, bytesize = value + 1
    f.const("pn_len_mask", PNM, r"const\s+PACKET_NUMBER_LEN_MASK\s*:\s*u8\s*=\s*([^;]+);")
    f.const("pn_len_bias", PNL, r"fn\s+bytesize\(self\)\s*->\s*usize\s*\{\s*self\s+as\s+usize\s*\+\s*(\d+)\s*\}")
    # sample offset: the packet number field is assumed MAX_LEN = U32_SIZE bytes long
    src = _src(PNL)
    u32_size = _try(lambda: eval_int(re.search(r"const\s+U32_SIZE\s*:\s*usize\s*=\s*([^;]+);", src).group(1)))
    max_len_is_u32 = re.search(r"const\s+MAX_LEN\s*:\s*usize\s*=\s*U32_SIZE\s*;", src) is not None
    skips = re.search(r"buffer\.skip\(header_len\)\?;.*?buffer\.skip\(PacketNumberLen::MAX_LEN\)\?;.*?decode_slice\(sample_len\)\?",
                      _src(PL), re.S) is not None
    f.n("hp_sample_pn_skip", u32_size if (max_len_is_u32 and skips) else None, PL)
    # nonce layout (iv.rs): encode(&0u32) then encode(&packet_number) with packet_number: u64, then XOR with the iv
    ivs = _src(IV)
    m = re.search(r"fn\s+nonce\(&self,\s*packet_number:\s*u(\d+)\)\s*->\s*\[u8;\s*NONCE_LEN\]\s*\{(.*?)\n    \}", ivs, re.S)
    pad = pnb = None
    if m:
        body = m.group(2)
        m2 = re.search(r"encoder\.encode\(&0u(\d+)\);\s*encoder\.encode\(&packet_number\);\s*"
                       r"for\s*\(a,\s*b\)\s*in\s*nonce\.iter_mut\(\)\.zip\(self\.0\.iter\(\)\)\s*\{\s*\*a\s*\^=\s*b;\s*\}", body)
        if m2:
            pad = int(m2.group(1)) // 8
            pnb = int(m.group(1)) // 8
    f.n("nonce_pad_bytes", pad, IV)
    f.n("nonce_pn_bytes", pnb, IV)
    # RFC 9001 constants
    _bytes_const(f, "initial_salt", INI, "INITIAL_SALT")
    _bytes_const(f, "label_client_in", INI, "INITIAL_CLIENT_LABEL")
    _bytes_const(f, "label_server_in", INI, "INITIAL_SERVER_LABEL")
    _bytes_const(f, "label_quic_key", PP, "QUIC_KEY_LABEL")
    _bytes_const(f, "label_quic_iv", PP, "QUIC_IV_LABEL")
    _bytes_const(f, "label_quic_hp", PP, "QUIC_HP_LABEL")
    # the HkdfLabel structures actually fed to HKDF-Expand (label.rs)
    for cname, rn in (("hkdf_client_in", "CLIENT_IN"), ("hkdf_server_in", "SERVER_IN"), ("hkdf_quic_key_16", "QUIC_KEY_16"),
                      ("hkdf_quic_iv_12", "QUIC_IV_12"), ("hkdf_quic_hp_16", "QUIC_HP_16"), ("hkdf_quic_ku_16", "QUIC_KU_16"),
                      ("hkdf_quic_key_32", "QUIC_KEY_32"), ("hkdf_quic_hp_32", "QUIC_HP_32"), ("hkdf_quic_ku_32", "QUIC_KU_32"),
                      ("hkdf_quic_ku_48", "QUIC_KU_48")):
        _bytes_const(f, cname, LB, rn)
    # SlidingWindow width (1 + bits of the u128 bitfield)
    SW = "quic/s2n-quic-core/src/packet/number/sliding_window.rs"
    sws = _src(SW)
    def width():
        bits = int(re.search(r"type\s+Window\s*=\s*u(\d+)\s*;", sws).group(1))
        e = re.search(r"const\s+WINDOW_WIDTH\s*:\s*u64\s*=\s*([^;]+);", sws).group(1)
        e = re.sub(r"(?:core::)?mem::size_of::<\s*Window\s*>\(\)", str(bits // 8), e)
        return eval_int(e)
    f.n("sw_window_width", _try(width), SW)
    # glue the harness only mirrors (space/application.rs validate_and_decrypt_packet): decrypt_packet is called
    # before is_duplicate, and the duplicate branch returns a connection error of decrypt_packet
    APP = "quic/s2n-quic-transport/src/space/application.rs"
    app = _src(APP)
    shape = re.search(r"let\s+decrypted\s*=\s*self\.key_set\.decrypt_packet\(.*?"
                      r"if\s+self\.is_duplicate\(packet_number,\s*path_id,\s*path,\s*publisher\)\s*\{\s*"
                      r"if\s+let\s+Err\(err\s*@\s*ProcessingError::ConnectionError\(_\)\)\s*=\s*decrypted\s*\{\s*return\s+Err\(err\);\s*\}\s*"
                      r"return\s+Err\(ProcessingError::Other\);\s*\}.*?decrypted\.map\(", app, re.S)
    f.n("dup_branch_propagates_connection_error", 1 if shape else None, APP)
    # stateless reset token length
    f.const("reset_token_len", TOK, r"pub\s+const\s+LEN\s*:\s*usize\s*=\s*([^;]+);")
    return f
