"""Translator family C15: key-update window, timer granularity and the cipher-suite AEAD limits,
read from the current source."""
import re
from gen_consts import family, Family, read, strip_comments, eval_int, EvalError

LIMITED = "quic/s2n-quic-core/src/crypto/application/limited.rs"
RTT = "quic/s2n-quic-core/src/recovery/rtt_estimator.rs"
SUITES = "quic/s2n-quic-crypto/src/cipher_suite.rs"
SPACE = "quic/s2n-quic-transport/src/space/application.rs"


def _try(fn):
    try:
        return fn()
    except (EvalError, AttributeError, TypeError, ValueError, IndexError):
        return None


def _pow(e):
    """u64::pow(2, 23) -> 2**23"""
    e = re.sub(r"u64::pow\(\s*(\d+)\s*,\s*(\d+)\s*\)", r"(\1**\2)", e.strip())
    e = re.sub(r"(\d+)u64\.pow\(\s*(\d+)\s*\)", r"(\1**\2)", e)
    return eval_int(e)


def _suite(src, name):
    """(confidentiality, integrity) = the two arguments before the test-module name of
    impl_cipher_suite!(NAME, ...)"""
    m = re.search(r"impl_cipher_suite!\(\s*%s\s*,(.*?)\);" % re.escape(name), src, re.S)
    args = []
    depth, cur = 0, ""
    for ch in m.group(1):
        if ch == "(":
            depth += 1
        elif ch == ")":
            depth -= 1
        if ch == "," and depth == 0:
            args.append(cur.strip()); cur = ""
        else:
            cur += ch
    args.append(cur.strip())
    # ..., confidentiality, integrity, test_name
    return _pow(args[-3]), _pow(args[-2])


@family
def gen_C15():
    f = Family("C15")
    # const KEY_UPDATE_WINDOW: u64 = 10_000;  and Limits::default() uses it
    src = read(LIMITED)
    src = strip_comments(src) if src is not None else ""
    f.const("key_update_window", LIMITED, r"const\s+KEY_UPDATE_WINDOW\s*:\s*u64\s*=\s*([^;]+);")
    uses = re.search(r"impl\s+Default\s+for\s+Limits\s*\{.*?key_update_window\s*:\s*KEY_UPDATE_WINDOW", src, re.S)
    f.n("default_limits_use_window", 1 if uses else None, LIMITED)
    # ApplicationSpace::key_limits() returns limited::Limits::default() (outside a verif cfg)
    sp = read(SPACE)
    sp = strip_comments(sp) if sp is not None else ""
    kl = re.search(r"fn\s+key_limits\(\)\s*->\s*limited::Limits\s*\{(.*?)\n    \}", sp, re.S)
    f.n("transport_uses_default_limits", 1 if (kl and "limited::Limits::default()" in kl.group(1)) else None, SPACE)
    # timer granularity (Timestamp::has_elapsed adds it): Duration::from_millis(1) -> microseconds
    r = read(RTT)
    r = strip_comments(r) if r is not None else ""
    f.n("granularity_us", _try(lambda: 1000 * eval_int(re.search(
        r"const\s+K_GRANULARITY\s*:\s*Duration\s*=\s*Duration::from_millis\(([^)]+)\)", r).group(1))), RTT)
    # cipher suites
    cs = read(SUITES)
    cs = strip_comments(cs) if cs is not None else ""
    for cname, rname in (("aes128", "TLS_AES_128_GCM_SHA256"), ("aes256", "TLS_AES_256_GCM_SHA384"),
                         ("chacha", "TLS_CHACHA20_POLY1305_SHA256")):
        v = _try(lambda: _suite(cs, rname))
        f.n(cname + "_conf_limit", v[0] if v else None, SUITES)
        f.n(cname + "_integ_limit", v[1] if v else None, SUITES)
    return f
