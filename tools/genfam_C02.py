"""Translator family C02: constants of the sync state machines and of the idle timer, read from the current source."""
import re
from gen_consts import family, Family, read, strip_comments, eval_int, EvalError

PSYNC = "quic/s2n-quic-transport/src/sync/periodic_sync.rs"
RTT = "quic/s2n-quic-core/src/recovery/rtt_estimator.rs"
CONN = "quic/s2n-quic-transport/src/connection/connection_impl.rs"
TP = "quic/s2n-quic-core/src/transport/parameters/mod.rs"
LIMITS = "quic/s2n-quic-core/src/connection/limits.rs"


def _try(fn):
    try:
        return fn()
    except (EvalError, AttributeError, TypeError, ValueError):
        return None


def _src(rel):
    s = read(rel)
    return strip_comments(s) if s is not None else ""


@family
def gen_C02():
    f = Family("C02")
    # pub const DEFAULT_SYNC_PERIOD: Duration = Duration::from_millis(999);
    f.const("default_sync_period_ms", PSYNC,
            r"const\s+DEFAULT_SYNC_PERIOD\s*:\s*Duration\s*=\s*Duration::from_millis\(([^)]+)\)\s*;")
    f.const("initial_backoff", PSYNC, r"const\s+INITIAL_BACKOFF\s*:\s*u16\s*=\s*([^;]+);")
    # transmission_backoff: Counter<u16, counter::Saturating>  -> saturation bound
    ps = _src(PSYNC)
    f.n("backoff_bits", _try(lambda: int(re.search(
        r"transmission_backoff\s*:\s*Counter<\s*u(\d+)\s*,\s*counter::Saturating\s*>", ps).group(1))), PSYNC)
    # self.transmission_backoff *= 2u16;  (all occurrences must use the same factor)
    def factor():
        fs = set(re.findall(r"self\.transmission_backoff\s*\*=\s*(\d+)u16\s*;", ps))
        if len(fs) != 1:
            raise ValueError
        return int(fs.pop())
    f.n("backoff_factor", _try(factor), PSYNC)
    # pub const K_GRANULARITY: Duration = Duration::from_millis(1);
    f.const("granularity_ms", RTT,
            r"const\s+K_GRANULARITY\s*:\s*Duration\s*=\s*Duration::from_millis\(([^)]+)\)\s*;")

    # ---- idle timer: get_idle_timer_duration
    cs = _src(CONN)
    m = re.search(r"fn\s+get_idle_timer_duration\s*\(&self\)\s*->\s*Option<Duration>\s*\{(.*?)\n    \}", cs, re.S)
    body = m.group(1) if m else ""
    # duration = duration.max(3 * self.current_pto().as_millis() as u64);
    f.n("idle_pto_factor", _try(lambda: eval_int(re.search(
        r"duration\s*=\s*duration\s*\.max\(\s*([\w]+)\s*\*\s*self\.current_pto\(\)\s*\.as_millis\(\)\s*as\s+u64\s*\)\s*;",
        body).group(1))), CONN)
    # shape of the function: starts from limits.max_idle_timeout()? in milliseconds, ends in from_millis
    shape = 1 if (re.search(r"let\s+mut\s+duration\s*=\s*self\.limits\.max_idle_timeout\(\)\?\s*\.as_millis\(\)\s*as\s+u64\s*;", body)
                  and re.search(r"Some\(\s*Duration::from_millis\(\s*duration\s*\)\s*\)", body)) else None
    f.n("idle_duration_shape_ok", shape, CONN)
    # on_processed_packet: timer.set(packet.datagram.timestamp + duration); reset_on_send = true
    onp = 1 if re.search(
        r"if\s+let\s+Some\(duration\)\s*=\s*self\.get_idle_timer_duration\(\)\s*\{\s*self\.timers\s*\.peer_idle_timer\s*"
        r"\.set\(\s*packet\.datagram\.timestamp\s*\+\s*duration\s*\)\s*;\s*self\.timers\.reset_peer_idle_timer_on_send\s*=\s*true\s*;",
        cs) else None
    f.n("idle_reset_on_receive_ok", onp, CONN)
    # on_ack_eliciting_packet_sent: take(flag) -> timer.set(timestamp + duration)
    ons = 1 if re.search(
        r"if\s+core::mem::take\(\s*&mut\s+self\.timers\.reset_peer_idle_timer_on_send\s*\)\s*\{\s*"
        r"if\s+let\s+Some\(duration\)\s*=\s*self\.get_idle_timer_duration\(\)\s*\{\s*"
        r"self\.timers\.peer_idle_timer\.set\(\s*timestamp\s*\+\s*duration\s*\)\s*;", cs) else None
    f.n("idle_reset_on_send_ok", ons, CONN)
    # expiry: peer_idle_timer.poll_expiration(timestamp).is_ready() -> Err(idle_timer_expired())
    exp = 1 if re.search(
        r"\.peer_idle_timer\s*\.poll_expiration\(timestamp\)\s*\.is_ready\(\)\s*\{\s*return\s+Err\(connection::Error::idle_timer_expired\(\)\)\s*;",
        cs) else None
    f.n("idle_expiry_closes_ok", exp, CONN)
    # IdleTimerExpired => ConnectionState::Finished (no closing/draining period, nothing is sent)
    fin = 1 if re.search(r"connection::Error::IdleTimerExpired\s*\{\s*\.\.\s*\}\s*=>\s*\{\s*ConnectionState::Finished\s*\}", cs) else None
    f.n("idle_expiry_is_silent_ok", fin, CONN)
    # MaxIdleTimeout::RECOMMENDED = 30_000 ms; Limits::new uses it
    ts = _src(TP)
    f.n("max_idle_timeout_default_ms", _try(lambda: eval_int(re.search(
        r"impl\s+MaxIdleTimeout\s*\{\s*pub\s+const\s+RECOMMENDED\s*:\s*Self\s*=\s*Self\(VarInt::from_u32\(([^)]+)\)\)\s*;",
        ts).group(1))), TP)
    ls = _src(LIMITS)
    f.n("limits_use_recommended_idle_ok",
        1 if re.search(r"max_idle_timeout\s*:\s*MaxIdleTimeout::RECOMMENDED\s*,", ls) else None, LIMITS)
    return f
