#!/usr/bin/env python3
"""Prints the detection matrix (DESIGN.md section 13) from seeded/*/meta.json and check_result.txt."""
import os, json, re
ROOT = os.path.dirname(os.path.dirname(os.path.abspath(__file__)))
rows = []
for d in sorted(os.listdir(os.path.join(ROOT, "seeded"))):
    p = os.path.join(ROOT, "seeded", d)
    if not os.path.isdir(p):
        continue
    meta = {}
    try:
        meta = json.load(open(os.path.join(p, "meta.json")))
    except Exception:
        pass
    res = ""
    rp = os.path.join(p, "check_result.txt")
    if os.path.exists(rp):
        res = open(rp).read().strip()
    verdict = "not run"
    if "VIOLATION" in res:
        verdict = "caught (no-failing-input-found)" if "no-failing-input-found" in res and not re.search(r"VIOLATION property=\w+ replay=\S+\s*($|\n)(?!.*no-failing)", res) else "caught (concrete replay)"
        if res.count("VIOLATION") >= 1 and "no-failing-input-found" not in res.split("VIOLATION", 1)[1].split("\n")[0]:
            verdict = "caught (concrete replay)"
    elif res.startswith("OK") or "\nOK " in res or " OK " in res:
        verdict = "MISSED"
    what = (meta.get("what_breaks") or "").replace("\n", " ")
    needs = (meta.get("needs_to_manifest") or "").replace("\n", " ")
    rows.append((d, what[:160], needs[:140], verdict, res.split("\n")[0][:160] if res else ""))
print("| change | what it breaks | needs | verdict of `./check` | detail |")
print("|---|---|---|---|---|")
for r in rows:
    print("| %s | %s | %s | %s | %s |" % r)
