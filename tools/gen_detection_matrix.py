#!/usr/bin/env python3
"""Prints the detection matrix (DESIGN.md section 13) from seeded/*/meta.json and check_result.txt."""
import os, json, re
ROOT = os.path.dirname(os.path.dirname(os.path.abspath(__file__)))
rows = []
for d in sorted(os.listdir(os.path.join(ROOT, "seeded"))):
    p = os.path.join(ROOT, "seeded", d)
    if not os.path.isdir(p):
        continue
    meta = {}
    try:
        meta = json.load(open(os.path.join(p, "meta.json")))
    except Exception:
        pass
    res = ""
    rp = os.path.join(p, "check_result.txt")
    if os.path.exists(rp):
        res = open(rp).read().strip()
    verdict = "not run"
    first = res.split("\n")[0] if res else ""
    if "VIOLATION" in res:
        vline = [l for l in res.split("\n") if "VIOLATION" in l][0]
        concrete = "no-failing-input-found" not in vline
        verdict = "caught, concrete replay" if concrete else "caught, no-failing-input-found"
        has_ok = any(l.startswith("OK") for l in res.split("\n"))
        if has_ok or "MISSED" in first:
            verdict = "missed by the property's own check; " + verdict + " by another check"
        if "first version" in res or "Missed by the first" in res or "missed by the first" in res or "Missed before" in res:
            verdict += " (after the check was strengthened)"
    elif any(l.startswith("OK") for l in res.split("\n")) or "MISSED" in res:
        verdict = "MISSED"
    what = (meta.get("what_breaks") or "").replace("\n", " ")
    needs = (meta.get("needs_to_manifest") or "").replace("\n", " ")
    esc = lambda t: t.replace("|", "/")
    vl = [l for l in res.split("\n") if "VIOLATION" in l]
    detail = (vl[0] if vl else res.split("\n")[0]) if res else ""
    rows.append((d, esc(what[:160]), esc(needs[:140]), verdict, esc(detail[:160])))
print("| change | what it breaks | needs | verdict of `./check` | detail |")
print("|---|---|---|---|---|")
for r in rows:
    print("| %s | %s | %s | %s | %s |" % r)
