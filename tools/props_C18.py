"""C18 -- dc: packets round-trip and only authenticated packets are acted upon."""
import registry

VMAX = (1 << 62) - 1
VBOUND = [0, 1, 63, 64, 16383, 16384, (1 << 30) - 1, 1 << 30, VMAX - 1, VMAX]


def venc(v):
    if v < 64:
        return [v]
    if v < 16384:
        x = v | (1 << 14)
        return [(x >> 8) & 255, x & 255]
    if v < (1 << 30):
        x = v | (2 << 30)
        return [(x >> s) & 255 for s in (24, 16, 8, 0)]
    x = v | (3 << 62)
    return [(x >> s) & 255 for s in (56, 48, 40, 32, 24, 16, 8, 0)]


def rvar(rng):
    r = rng.random()
    if r < 0.45:
        return rng.choice(VBOUND)
    if r < 0.7:
        return rng.randrange(0, 300)
    return rng.randrange(1 << rng.choice([6, 14, 30, 62]))


def rmuts(rng, span):
    """mutation tail: n, (pos, xor)*n, truncation"""
    r = rng.random()
    if r < 0.15:
        n = 0
    elif r < 0.6:
        n = 1
    else:
        n = rng.randrange(2, 9)
    out = [n]
    ms = []
    for _ in range(n):
        ms.append((rng.randrange(span), rng.randrange(1, 256)))
    if n >= 2 and rng.random() < 0.25:          # a pair that cancels
        ms[1] = ms[0]
    if n >= 4 and rng.random() < 0.3:
        ms[3] = ms[2]
    for p, x in ms:
        out += [p, x]
    out.append(rng.choice([0] * 8 + [1, 2, 15, 16, 17, rng.randrange(0, 60)]))
    return out


# ------------------------------------------------------------------------------------------------
# sc: secret control packets
# ------------------------------------------------------------------------------------------------
def sc_case(kind, suite, seed, hq, q, key, cred, tail):
    return [0, kind, suite, seed, hq, q, key] + list(cred) + tail


def sc_header_bytes(kind, hq, q, key, cred):
    t = (0x60 + kind) | (4 if hq else 0)
    return [t] + list(cred) + [0] + (venc(q) if hq else []) + (venc(key) if kind else [])


def gen_sc(rng):
    r = rng.random()
    cred = [rng.randrange(256) for _ in range(16)]
    if r < 0.55:
        kind = rng.choice([0, 1, 1, 2, 2])
        hq = 1 if rng.random() < (0.15 if kind == 0 else 0.5) else 0
        return sc_case(kind, rng.randrange(2), rng.randrange(1 << 32), hq, rvar(rng), rvar(rng), cred, rmuts(rng, 60))
    # raw bytes
    suite = rng.randrange(2)
    r = rng.random()
    if r < 0.5:
        kind = rng.randrange(3)
        hq = rng.randrange(2)
        bs = sc_header_bytes(kind, hq, rvar(rng), rvar(rng), cred) + [rng.randrange(256) for _ in range(16)]
        bs += [rng.randrange(256) for _ in range(rng.choice([0, 0, 0, 1, 5]))]
        for _ in range(rng.choice([0, 0, 1, 1, 2, 4])):
            bs[rng.randrange(len(bs))] ^= rng.randrange(1, 256)
        if rng.random() < 0.3:
            bs = bs[:rng.randrange(len(bs) + 1)]
    elif r < 0.8:
        bs = [rng.choice([0x60, 0x61, 0x62, 0x64, 0x65, 0x66, 0x63, 0x67])] + [rng.randrange(256) for _ in range(rng.randrange(0, 70))]
        if len(bs) > 17 and rng.random() < 0.7:
            bs[17] = 0
    else:
        bs = [rng.randrange(256) for _ in range(rng.randrange(0, 70))]
    return [1, suite] + bs


def fixed_sc(tier):
    out = [[]]
    cred = list(range(1, 17))
    vals = [0, 63, 64, 16383, 16384, (1 << 30) - 1, 1 << 30, VMAX]
    for kind in (0, 1, 2):
        for hq in (0, 1):
            if kind == 0 and hq == 1:
                # the class of the recorded finding: one representative per varint size
                for q in (5, 0x4005):
                    out.append(sc_case(kind, 0, 7, hq, q, 0, cred, [0, 0]))
                continue
            for q in (vals if hq else [0]):
                for key in (vals if kind else [0]):
                    for suite in (0, 1):
                        out.append(sc_case(kind, suite, 7, hq, q, key, cred, [0, 0]))
            # truncations and every position mutated through the multi-byte slot
            for cut in (1, 2, 15, 16, 17, 33):
                out.append(sc_case(kind, 0, 9, hq, 64, 16384, cred, [0, cut]))
            for pos in range(0, 50):
                out.append(sc_case(kind, 1, 9, hq, 64, 16384, cred, [1, pos, 1 << (pos % 8), 0]))
    # raw: empty, short, every tag byte value
    for t in range(256):
        out.append([1, 0, t] + cred + [0, 5, 7] + [9] * 16)
    for n in range(0, 40):
        out.append([1, 1] + ([0x65] + cred + [0, 5, 7] + [9] * 16)[:n])
    return out


def sc_is_ups_queue(case):
    return len(case) >= 5 and case[0] == 0 and case[1] % 3 == 0 and case[4] != 0


def sc_hist(cases, outs):
    h = {"roundtrip": 0, "raw": 0, "raw_decoded": 0, "ups_with_queue": 0, "mut_decoded": 0, "mut_identity": 0}
    for c, o in zip(cases, outs):
        if not c:
            continue
        if c[0] == 0:
            h["roundtrip"] += 1
            if sc_is_ups_queue(c):
                h["ups_with_queue"] += 1
            t = o.split()
            if len(t) > 24 and t[-1] == "1":
                h["mut_identity"] += 1
            if len(t) > 60:
                h["mut_decoded"] += 1
        else:
            h["raw"] += 1
            if o.startswith("1"):
                h["raw_decoded"] += 1
    return h


# ------------------------------------------------------------------------------------------------
# pkt: stream / datagram / control packets
# ------------------------------------------------------------------------------------------------
def pkt_case(kind, suite, seed, flags, key, cred, q, sq, pn, nec, off, fin, port, al, a0, cl, c0, pl, tail, delta=1):
    return [0, kind, suite, seed, flags, key] + list(cred) + [q, sq, pn, nec, off, fin, port, al, a0, cl, c0, pl, delta] + tail


def gen_pkt_fields(rng, small=False):
    kind = rng.randrange(3)
    flags = rng.randrange(256)
    if rng.random() < 0.2:
        flags &= ~16
    cred = [rng.randrange(256) for _ in range(16)]
    al = rng.choice([0, 0, 1, 3, 17, 40, rng.randrange(0, 41)])
    cl = rng.choice([0, 0, 1, 5, 40, rng.randrange(0, 41)])
    pl = rng.choice([0, 1, 7, 16, 33, rng.randrange(0, 70)]) if (small or rng.random() < 0.9) else rng.randrange(0, 301)
    q = rng.choice([0, 1, 15, 16, (1 << 60) - 1, rng.randrange(1 << 60), rng.randrange(1 << 12)])
    return (kind, rng.randrange(2), rng.randrange(1 << 32), flags, rvar(rng), cred, q, rvar(rng), rvar(rng),
            rvar(rng), rvar(rng), rvar(rng), rng.choice([0, 1, 255, 256, 65535, rng.randrange(65536)]),
            al, rng.randrange(256), cl, rng.randrange(256), pl)


def py_header(kind, flags, key, cred, q, sq, pn, nec, off, fin, port, app, cd, pl):
    """independent encoder of the three header layouts (used only to build near-valid raw inputs)"""
    sid = venc(q * 4 + (2 if flags & 2 else 0) + (1 if flags & 4 else 0))
    ah = (venc(len(app)) + app) if app else []
    if kind == 0:
        t = (1 if False else 0) | (8 if cd else 0) | (4 if flags & 8 else 0) | (2 if app else 0) | (32 if flags & 1 else 0) | (16 if flags & 16 else 0)
        h = [t] + cred + venc(key) + [0, 0, 0] + sid + (venc(sq) if flags & 1 else []) + venc(pn)
        h += [0, 0, 0, 0] if flags & 2 else []
        h += venc(nec) + venc(off) + (venc(fin) if flags & 8 else []) + (venc(len(cd)) if cd else [])
        h += venc(0 if flags & 16 else pl) + ah + cd
        return h, (0 if flags & 16 else pl)
    if kind == 1:
        ack = bool(flags & 64)
        conn = bool(flags & 32) or ack
        t = 64 | (4 if conn else 0) | (2 if app else 0) | (8 if ack else 0)
        h = [t] + cred + venc(key) + [0, port >> 8, port & 255] + (venc(pn) if conn else []) + venc(pl)
        h += (venc(nec) + venc(len(cd))) if ack else []
        h += ah + (cd if ack else [])
        return h, pl
    t = 80 | (8 if flags & 1 else 0) | (4 if flags & 128 else 0) | (2 if app else 0)
    h = [t] + cred + venc(key) + [0] + (sid if flags & 128 else []) + (venc(sq) if flags & 1 else []) + venc(pn)
    h += venc(len(cd)) + ah + cd
    return h, 0


def gen_pkt(rng):
    r = rng.random()
    if r < 0.5:
        f = gen_pkt_fields(rng, small=True)
        return pkt_case(*f, rmuts(rng, 200), delta=rng.choice([1, 1, 2, 255, 256, 65536, (1 << 32) - 1, 1 << 32, rng.randrange(1, 1 << 20), VMAX]))
    suite = rng.randrange(2)
    r = rng.random()
    if r < 0.6:
        (kind, _, _, flags, key, cred, q, sq, pn, nec, off, fin, port, al, a0, cl, c0, pl) = gen_pkt_fields(rng, small=True)
        app = [(a0 + 7 * i) % 256 for i in range(al)]
        cd = [(c0 + 3 * i) % 256 for i in range(cl)]
        h, pl = py_header(kind, flags, key, cred, q, sq, pn, nec, off, fin, port, app, cd, pl)
        bs = h + [rng.randrange(256) for _ in range(pl + 16)]
        bs += [rng.randrange(256) for _ in range(rng.choice([0, 0, 0, 1, 9]))]
        for _ in range(rng.choice([0, 0, 1, 1, 2, 5])):
            bs[rng.randrange(min(len(bs), 60))] ^= rng.randrange(1, 256)
        if rng.random() < 0.3:
            bs = bs[:rng.randrange(len(bs) + 1)]
    elif r < 0.8:
        bs = sc_header_bytes(rng.randrange(3), rng.randrange(2), rvar(rng), rvar(rng), [rng.randrange(256) for _ in range(16)])
        bs += [rng.randrange(256) for _ in range(rng.choice([16, 16, 15, 17, 20]))]
        if rng.random() < 0.4:
            bs[rng.randrange(len(bs))] ^= rng.randrange(1, 256)
    else:
        bs = [rng.choice([rng.randrange(256), rng.randrange(0x60, 0x70), rng.randrange(0, 0x60)])]
        bs += [rng.choice([0, 0, 1, 0x40, 0x80, 0xc0, rng.randrange(256)]) for _ in range(rng.randrange(0, 90))]
    return [1, suite] + bs


def fixed_pkt(tier):
    out = [[]]
    cred = list(range(1, 17))
    vals = [0, 63, 64, 16383, 16384, (1 << 30) - 1, 1 << 30, VMAX]
    # every flag combination for every kind (optional fields present / absent)
    for kind in (0, 1, 2):
        for flags in range(256):
            if kind == 0 and flags & (64 | 128 | 32):
                continue
            if kind == 1 and flags & (1 | 2 | 4 | 8 | 16 | 128):
                continue
            if kind == 2 and flags & (8 | 16 | 32 | 64):
                continue
            for (al, cl, pl) in ((0, 0, 0), (3, 0, 5), (0, 4, 9), (5, 6, 20)):
                out.append(pkt_case(kind, flags & 1, 11, flags, 70, cred, 5, 64, 16384, 1 << 30, 100, 200, 443, al, 1, cl, 2, pl, [0, 0]))
        # varint size boundaries of every varint field, one at a time
        for v in vals:
            for slot in range(6):
                vs = [5, 64, 7, 8, 9, 10]
                vs[slot] = v
                fl = {0: 1 | 2 | 4 | 8, 1: 32 | 64, 2: 1 | 2 | 128}[kind]
                out.append(pkt_case(kind, 0, 11, fl, vs[0], cred, 5, vs[1], vs[2], vs[3], vs[4], vs[5], 1, 2, 1, 2, 2, 3, [0, 0]))
        # retransmission: packet number / 32-bit distance edges (reliable stream data packets)
        if kind == 0:
            for pn, delta in ((0, 1), (5, (1 << 32) - 1), (5, 1 << 32), (VMAX - 1, 1), (VMAX, 1), (VMAX - 5, 5), (VMAX - 5, 6), (100, 7)):
                for fl in (2, 2 | 4, 2 | 64, 0, 2 | 16):
                    out.append(pkt_case(kind, 0, 11, fl, 70, cred, 5, 64, pn, 8, 9, 10, 1, 2, 1, 2, 2, 9, [0, 0], delta=delta))
    # raw: every first byte, every truncation of one valid packet of each kind
    for t in range(256):
        out.append([1, 0, t] + cred + [5, 0, 0, 0, 2, 0, 0, 0, 0, 0, 0, 0, 0] + [9] * 40)
    for kind in (0, 1, 2):
        fl = {0: 1 | 2 | 4 | 8, 1: 32 | 64, 2: 1 | 2 | 128}[kind]
        h, pl = py_header(kind, fl, 70, cred, 5, 64, 16384, 1 << 30, 100, 200, 443, [1, 2, 3], [4, 5], 6)
        bs = h + [7] * (pl + 16)
        for n in range(len(bs) + 1):
            out.append([1, 1] + bs[:n])
        # reliable stream: relative retransmission offset that overflows / does not overflow the varint range
        if kind == 0:
            for pn, rel in ((VMAX, 0), (VMAX, 1), (VMAX - 5, 5), (VMAX - 5, 6), (0, 0xffffffff), (VMAX - 0xffffffff, 0xffffffff)):
                t = 0
                hh = [t] + cred + venc(70) + [0, 0, 0] + venc(5 * 4 + 2) + venc(pn) + [(rel >> s) & 255 for s in (24, 16, 8, 0)]
                hh += venc(1) + venc(2) + venc(3)
                out.append([1, 0] + hh + [7] * (3 + 16))
    return out


def pkt_hist(cases, outs):
    h = {"roundtrip": {0: 0, 1: 0, 2: 0}, "raw": 0, "raw_decoded": {}, "mut_identity": 0}
    for c, o in zip(cases, outs):
        if not c:
            continue
        if c[0] == 0:
            h["roundtrip"][c[1] % 3] += 1
            if o.split()[-1:] == ["1"]:
                h["mut_identity"] += 1
        else:
            h["raw"] += 1
            t = o.split()
            if t[:1] == ["1"]:
                h["raw_decoded"][t[1]] = h["raw_decoded"].get(t[1], 0) + 1
    return h


# ------------------------------------------------------------------------------------------------
# map: path secret map handlers
# ------------------------------------------------------------------------------------------------
def map_ops(rng, n):
    ops = []
    for _ in range(n):
        r = rng.random()
        k = rng.randrange(2)
        if r < 0.3:
            ops += [0, rng.randrange(4)]
        elif r < 0.38:
            ops += [2, k]                      # re-handshake with peer address k
        else:
            k = rng.randrange(5)               # any of the secrets inserted so far (mod their number)
            kind = rng.randrange(3)
            mode = rng.choice([0, 0, 0, 1, 2, 3, 4])
            val = rng.choice([0, 1, 2, 5, 63, 64, 1000, 1 << 20, 1 << 40, rng.randrange(1 << 16)])
            ops += [1, k, kind, mode, val, rng.randrange(2)]
    return ops


def gen_map(rng):
    return [rng.randrange(2), 0] + map_ops(rng, rng.choice([1, 2, 4, 8, 16, 30]))


def fixed_map(tier):
    out = [[0, 0], [1, 0]]
    # every (kind, mode, via) once on a fresh map, followed by the observations that matter
    for ev in (0, 1):
        for kind in (0, 1, 2):
            for mode in range(5):
                for via in (0, 1):
                    out.append([ev, 0, 0, 0, 1, 0, kind, mode, 50, via, 0, 0, 0, 1, 1, 1, kind, mode, 70, via, 0, 1])
    # replayed StaleKey with old ids; forged StaleKey with huge id between authentic ones
    out.append([0, 0, 1, 0, 1, 0, 100, 0, 0, 0, 1, 0, 1, 0, 5, 1, 0, 0, 1, 0, 1, 0, 100, 0, 0, 0])
    out.append([0, 0, 1, 0, 1, 0, 10, 0, 1, 0, 1, 1, 1 << 40, 0, 1, 0, 1, 2, 1 << 40, 1, 1, 0, 1, 4, 1 << 40, 0, 0, 0, 0, 0])
    # entries older than 10 s (the harness sleeps): forged UnknownPathSecret must not evict,
    # the authentic one evicts when the map is configured to
    out.append([1, 1, 1, 0, 0, 1, 0, 0, 1, 0, 0, 2, 0, 1, 1, 0, 0, 4, 0, 0, 1, 1, 0, 3, 0, 1, 0, 0,
                1, 0, 0, 0, 0, 0, 0, 0, 1, 0, 1, 0, 9, 0, 1, 1, 0, 0, 0, 1, 0, 1])
    if tier == "thorough":
        out.append([0, 1, 1, 0, 0, 0, 0, 0, 0, 0, 1, 1, 0, 0, 0, 1, 0, 1])
    # re-handshake: two secrets for the same peer address (ids 0 and 2 for peer 0), entries aged,
    # eviction on: an UnknownPathSecret naming the OLD secret evicts it and only it -- the address
    # still resolves to the newer secret; then one naming the newer one (younger than 10 s) does not evict
    out.append([1, 1, 2, 0, 0, 2, 1, 0, 0, 0, 0, 1, 0, 0, 0, 2, 1, 2, 0, 0, 0, 0, 0, 2, 1, 1, 0, 0, 0, 1, 0, 1])
    # the same with forged packets first, and peer 1 re-handshaken twice
    out.append([1, 1, 2, 1, 2, 1, 1, 1, 0, 1, 0, 0, 1, 1, 0, 2, 0, 1, 1, 1, 0, 0, 0, 0, 0, 4, 1, 3, 0, 0, 0, 1, 0, 3])
    # without aging nothing is evicted; StaleKey for the old secret does not touch the new one
    out.append([1, 0, 2, 0, 1, 0, 0, 0, 0, 0, 1, 0, 1, 0, 9, 1, 0, 0, 0, 2, 1, 2, 0, 0, 0, 0])
    out.append([0, 0, 2, 0, 2, 0, 2, 1, 1, 0, 0, 0, 0, 0, 1, 2, 0, 0, 0, 1, 1, 4, 0, 0, 0, 0])
    return out


def map_hist(cases, outs):
    h = {"deliveries": 0, "authentic": 0, "forged": 0, "issues": 0, "evictions_possible": 0}
    for c in cases:
        ops = c[2:]
        i = 0
        while i < len(ops):
            if ops[i] == 0:
                h["issues"] += 1
                i += 2
            elif ops[i] == 2:
                h["rehandshakes"] = h.get("rehandshakes", 0) + 1
                i += 2
            else:
                h["deliveries"] += 1
                mode = (ops[i + 3] if i + 3 < len(ops) else 0) % 5
                h["authentic" if mode == 0 else "forged"] += 1
                i += 6
        if len(c) > 1 and c[0] and c[1]:
            h["evictions_possible"] += 1
    return h


# ------------------------------------------------------------------------------------------------
# keys: the receiver's rotating opener and forged packets
# ------------------------------------------------------------------------------------------------
def gen_keys(rng):
    ops = []
    for _ in range(rng.choice([1, 3, 6, 12, 25, 40])):
        r = rng.random()
        if r < 0.45:
            ops.append(0)
        elif r < 0.85:
            if rng.random() < 0.5:
                ops += [1, 0, rng.choice([1, 1, 3, 0x11, 0xff, rng.randrange(256)])]   # tag byte: key-phase bit
            else:
                ops += [1, rng.randrange(80), rng.randrange(256)]
        else:
            ops.append(2)
    return ops


def fixed_keys(tier):
    out = [[], [0], [0, 0, 0]]
    # a forged packet with the key-phase bit flipped, before / between / after authentic ones and key updates
    out.append([1, 0, 0, 0, 0])
    out.append([0, 1, 0, 0, 0, 1, 0, 0, 0, 0])
    out.append([0, 2, 0, 1, 0, 0, 0, 2, 0, 1, 0, 0, 0, 0])
    out.append([0, 2, 1, 0, 0, 0, 0])
    out.append([2, 2, 0, 1, 0, 0, 0])
    for pos in range(0, 70):
        out.append([0, 1, pos, 0, 0, 1, pos, 0x7f, 0, 2, 0, 0])
    for x in range(255):
        out.append([0, 1, 0, x, 0, 2, 1, 0, x, 0, 0])
    return out


def keys_hist(cases, outs):
    h = {"authentic": 0, "forged": 0, "forged_phase_bit": 0, "updates": 0}
    for c in cases:
        i = 0
        while i < len(c):
            if c[i] == 0:
                h["authentic"] += 1
                i += 1
            elif c[i] == 1:
                h["forged"] += 1
                if i + 2 < len(c) and c[i + 1] == 0 and (c[i + 2] % 255 + 1) % 2 == 1:
                    h["forged_phase_bit"] += 1
                i += 3
            else:
                h["updates"] += 1
                i += 1
    return h


def _hex(s):
    return [(-int(t[1:], 16) if t.startswith("-") else int(t, 16)) for t in s.split()]


def sc_known_class(case, impl, model):
    """the recorded finding, narrowly: an UnknownPathSecret packet with a queue id, whose accepted
    mutations lie in the queue_id varint bytes only; the implementation must agree with the model
    (which accepts a mutated UnknownPathSecret iff it still decodes with the same credential id and
    the same tag), the round trip itself must be fine and a wrong key must be rejected"""
    if not sc_is_ups_queue(case) or impl is None or model is None or impl != model or impl.startswith("!"):
        return False
    try:
        o = _hex(impl)
        hl = o[0]
        k = 1 + hl
        if o[k] != 1 or o[k + 1] != 0 or o[k + 2] != 1:      # decoded, kind UPS, has queue
            return False
        k += 1 + 22
        right, wrong, cnt, first = o[k:k + 4]
        if right != 1 or wrong != 0:
            return False
        if cnt > 0 and not (18 <= first < hl):                 # first accepted position inside the queue id varint
            return False
        if cnt > 63 + 255 * (hl - 19):                         # at most the value bits of the varint
            return False
        return True
    except Exception:
        return False


def pkt_known_class(case, impl, model):
    """the second recorded finding, narrowly: a stream data packet that was retransmitted, where the
    only accepted single-byte mutation of the retransmitted packet is byte 0 xor IS_RECOVERY_PACKET;
    the implementation must agree with the model on everything (round trip, original packet:
    0 accepted, wrong keys rejected)"""
    if len(case) < 2 or case[0] != 0 or case[1] % 3 != 0:
        return False
    if impl is None or model is None or impl != model or impl.startswith("!"):
        return False
    t = impl.split()
    return len(t) > 20 and t[-3:] == ["1", "0", "10"] and t[-7] == "1" and t[-4] == "0" and t[-13:-8] == ["1", "1", "0", "0", "-1"]


def classify(p):
    if p["component"] == "pkt":
        if "minimal_case" in p and "minimal_impl" in p:
            ok = pkt_known_class(p["minimal_case"], p.get("minimal_impl"), p.get("minimal_model"))
        else:
            ok = pkt_known_class(p["case"], p.get("impl"), p.get("model"))
        return "retransmit_space_bit_unauthenticated" if ok else None
    if p["component"] != "sc":
        return None
    if "minimal_case" in p and "minimal_impl" in p:
        if sc_known_class(p["minimal_case"], p.get("minimal_impl"), p.get("minimal_model")):
            return "ups_queue_id_unauthenticated"
        return None
    if sc_known_class(p["case"], p.get("impl"), p.get("model")):
        return "ups_queue_id_unauthenticated"
    return None


registry.register("C18", {
    "gen": ["C18"],
    "props_file": "props/C18.v",
    "extract_target": "extract/Ex_C18.vo",
    "harness": "h_dc",
    "axioms_allowed": [],
    "classify": classify,
    "components": [
        {"name": "sc", "gen": gen_sc, "fixed": fixed_sc, "quick": 5000, "thorough": 60000,
         "valid": lambda c: all(v >= 0 for v in c),
         "nontrivial": lambda case, out: len(case) > 2 and (case[0] == 0 or (len(out) > 1)),
         "histogram": sc_hist},
        {"name": "pkt", "gen": gen_pkt, "fixed": fixed_pkt, "quick": 3000, "thorough": 30000,
         "valid": lambda c: all(v >= 0 for v in c),
         "nontrivial": lambda case, out: len(case) > 2 and (case[0] == 0 or (len(out) > 1)),
         "histogram": pkt_hist},
        {"name": "map", "gen": gen_map, "fixed": fixed_map, "quick": 8000, "thorough": 100000,
         "valid": lambda c: all(v >= 0 for v in c),
         "nontrivial": lambda case, out: len(case) > 4 and 1 in case[2::],
         "histogram": map_hist},
        {"name": "keys", "gen": gen_keys, "fixed": fixed_keys, "quick": 6000, "thorough": 100000,
         "valid": lambda c: all(v >= 0 for v in c),
         "nontrivial": lambda case, out: 1 in case and 0 in case,
         "histogram": keys_hist},
    ],
    "rule": "sc: fixed families (every kind x queue-id x varint size boundary, truncations, one mutation at every position, every first byte, every prefix length) + seeded random: 55% round-trip cases (fields -> real encoder with a key derived by the real schedule for either cipher suite -> real decoder; all 255 x len single-byte mutations inside the harness; up to 8 extra byte xors + truncation), 45% raw byte strings (half of them near-valid packets built by an independent Python encoder, mutated/truncated). pkt: every tag-bit combination of stream/datagram/control x 4 size profiles, every varint field at every size boundary, every first byte, every truncation of a valid packet of each kind, retransmission-offset overflow edges + seeded random: 50% round-trip cases (real encoder, real AES-GCM-128/256 or HMAC-SHA256/384 keys from the real key schedule, decode + open, all 255 x len single-byte mutations of header, ciphertext and tag inside the harness, one multi-byte mutation; reliable stream data packets are additionally retransmitted under a new packet number with the real Packet::retransmit, decoded, opened, opened with a wrong control key, and again subjected to all single-byte mutations), 50% raw byte strings through the tag dispatcher (near-valid packets of all six kinds from an independent Python encoder, mutated/truncated, and noise). map: every (kind, forgery mode, entry point) on a fresh map, replayed/forged StaleKey sequences, entries older than 10 s with eviction enabled (harness sleeps) + seeded random op sequences of up to 30 deliveries/key-id issues with 4 forgery modes. keys: a sender (locally initiated keys of one map) and a receiver holding the matching remote keys in stream::crypto::Crypto; op sequences of authentic packets, forged packets (one changed byte, half of them in the tag byte = key-phase bit) and sender key updates, opened through Crypto::open_with + decrypt_in_place; fixed: a forged packet at every byte position and with every xor of the tag byte, around key updates. A round-trip case is always non-trivial; a raw case when it decodes; a map case when it delivers at least one packet.",
    "assumptions": [
        "ideal MAC / AEAD: a (nonce, header, ciphertext, tag) tuple opens / verifies only if the key holder produced it (explicit premise of the C18_*_rejected / *_accept_is_sent theorems; the harness monitors it with real HMAC-SHA256/384 and AES-128/256-GCM keys derived by the real key schedule)",
        "map handlers run one at a time (the model is sequential); entry age is the only use of wall-clock time (harness sleeps 10 s for the aged cases)",
    ],
    "trusted_base": ["no axioms: Print Assumptions reports 'Closed under the global context' for every C18 theorem; the ideal-MAC/AEAD hypothesis is an explicit premise of the theorems that need it"],
    "explanation": "Coq theorems C18_* over the reference layouts of the dc packets; models tied to the source by the generated tag constants and by differential execution against the real encoders/decoders with real keys",
})
