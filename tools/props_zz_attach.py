"""Attaches the end-to-end components (tools/props_E2E.py) and the composition theorem to the
properties they serve, and removes the temporary property id "E2E".
Loaded last (registry imports props_* in sorted order)."""
import inspect
import registry
from props_E2E import E2E_COMPONENTS

registry.PROPS.pop("E2E", None)

E2E_NOTE = [
    "running a monitor on a recorded trace is testing, not proof; the proved part is monitor soundness (props/E2E.v)",
    "the e2e harness computes per-frame comparison flags, checksums and genuine-packet membership; the monitors take those fields as given",
]


def _compose(old, comp_classify):
    def classify(ctx, p):
        if str(p.get("component", "")).startswith("e2e_"):
            return comp_classify(p) if comp_classify else None
        if old is None:
            return None
        try:
            nargs = len(inspect.signature(old).parameters)
        except (TypeError, ValueError):
            nargs = 1
        return old(ctx, p) if nargs >= 2 else old(p)
    return classify


def attach(pid, comp_names, extra_props=()):
    cfg = registry.PROPS.get(pid)
    if cfg is None:
        return
    comp_classify = None
    for n in comp_names:
        c = dict(E2E_COMPONENTS[n])
        if c.get("classify"):
            comp_classify = c["classify"]
        cfg["components"] = list(cfg["components"]) + [c]
    cfg["extra_props_files"] = list(cfg.get("extra_props_files", [])) + ["props/E2E.v"] + list(extra_props)
    cfg["classify"] = _compose(cfg.get("classify"), comp_classify)
    cfg["assumptions"] = list(cfg.get("assumptions", [])) + E2E_NOTE
    cfg["trusted_base"] = list(cfg.get("trusted_base", [])) + ["harness/h_e2e/src/bin/E2E.rs (trace recording) and the s2n-quic testing IO provider"]


attach("C01", ["e2e_stream_c01"], extra_props=["props/C01_arq.v"])
attach("C02", ["e2e_stream_c02"])
attach("C03", ["e2e_stream_c03"])
attach("C12", ["e2e_stream_c12"])
attach("C06", ["e2e_inject"])
attach("C11", ["e2e_amp"])
if "e2e_pn" in E2E_COMPONENTS:
    attach("C08", ["e2e_pn"])
if "e2e_cid" in E2E_COMPONENTS:
    attach("C13", ["e2e_cid"])
if "e2e_cc" in E2E_COMPONENTS:
    attach("C09", ["e2e_cc"])
    attach("C10", ["e2e_cc"])
if "e2e_violate" in E2E_COMPONENTS:
    attach("C04", ["e2e_violate"])


# C16 covers the reassembly buffer too: its component lives in the C01 family
def attach_reasm_to_c16():
    c01 = registry.PROPS.get("C01")
    c16 = registry.PROPS.get("C16")
    if not c01 or not c16:
        return
    for comp in c01["components"]:
        if comp["name"] == "reasm":
            c = dict(comp)
            c["harness"] = ("h_core", "C01")
            c["ocaml"] = "C01"
            c16["components"] = list(c16["components"]) + [c]
    c16["extra_props_files"] = list(c16.get("extra_props_files", [])) + ["props/C01.v"]
    c16["gen"] = list(c16["gen"]) + [g for g in c01["gen"] if g not in c16["gen"]]


attach_reasm_to_c16()


# C08 covers the glue between the recovery manager and the ACK manager ("including lost ACKs"): the
# manager driver of the C09 family, judged only on what it reports to the Context as acknowledged
# (RecoveryAcks.judge_acks; props/C08_acks.v).  The C09 findings (loss time threshold) cannot fail this
# judgement: it ignores losses, timestamps and the congestion-controller ledger.
def attach_manager_acks_to_c08():
    c09 = registry.PROPS.get("C09")
    c08 = registry.PROPS.get("C08")
    if not c09 or not c08:
        return
    for comp in c09["components"]:
        if comp["name"] == "manager":
            c = dict(comp)
            c["name"] = "manager_acks"
            c["harness"] = ("h_transport", "C09")
            c["ocaml"] = "C09"
            c["quick"] = min(c.get("quick", 4000), 4000)
            c["thorough"] = min(c.get("thorough", 50000), 50000)
            c08["components"] = list(c08["components"]) + [c]
    c08["extra_props_files"] = list(c08.get("extra_props_files", [])) + ["props/C08_acks.v"]
    c08["gen"] = list(c08["gen"]) + [g for g in c09["gen"] if g not in c08["gen"]]
    c08["trusted_base"] = list(c08.get("trusted_base", [])) + ["harness/h_transport/src/bin/C09.rs (manager driver, recording Context) + hook recovery.rs"]


attach_manager_acks_to_c08()
