"""Translator family C14: ids, defaults, codec widths, validator bounds (with strictness), field order and
role restrictions of the transport parameters, read from the current source of
quic/s2n-quic-core/src/transport/parameters/mod.rs and friends.

Anything that cannot be located or does not have one of the recognised shapes is NOT emitted, so the
Coq model (which names every constant) stops compiling."""
import re
from gen_consts import family, Family, read, strip_comments, eval_int, EvalError

TP = "quic/s2n-quic-core/src/transport/parameters/mod.rs"
DIS = "quic/s2n-quic-core/src/transport/parameters/disabled_parameter.rs"
CID = "quic/s2n-quic-core/src/connection/id.rs"
LONG = "quic/s2n-quic-core/src/packet/long.rs"
TOK = "quic/s2n-quic-core/src/stateless_reset/token.rs"
LIM = "quic/s2n-quic-core/src/connection/limits.rs"
SESS = "quic/s2n-quic-transport/src/space/session_context.rs"
TERR = "quic/s2n-quic-core/src/transport/error.rs"


def _try(fn):
    try:
        return fn()
    except (EvalError, AttributeError, TypeError, ValueError, KeyError, IndexError):
        return None


def _int(e):
    e = e.strip()
    if re.fullmatch(r"0x[0-9a-fA-F_]+", e):
        return int(e.replace("_", ""), 16)
    return eval_int(e)


def _varint_expr(e):
    """VarInt::from_u8(25) / VarInt::from_u16(65527) / 3 -> int"""
    e = e.strip()
    m = re.fullmatch(r"VarInt::from_u(?:8|16|32)\(\s*([^()]+)\s*\)", e)
    if m:
        return eval_int(m.group(1))
    return eval_int(e)


def _macro_calls(src, name):
    """top-level invocations `name!( ... );` (not the macro_rules definition, not nested `$` uses)"""
    out = []
    for m in re.finditer(r"^%s!\(([^;]*?)\);" % re.escape(name), src, re.M | re.S):
        if "$" in m.group(1):
            continue
        out.append(m.group(1))
    return out


def _split_args(s):
    args, depth, cur = [], 0, ""
    for ch in s:
        if ch in "(<[":
            depth += 1
        elif ch in ")>]":
            depth -= 1
        if ch == "," and depth == 0:
            args.append(cur.strip()); cur = ""
        else:
            cur += ch
    if cur.strip():
        args.append(cur.strip())
    return args


def _impl_body(src, header_re):
    """text of the `{ ... }` block following header_re (brace matched)"""
    m = re.search(header_re, src)
    if not m:
        return None
    i = src.index("{", m.end() - 1) if src[m.end() - 1] != "{" else m.end() - 1
    depth = 0
    for j in range(i, len(src)):
        if src[j] == "{":
            depth += 1
        elif src[j] == "}":
            depth -= 1
            if depth == 0:
                return src[i + 1:j]
    return None


def _invariants(body):
    """list of (expr, message) of decoder_invariant!(expr, "message") inside a validator body"""
    if body is None:
        return None
    res = []
    for m in re.finditer(r"decoder_invariant!\(\s*(.*?),\s*\"([^\"]*)\"\s*\)\s*;", body, re.S):
        res.append((" ".join(m.group(1).split()), m.group(2)))
    return res


def _cmp(expr):
    """`*self.0 <= 2u64.pow(14)` / `self.0 <= 20` / `*self >= 2` -> (op, bound)"""
    m = re.fullmatch(r"\*?\s*\*?self(?:\.0)?\s*(<=|<|>=|>)\s*(.+)", expr)
    if not m:
        raise ValueError(expr)
    return m.group(1), eval_int(m.group(2))


# struct field -> (short name used for the Coq constants)
FIELDS = [
    "max_idle_timeout", "max_udp_payload_size", "initial_max_data", "initial_max_stream_data_bidi_local",
    "initial_max_stream_data_bidi_remote", "initial_max_stream_data_uni", "initial_max_streams_bidi",
    "initial_max_streams_uni", "max_datagram_frame_size", "ack_delay_exponent", "max_ack_delay",
    "migration_support", "active_connection_id_limit", "original_destination_connection_id",
    "stateless_reset_token", "preferred_address", "initial_source_connection_id",
    "retry_source_connection_id", "dc_supported_versions", "mtu_probing_complete_support",
]


@family
def gen_C14():
    f = Family("C14")
    raw = read(TP)
    src = strip_comments(raw) if raw is not None else ""

    # ---- type -> (tag, codec type, default expression) from the macro invocations ----------------
    types = {}
    for a in _macro_calls(src, "transport_parameter"):
        args = _split_args(a)
        m = re.fullmatch(r"(\w+)\((\w+)\)", args[0])
        if m:
            types[m.group(1)] = {"tag": args[1], "codec": m.group(2), "default": args[2] if len(args) > 2 else "0"}
    for mac in ("varint_transport_parameter", "duration_transport_parameter"):
        for a in _macro_calls(src, mac):
            args = _split_args(a)
            types[args[0]] = {"tag": args[1], "codec": "VarInt", "default": args[2] if len(args) > 2 else "0"}
    for a in _macro_calls(src, "connection_id_parameter"):
        args = _split_args(a)
        types[args[0]] = {"tag": args[2], "codec": "cid:" + args[1], "default": None}
    # hand written impls: `impl TransportParameter for X { ... const ID ... from_u8(0x02) ... }`
    for m in re.finditer(r"impl\s+TransportParameter\s+for\s+([\w:]+)\s*\{", src):
        name = m.group(1)
        body = _impl_body(src, r"impl\s+TransportParameter\s+for\s+%s\s*\{" % re.escape(name))
        if body is None:
            continue
        t = re.search(r"const\s+ID\s*:\s*TransportParameterId\s*=\s*TransportParameterId::from_u(?:8|16|32)\(\s*([^()]+?)\s*\)\s*;", body)
        c = re.search(r"type\s+CodecValue\s*=\s*([^;]+);", body)
        if t and c:
            types[name] = {"tag": t.group(1), "codec": c.group(1).strip(), "default": None}

    # ---- the struct: field -> type, and the two role aliases --------------------------------------
    st = re.search(r"^impl_transport_parameters!\(\s*pub struct TransportParameters<([^>]*)>\s*\{(.*?)\}\s*\);", src, re.M | re.S)
    generics = [g.strip() for g in st.group(1).split(",") if g.strip()] if st else []
    fields = []
    if st:
        for fm in re.finditer(r"(\w+)\s*:\s*([^,]+),", st.group(2)):
            fields.append((fm.group(1), fm.group(2).strip()))

    def alias(name):
        m = re.search(r"pub type %s\s*=\s*TransportParameters<(.*?)>;" % name, src, re.S)
        return _split_args(m.group(1)) if m else None
    server = alias("ServerTransportParameters")
    client = alias("ClientTransportParameters")

    def inner(t):
        m = re.fullmatch(r"(?:Option|DisabledParameter)<(.+)>", t.strip())
        return (m.group(1).strip() if m else t.strip())

    order_ok = [n for n, _ in fields] == FIELDS
    f.raw("(* field order of `struct TransportParameters` as declared: %s *)" % ("as modelled" if order_ok else "DIFFERENT from the model"))
    ids = []
    for name, ty in fields:
        if ty in generics and server:
            ty_s = inner(server[generics.index(ty)])
        else:
            ty_s = inner(ty)
        info = types.get(ty_s)
        tag = _try(lambda: _int(info["tag"]))
        f.n("id_" + name, tag if name in FIELDS else None, TP)
        ids.append(tag)
        # role restriction: DisabledParameter<_> in the client alias, and its ENABLED constant
        dis = bool(ty in generics and client and client[generics.index(ty)].startswith("DisabledParameter<"))
        opt_server = bool(ty in generics and server and server[generics.index(ty)].startswith("Option<"))
        if ty in generics:
            if client and server and (dis or client[generics.index(ty)].startswith("Option<")) and opt_server:
                f.raw("Definition client_may_send_%s : bool := %s.   (* %s *)" % (name, "false" if dis else "true", TP))
        # codec
        if info:
            cd = info["codec"]
            if cd == "VarInt":
                f.n("codec_bytes_" + name, 0, TP + " (0 = variable-length integer)")
            elif re.fullmatch(r"u(8|16|32|64)", cd):
                f.n("codec_bytes_" + name, int(cd[1:]) // 8, TP + " (fixed-width big-endian integer)")
            if info["default"] is not None and (cd == "VarInt" or re.fullmatch(r"u\d+", cd)):
                f.n("default_" + name, _try(lambda: _varint_expr(info["default"])), TP)
            if cd.startswith("cid:"):
                idty = cd[4:]
                cs = strip_comments(read(CID) or "")
                f.n("cid_min_len_" + name, _try(lambda: eval_int(re.search(r"^id!\(\s*%s\s*,\s*([^)]+)\)" % idty, cs, re.M).group(1))), CID)
    if order_ok and all(i is not None for i in ids):
        f.raw("Definition field_ids : list N := [%s]%%N.   (* struct order *)" % "; ".join(str(i) for i in ids))
    else:
        f.missing.append("field_ids")
        f.raw("(* MISSING field_ids *)")

    # DisabledParameter::ENABLED is false
    ds = strip_comments(read(DIS) or "")
    m = re.search(r"const\s+ENABLED\s*:\s*bool\s*=\s*(true|false)\s*;", ds)
    if m:
        f.raw("Definition disabled_parameter_enabled : bool := %s.   (* %s *)" % (m.group(1), DIS))
    else:
        f.missing.append("disabled_parameter_enabled")
    m = re.search(r"const\s+ENABLED\s*:\s*bool\s*=\s*(true|false)\s*;", src)
    if m:
        f.raw("Definition default_parameter_enabled : bool := %s.   (* %s *)" % (m.group(1), TP))
    else:
        f.missing.append("default_parameter_enabled")

    # ---- validators ----------------------------------------------------------------------------------
    def validator(ty):
        return _invariants(_impl_body(src, r"impl\s+TransportParameterValidator\s+for\s+%s\s*\{" % re.escape(ty)))

    def upper(name, ty):
        inv = validator(ty)
        op, b = (None, None)
        if inv is not None and len(inv) == 1:
            r = _try(lambda: _cmp(inv[0][0]))
            if r and r[0] in ("<=", "<"):
                op, b = r
        f.n(name + "_bound", b, TP)
        if op:
            f.raw("Definition %s_bound_inclusive : bool := %s.   (* the validator compares with `%s` *)" % (name, "true" if op == "<=" else "false", op))
        else:
            f.missing.append(name + "_bound_inclusive")

    upper("max_ack_delay", "MaxAckDelay")
    upper("ack_delay_exponent", "AckDelayExponent")
    upper("initial_max_streams_bidi", "InitialMaxStreamsBidi")
    upper("initial_max_streams_uni", "InitialMaxStreamsUni")
    # active_connection_id_limit: a lower bound
    inv = validator("ActiveConnectionIdLimit")
    r = _try(lambda: _cmp(inv[0][0])) if inv and len(inv) == 1 else None
    f.n("active_connection_id_limit_min", (r[1] + (1 if r[0] == ">" else 0)) if r and r[0] in (">=", ">") else None, TP)
    # max_udp_payload_size: (lo..=hi).contains
    inv = validator("MaxUdpPayloadSize")
    m = re.fullmatch(r"\((.+?)\.\.(=?)(.+?)\)\.contains\(&\*self\.0\)", inv[0][0]) if inv and len(inv) == 1 else None
    f.n("max_udp_payload_size_min", _try(lambda: eval_int(m.group(1))) if m else None, TP)
    f.n("max_udp_payload_size_max", _try(lambda: eval_int(m.group(3)) - (0 if m.group(2) else 1)) if m else None, TP)
    # parameters whose validator must be the trait default (no check at all)
    for nm, ty in (("max_idle_timeout", "MaxIdleTimeout"), ("initial_max_data", "InitialMaxData"),
                   ("initial_max_stream_data_bidi_local", "InitialMaxStreamDataBidiLocal"),
                   ("initial_max_stream_data_bidi_remote", "InitialMaxStreamDataBidiRemote"),
                   ("initial_max_stream_data_uni", "InitialMaxStreamDataUni"),
                   ("max_datagram_frame_size", "MaxDatagramFrameSize"), ("migration_support", "MigrationSupport"),
                   ("stateless_reset_token", r"stateless_reset::Token"), ("dc_supported_versions", "DcSupportedVersions"),
                   ("mtu_probing_complete_support", "MtuProbingCompleteSupport")):
        m = re.search(r"impl\s+TransportParameterValidator\s+for\s+%s\s*(\{\s*\}|\{\s*fn validate\(self\) -> Result<Self, DecoderError>\s*\{\s*Ok\(self\)\s*\}\s*\})" % ty, src)
        if m:
            f.raw("Definition %s_unvalidated : bool := true." % nm)
        else:
            f.missing.append(nm + "_unvalidated")
            f.raw("(* MISSING %s_unvalidated : the validator is no longer the identity *)" % nm)
    # preferred_address validator: which invariants it states
    inv = validator("PreferredAddress")
    if inv is not None:
        exprs = [e for e, _ in inv]
        known = {"!self.is_unspecified()", "!self.connection_id.is_empty()"}
        if set(exprs) <= known and "!self.is_unspecified()" in exprs:
            f.raw("Definition preferred_address_rejects_unspecified : bool := true.")
            f.raw("Definition preferred_address_rejects_empty_cid : bool := %s.   (* %s *)"
                  % ("true" if "!self.connection_id.is_empty()" in exprs else "false", TP))
        else:
            f.missing.append("preferred_address_rejects_empty_cid")
    else:
        f.missing.append("preferred_address_rejects_empty_cid")
    # both families must be unspecified for is_unspecified
    pa_unspec = _impl_body(src, r"impl\s+Unspecified\s+for\s+PreferredAddress\s*\{")
    if pa_unspec and re.search(r"ipv4_address.*?unwrap_or\(true\)\s*&&\s*self\s*\.ipv6_address.*?unwrap_or\(true\)", pa_unspec, re.S):
        f.raw("Definition preferred_address_unspecified_is_both : bool := true.")
    else:
        f.missing.append("preferred_address_unspecified_is_both")
    m = re.search(r"type\s+CidLength\s*=\s*u(\d+)\s*;", src)
    f.n("preferred_address_cid_len_bytes", int(m.group(1)) // 8 if m else None, TP)

    # presence semantics of the two flags
    b = _impl_body(src, r"impl\s+TransportParameter\s+for\s+MigrationSupport\s*\{") or ""
    m = re.search(r"fn from_codec_value\(_value: \(\)\) -> Self\s*\{\s*MigrationSupport::(\w+)", b)
    d = re.search(r"pub enum MigrationSupport\s*\{(.*?)\}", src, re.S)
    dm = re.search(r"#\[default\]\s*(\w+)", d.group(1)) if d else None
    if m and dm:
        f.raw("Definition migration_disabled_when_present : bool := %s." % ("true" if m.group(1) == "Disabled" else "false"))
        f.raw("Definition migration_disabled_by_default : bool := %s." % ("true" if dm.group(1) == "Disabled" else "false"))
    else:
        f.missing.append("migration_disabled_when_present")
    b = _impl_body(src, r"impl\s+TransportParameter\s+for\s+MtuProbingCompleteSupport\s*\{") or ""
    m = re.search(r"fn from_codec_value\(_value: \(\)\) -> Self\s*\{\s*MtuProbingCompleteSupport::(\w+)", b)
    d = re.search(r"pub enum MtuProbingCompleteSupport\s*\{(.*?)\}", src, re.S)
    dm = re.search(r"#\[default\]\s*(\w+)", d.group(1)) if d else None
    if m and dm:
        f.raw("Definition mtu_probing_enabled_when_present : bool := %s." % ("true" if m.group(1) == "Enabled" else "false"))
        f.raw("Definition mtu_probing_enabled_by_default : bool := %s." % ("true" if dm.group(1) == "Enabled" else "false"))
    else:
        f.missing.append("mtu_probing_enabled_when_present")

    # dc_supported_versions
    f.const("dc_versions_max_len", TP, r"const\s+DC_SUPPORTED_VERSIONS_MAX_LEN\s*:\s*u8\s*=\s*([^;]+);")
    m = re.search(r"version\.as_u64\(\)\s*<=\s*(u32::MAX)\s+as\s+u64", src)
    f.n("dc_version_max", _try(lambda: eval_int(m.group(1))) if m else None, TP)

    # connection ids / tokens
    f.const("cid_max_len", LONG, r"const\s+DESTINATION_CONNECTION_ID_MAX_LEN\s*:\s*usize\s*=\s*([^;]+);")
    cs = strip_comments(read(CID) or "")
    f.n("cid_min_len_preferred_address", _try(lambda: eval_int(re.search(r"^id!\(\s*UnboundedId\s*,\s*([^)]+)\)", cs, re.M).group(1)))
        if re.search(r"pub connection_id:\s*crate::connection::UnboundedId", src) else None, CID)
    f.const("stateless_reset_token_len", TOK, r"pub const LEN\s*:\s*usize\s*=\s*([^;]+);")

    # Limits: the idle timeout a default connection starts from, and what load_peer loads
    ls = strip_comments(read(LIM) or "")
    rec = re.search(r"impl MaxIdleTimeout\s*\{.*?pub const RECOMMENDED\s*:\s*Self\s*=\s*Self\(\s*(VarInt::from_u32\([^)]*\))\s*\)", src, re.S)
    uses = re.search(r"max_idle_timeout:\s*MaxIdleTimeout::RECOMMENDED", ls)
    f.n("limits_default_idle_timeout_ms", _try(lambda: _varint_expr(rec.group(1))) if rec and uses else None, LIM)

    # session level: every decode error becomes TRANSPORT_PARAMETER_ERROR
    ss = strip_comments(read(SESS) or "")
    n = len(re.findall(r"TransportParameters::decode\(decoder\)\.map_err\(\|_\|\s*\{\s*transport::Error::TRANSPORT_PARAMETER_ERROR", ss))
    if n == 2:
        f.raw("Definition session_decode_errors_are_transport_parameter_error : bool := true.   (* %s *)" % SESS)
    else:
        f.missing.append("session_decode_errors_are_transport_parameter_error")
    f.const("transport_parameter_error_code", TERR, r"TRANSPORT_PARAMETER_ERROR\s*=\s*(0x[0-9a-fA-F]+)\.with_frame_type")
    return f
