"""Shared by props_C12.py / props_C03.py: case generator and output parser of the `ss` driver
(harness/h_transport/src/send_driver.rs, coq/model/DataSender.v)."""
VMAX = (1 << 62) - 1

CAPS = [0, 1, 2, 3, 4, 5, 8, 10, 20, 31, 32, 33, 34, 35, 36, 40, 50, 64, 65, 66, 67, 68, 69, 70, 100, 130, 200, 1200,
        1500, 16390, 16391, 16392, 65535]
# every capacity is below DataSender.cap_bound (Coq) = CAP_BOUND (Rust drivers) = transmit_capacity_clamp + 1
CAP_BOUND = 65536
assert max(CAPS) < CAP_BOUND
LENS = [0, 1, 1, 2, 5, 10, 20, 31, 32, 33, 50, 63, 64, 65, 100, 100, 200, 300, 1000, 4095]
WINS = [0, 1, 2, 5, 10, 40, 64, 100, 150, 1000, 4096, 1 << 20, VMAX]


def gen_ss(rng, nops=None, multi=None):
    salt = rng.randrange(65536)
    max_data0 = rng.choice([0, 1, 10, 50, 100, 200, 1000, 5000, 1 << 20, VMAX, VMAX])
    if multi is None:
        multi = rng.random() < 0.45
    n = rng.choice([2, 2, 3, 4]) if multi else 1
    maxbuf = rng.choice([0, 0, 0, 0, 0, 0, 1, 2, 3, 3])
    wins = [rng.choice(WINS) for _ in range(n)]
    case = [salt, max_data0, n - 1, maxbuf] + wins
    if nops is None:
        nops = rng.choice([1, 2, 3, 5, 8, 12, 20, 30, 45])
    tx = 0
    cur_sd = list(wins)
    cur_d = max_data0
    if rng.random() < 0.12:
        # a finished stream whose FIN packet is acknowledged while an earlier data packet is lost;
        # the random operations that follow (reset, STOP_SENDING, transmit, ..) start from there
        k = rng.randrange(n)
        L = rng.choice([40, 64, 100, 200, 1000])
        c1 = rng.choice([20, 33, 40, 70, 120])
        case[1] = max(case[1], 1 << 20)
        case[3] = 0
        case[4 + k] = max(case[4 + k], 4096)
        cur_sd[k] = case[4 + k]
        cur_d = case[1]
        case += [1, k, L, 2, k, 5, k + 1, c1, 0, 0, 5, k + 1, 1500, 0, 0]
        case += rng.choice([[6, 1, 0, 7, 0, 0], [7, 0, 0, 6, 1, 0], [6, 1, 0], [7, 0, 0]])
        tx = 2
    for _ in range(nops):
        r = rng.random()
        k = rng.randrange(n)
        if r < 0.24:
            case += [1, k, rng.choice(LENS)]
        elif r < 0.60:
            t = rng.choice([0, k + 1, k + 1])
            cons = rng.choice([0] * 14 + [2, 2, 2, 1, 1, 3])
            mode = rng.choice([0] * 16 + [1, 1, 2, 3])
            case += [5, t, rng.choice(CAPS), cons, mode]
            tx += 1
        elif r < 0.70:
            lo = rng.randrange(0, tx + 1)
            case += [6, lo, rng.choice([0, 0, 0, 0, 1, 2, 5, 100])]
        elif r < 0.80:
            lo = rng.randrange(0, tx + 1)
            case += [7, lo, rng.choice([0, 0, 0, 0, 1, 2, 5, 100])]
        elif r < 0.85:
            case += [2, k]
        elif r < 0.87:
            case += [3, k, rng.randrange(1024)]
        elif r < 0.885:
            case += [4, k, rng.randrange(1024)]
        elif r < 0.95:
            q = rng.random()
            if q < 0.5:
                v = cur_sd[k] + rng.choice([1, 1, 2, 10, 32, 33, 64, 100, 1000])
            elif q < 0.8:
                v = max(0, cur_sd[k] - rng.choice([0, 1, 5, 100]))      # non-increasing: must be ignored
            else:
                v = rng.choice(WINS)
            v = min(v, VMAX)
            cur_sd[k] = max(cur_sd[k], v)
            case += [8, k, v]
        else:
            q = rng.random()
            if q < 0.5:
                v = cur_d + rng.choice([1, 1, 2, 10, 32, 33, 64, 100, 1000])
            elif q < 0.8:
                v = max(0, cur_d - rng.choice([0, 1, 5, 100]))
            else:
                v = rng.choice(WINS)
            v = min(v, VMAX)
            cur_d = max(cur_d, v)
            case += [9, v]
    return case


NARGS = {1: 2, 2: 1, 3: 2, 4: 2, 5: 4, 6: 2, 7: 2, 8: 2, 9: 1}


def parse(case, out):
    """-> (n, wins, max_data0, records); a record = dict(op, args, head, frames, conn, streams)"""
    c = list(case) + [0] * 8
    n = c[2] % 4 + 1
    hdr = 4 + n
    wins = [min(x, VMAX) for x in (list(case[4:hdr]) + [0] * n)[:n]]
    ops = list(case[hdr:])
    recs = []
    i = 0
    o = 0
    while i < len(ops):
        op = ops[i]
        i += 1
        if op not in NARGS:
            break
        args = (ops[i:i + NARGS[op]] + [0] * 4)[:NARGS[op]]
        i += NARGS[op]
        rec = {"op": op, "args": args, "frames": []}
        if op == 5:
            assert out[o] == 5
            rec["pn"] = out[o + 1]
            cnt = out[o + 2]
            o += 3
            for _ in range(cnt):
                kind, sid, val, code, fin, ln = out[o:o + 6]
                o += 6
                rec["frames"].append({"kind": kind, "sid": sid, "val": val, "code": code, "fin": fin, "data": out[o:o + ln]})
                o += ln
        elif op in (1, 2, 3):
            assert out[o] == op
            rec["res"] = out[o + 2]
            o += 3
        elif op in (4, 8):
            o += 2
        else:
            o += 1
        rec["conn"] = out[o:o + 2]
        o += 2
        rec["streams"] = [out[o + 5 * j:o + 5 * j + 5] for j in range(n)]
        o += 5 * n
        recs.append(rec)
    return n, wins, min(c[1], VMAX), recs


def valid(case):
    return len(case) >= 1 and all(0 <= v <= VMAX for v in case)


def count_frames(case, out):
    try:
        n, wins, md, recs = parse(case, out)
    except Exception:
        return {}
    h = {}
    for r in recs:
        for f in r["frames"]:
            h[f["kind"]] = h.get(f["kind"], 0) + 1
            if f["kind"] == 1 and f["fin"]:
                h["fin"] = h.get("fin", 0) + 1
    return h


def histogram(cases, outs):
    from run_check import parse_hexline
    tot = {"ops": {}, "frames": {}, "retransmitted_bytes_cases": 0, "multi_stream_cases": 0}
    for c, o in zip(cases, outs):
        if o.startswith("!"):
            continue
        try:
            n, wins, md, recs = parse(c, parse_hexline(o))
        except Exception:
            continue
        if n > 1:
            tot["multi_stream_cases"] += 1
        seen = {}
        retx = False
        for r in recs:
            tot["ops"][str(r["op"])] = tot["ops"].get(str(r["op"]), 0) + 1
            for f in r["frames"]:
                k = {1: "STREAM", 2: "RESET_STREAM", 3: "STREAM_DATA_BLOCKED", 4: "DATA_BLOCKED"}.get(f["kind"], "other")
                tot["frames"][k] = tot["frames"].get(k, 0) + 1
                if f["kind"] == 1:
                    if f["fin"]:
                        tot["frames"]["FIN"] = tot["frames"].get("FIN", 0) + 1
                    hi = seen.get(f["sid"], 0)
                    if f["val"] < hi and f["data"]:
                        retx = True
                    seen[f["sid"]] = max(hi, f["val"] + len(f["data"]))
        if retx:
            tot["retransmitted_bytes_cases"] += 1
    return tot


def nontrivial(case, out):
    h = count_frames(case, out)
    return h.get(1, 0) >= 1


def fixed_ss(tier):
    out = []
    # windows 0 and 1, single stream: write, transmit at several capacities, credit by one, reset
    for win in (0, 1, 2):
        for md in (0, 1, 2, 100):
            for cap in (3, 4, 40):
                out.append([7, md, 0, 0, win, 1, 0, 5, 5, 1, cap, 0, 0, 8, 0, win + 1, 9, md + 1, 5, 1, cap, 0, 0, 5, 1, cap, 0, 0,
                            3, 0, 9, 5, 1, cap, 0, 0])
    # the stream-limit / connection-limit edge: limit L, write L-1, L, L+1
    for L in (10, 32, 33, 64, 100):
        for d in (-1, 0, 1):
            out.append([3, 1000, 0, 0, L, 1, 0, L + d, 2, 0, 5, 1, 1200, 0, 0, 8, 0, L + 40, 5, 1, 1200, 0, 0])
            out.append([3, L, 0, 0, 1000, 1, 0, L + d, 2, 0, 5, 1, 1200, 0, 0, 9, L + 40, 5, 1, 1200, 0, 0])
    # loss and retransmission in a different segmentation, then fin
    for cap2 in (10, 20, 33, 40, 70, 1200):
        out.append([9, 10000, 0, 0, 10000, 1, 0, 200, 5, 1, 120, 0, 0, 5, 1, 120, 0, 0, 7, 0, 0, 5, 1, cap2, 0, 0, 5, 1, cap2, 2, 0,
                    2, 0, 5, 1, 1200, 0, 0, 7, 0, 100, 5, 1, cap2, 0, 0, 5, 1, 1200, 0, 0, 6, 0, 100])
    # two streams competing for a small connection window, MAX_DATA arriving in pieces and out of order
    out.append([5, 50, 1, 0, 1000, 1000, 1, 0, 100, 1, 1, 100, 5, 0, 1200, 0, 0, 9, 40, 9, 60, 9, 55, 5, 0, 1200, 0, 0,
                9, 300, 5, 0, 1200, 0, 0, 3, 0, 1, 5, 0, 1200, 0, 0])
    # FIN packet acknowledged, an earlier data packet of the stream lost, then STOP_SENDING / reset before the
    # retransmission: nothing but the RESET_STREAM may follow (no STREAM frame after RESET_STREAM)
    for L, cap1 in ((200, 120), (100, 40), (64, 33), (1000, 300)):
        for kill in ([4, 0, 9], [3, 0, 9]):
            for first in ("ack", "loss"):
                a = [6, 1, 0]
                l = [7, 0, 0]
                mid = a + l if first == "ack" else l + a
                out.append([11, 100000, 0, 0, 100000, 1, 0, L, 2, 0, 5, 1, cap1, 0, 0, 5, 1, 1200, 0, 0] + mid + kill +
                           [5, 1, 1200, 0, 0, 5, 0, 1200, 0, 0, 7, 2, 0, 5, 1, 1200, 0, 0])
    # the same with three data packets, the middle one lost, retransmission-only constraint
    out.append([12, 100000, 0, 0, 100000, 1, 0, 300, 2, 0, 5, 1, 100, 0, 0, 5, 1, 100, 0, 0, 5, 1, 1200, 0, 0,
                6, 2, 0, 6, 0, 0, 7, 1, 0, 4, 0, 3, 5, 1, 1200, 2, 0, 5, 1, 1200, 0, 0])
    # reset after fin was sent; stop_sending before anything was sent
    out.append([1, 1000, 0, 0, 1000, 1, 0, 50, 2, 0, 5, 1, 1200, 0, 0, 3, 0, 5, 5, 1, 1200, 0, 0, 6, 0, 10])
    out.append([1, 1000, 0, 0, 1000, 4, 0, 5, 5, 1, 1200, 0, 0, 1, 0, 10, 5, 1, 1200, 0, 0])
    return out


# ---- `st` component: local stream opening (harness/h_transport/src/streams_driver.rs) ----
BIG = 1 << 60


def gen_st(rng):
    server = rng.randrange(2)
    case = [server, rng.choice([0, 1, 2, 3, 5, 10, 100, BIG]), rng.choice([0, 1, 2, 3, 5, 10, 100, BIG]),
            rng.randrange(7), rng.randrange(7)]
    lim = [case[1], case[2]]
    for _ in range(rng.choice([1, 3, 6, 10, 20, 40])):
        r = rng.random()
        if r < 0.3:
            case += [1, rng.randrange(2)]
        elif r < 0.6:
            case += [4, rng.randrange(4), rng.randrange(2)]      # another handle with its own open token
        elif r < 0.85:
            t = rng.randrange(2)
            q = rng.random()
            if q < 0.55:
                v = lim[t] + rng.choice([1, 1, 1, 2, 3, 10])
            elif q < 0.85:
                v = max(0, lim[t] - rng.choice([0, 1, 2]))       # non-increasing: must be ignored
            else:
                v = rng.choice([0, 1, 5, 100, BIG])
            v = min(v, BIG)
            lim[t] = max(lim[t], v)
            case += [2, t, v]
        else:
            case += [3, rng.randrange(8)]
    return case


def fixed_st(tier):
    out = []
    for server in (0, 1):
        for lim in (0, 1, 2):
            for t in (0, 1):
                # open up to the limit, one more (pending), raise the limit by one, lower it, open again
                out.append([server, lim, lim, 6, 6] + [1, t] * (lim + 1) + [2, t, lim + 1, 2, t, lim, 1, t, 1, t])
        out.append([server, 100, 100, 1, 1, 1, 1, 1, 1, 3, 0, 1, 1, 1, 1, 3, 1, 3, 0, 1, 1])
        # handles parked at the limit, MAX_STREAMS wakes some of them, another handle takes the credit first
        for t in (0, 1):
            for lim in (0, 1, 2):
                pre = [4, 0, t] * lim
                out.append([server, lim, lim, 6, 6] + pre + [4, 1, t, 2, t, lim + 1, 4, 2, t, 4, 1, t, 4, 1, t])
                out.append([server, lim, lim, 6, 6] + pre + [4, 1, t, 4, 2, t, 2, t, lim + 1, 4, 3, t, 4, 1, t, 4, 2, t, 2, t, lim + 3, 4, 0, t, 4, 1, t, 4, 2, t, 4, 3, t])
            # parked on the local concurrency limit, woken by a closed stream
            out.append([server, 100, 100, 1, 1, 4, 0, 1, 4, 1, 1, 4, 2, 1, 3, 0, 4, 3, 1, 4, 1, 1, 4, 2, 1])
    return out


def nontrivial_st(case, out):
    ids = [out[i + 2] for i in range(0, len(out) - 2) if out[i] == 1 and i + 2 < len(out)]
    return any(v >= 0 for v in ids) and (-1 in out)


# ---- `cs` component: CloseSender (harness/h_transport/src/close_driver.rs) ----
def gen_cs(rng):
    timeout = rng.choice([0, 1, 50, 300, 1000, 3000, 99999])
    rtt = rng.choice([0, 1, 10, 33, 100, 250, 1000])
    case = [timeout, rtt, rng.randrange(64)]
    for _ in range(rng.choice([1, 3, 8, 20, 60, 150])):
        r = rng.random()
        if r < 0.40:
            case += [2] * rng.choice([1, 1, 1, 2, 3, 5])
        elif r < 0.55:
            case += [3]
        else:
            case += [1, rng.choice([0, 1, rtt, max(0, rtt - 1), rtt + 1, 5, 50, 500, rng.randrange(0, 3000)])]
    return case


def fixed_cs(tier):
    out = []
    # the limiter doubles: 1, 2, 4, .. datagrams per response, u8 saturation after 8 doublings
    for rtt in (0, 1, 10):
        c = [99999, rtt, 5, 3, 3]
        for k in range(10):
            c += [2] * (1 << k if k < 9 else 300) + [3, 1, rtt, 3, 3]
        out.append(c)
    # a burst of datagrams, then silence: only timeouts and opportunities (no copy without a new datagram)
    for rtt in (0, 1, 10, 100):
        for burst in (1, 2, 3, 4, 7, 8, 20):
            out.append([99999, rtt, 5] + [2] * burst + [1, rtt, 3, 1, rtt, 3, 1, rtt, 3, 1, 2 * rtt + 1, 3, 1, 500, 3, 1, 500, 3])
            out.append([99999, rtt, 5, 2, 1, rtt] + [2] * burst + [1, rtt, 1, rtt, 1, rtt, 1, 4 * rtt + 1, 1, 1000, 3])
    out.append([0, 0, 1, 3, 1, 0, 3, 2, 3])
    out.append([5, 10, 1, 3, 2, 1, 4, 3, 1, 1, 3, 2, 1, 10, 3])
    return out


# ---- `sm` component: the `ss` operations through the real stream manager (judged only) ----
def gen_sm(rng):
    case = gen_ss(rng)
    n = case[2] % 4 + 1
    case[3] = 0
    for j in range(1, n):
        case[4 + j] = case[4]          # one initial MAX_STREAM_DATA for all streams (transport parameter)
    if case[1] > (1 << 32):
        case[1] = 1 << 20
    return case


def fixed_sm(tier):
    out = []
    for c in fixed_ss(tier):
        n = c[2] % 4 + 1
        c = list(c)
        c[3] = 0
        for j in range(1, n):
            c[4 + j] = c[4]
        out.append(c)
    # open notification (empty STREAM frame) lost and retransmitted after the stream was reset
    out.append([0, 1000, 0, 0, 1000, 5, 0, 1200, 0, 0, 3, 0, 7, 5, 0, 1200, 0, 0, 7, 0, 0, 5, 0, 1200, 0, 0])
    # the newest stream is reset / stopped before the first transmission opportunity
    for n in (1, 2, 3):
        out.append([0, 1000, n - 1, 0] + [1000] * n + [3, n - 1, 7, 5, 0, 1200, 0, 0, 5, 0, 1200, 0, 0])
        out.append([0, 1000, n - 1, 0] + [1000] * n + [1, n - 1, 10, 4, n - 1, 7, 5, 0, 1200, 0, 0, 5, 0, 1200, 0, 0])
    return out


def monitor12(case, out, exempt_open_notify=False):
    """Python port of SendJudge.chk12 over the parsed output; returns (ok, number of exempted frames)"""
    n, wins, md, recs = parse(case, out)
    salt = case[0] % 65536 if case else 0
    w = [0] * n
    hi = [0] * n
    fin = [None] * n
    rst = [False] * n
    notified = [False] * n      # an open notification (empty FIN-less STREAM frame at offset 0) was sent before
    exempted = 0

    def payload(k, o):
        return (((o * 2654435761 + (salt + 131 * k) * 40503) % 4294967296) // 65536) % 256
    for r in recs:
        if r["op"] == 1:
            res = r["res"]
            ln = r["args"][1] % 4096
            if not (-1 <= res <= ln):
                return False, exempted
            if res > 0:
                w[r["args"][0] % n] += res
        for f in r["frames"]:
            if f["kind"] not in (1, 2, 3):
                continue
            if f["sid"] % 4 != 0 or f["sid"] // 4 >= n:
                return False, exempted
            k = f["sid"] // 4
            if f["kind"] == 1:
                e = f["val"] + len(f["data"])
                is_notify = (not f["data"]) and f["val"] == 0 and not f["fin"]
                if exempt_open_notify and rst[k] and is_notify and notified[k]:
                    # the known class: a *re*transmission of the open notification after the reset
                    exempted += 1
                    continue
                if is_notify:
                    notified[k] = True
                if rst[k] or e > w[k]:
                    return False, exempted
                if any(b != payload(k, f["val"] + i) for i, b in enumerate(f["data"])):
                    return False, exempted
                if fin[k] is not None and e > fin[k]:
                    return False, exempted
                if f["fin"] and (hi[k] > e or (fin[k] is not None and fin[k] != e)):
                    return False, exempted
                hi[k] = max(hi[k], e)
                if f["fin"]:
                    fin[k] = e
            elif f["kind"] == 2:
                if hi[k] > f["val"] or (fin[k] is not None and fin[k] != f["val"]):
                    return False, exempted
                fin[k] = f["val"]
                rst[k] = True
            else:
                if rst[k]:
                    return False, exempted
    return True, exempted


def cs_copies(case, out):
    """number of close packet copies reported in a `cs` output (9 s | 1 r s | 2 s | 3 s)"""
    ops = list(case[3:])
    i = 0
    o = 2
    n = 1 if len(out) > 1 and out[1] == 1 else 0
    while i < len(ops) and o < len(out):
        op = ops[i]
        if op == 1:
            i += 2
            n += 1 if out[o + 2] == 1 else 0
            o += 3
        elif op in (2, 3):
            i += 1
            n += 1 if out[o + 1] == 1 else 0
            o += 2
        else:
            break
    return n
