"""Translator family C18: tag bytes / masks / tag length of the dc packet formats, read from the
current source of packet/{secret_control,stream,datagram,control}.rs."""
import re
from gen_consts import family, Family, read, strip_comments, eval_int, EvalError

P = "dc/s2n-quic-dc/src/packet/"
SC = P + "secret_control.rs"
ST = P + "stream.rs"
DG = P + "datagram.rs"
CT = P + "control.rs"
WV = P + "wire_version.rs"
AWS = "dc/s2n-quic-dc/src/crypto/awslc.rs"


def _const(f, cname, rel, rust_name, ty=r"\w+"):
    f.const(cname, rel, r"const\s+%s\s*:\s*%s\s*=\s*([^;]+);" % (rust_name, ty))


def _default_tag(f, cname, rel):
    # impl Default for Tag { fn default() -> Self { Self(Common(0b....)) } }
    f.const(cname, rel, r"impl\s+Default\s+for\s+Tag\s*\{.*?Self\(Common\(([^)]+)\)\)")


@family
def gen_C18():
    f = Family("C18")
    # secret control
    _const(f, "unknown_path_secret", SC, "UNKNOWN_PATH_SECRET", "u8")
    _const(f, "stale_key", SC, "STALE_KEY", "u8")
    _const(f, "replay_detected", SC, "REPLAY_DETECTED", "u8")
    _const(f, "sc_has_queue_id", SC, "HAS_QUEUE_ID", "u8")
    _const(f, "sc_max_packet_size", SC, "MAX_PACKET_SIZE", "usize")
    _const(f, "tag_len", SC, "TAG_LEN", "usize")
    f.const("credential_id_len", "dc/s2n-quic-dc/src/credentials.rs", r"pub\s+struct\s+Id\(\[u8;\s*([^\]]+)\]\)")
    # AEAD tag length used by the application keys
    _const(f, "aead_tag_len", AWS, "TAG_LEN", "usize")
    # stream
    _default_tag(f, "stream_tag_default", ST)
    _const(f, "stream_has_source_queue_id", ST, "HAS_SOURCE_QUEUE_ID", "u8")
    _const(f, "stream_is_recovery_packet", ST, "IS_RECOVERY_PACKET", "u8")
    _const(f, "stream_has_control_data", ST, "HAS_CONTROL_DATA_MASK", "u8")
    _const(f, "stream_has_final_offset", ST, "HAS_FINAL_OFFSET_MASK", "u8")
    _const(f, "stream_has_application_header", ST, "HAS_APPLICATION_HEADER_MASK", "u8")
    _const(f, "stream_key_phase", ST, "KEY_PHASE_MASK", "u8")
    _const(f, "stream_tag_min", ST, "MIN", "u8")
    _const(f, "stream_tag_max", ST, "MAX", "u8")
    # datagram
    _default_tag(f, "datagram_tag_default", DG)
    _const(f, "datagram_ack_eliciting", DG, "ACK_ELICITING_MASK", "u8")
    _const(f, "datagram_is_connected", DG, "IS_CONNECTED_MASK", "u8")
    _const(f, "datagram_has_application_header", DG, "HAS_APPLICATION_HEADER_MASK", "u8")
    _const(f, "datagram_key_phase", DG, "KEY_PHASE_MASK", "u8")
    _const(f, "datagram_tag_min", DG, "MIN", "u8")
    _const(f, "datagram_tag_max", DG, "MAX", "u8")
    # control
    _default_tag(f, "control_tag_default", CT)
    _const(f, "control_has_source_queue_id", CT, "HAS_SOURCE_QUEUE_ID", "u8")
    _const(f, "control_is_stream", CT, "IS_STREAM_MASK", "u8")
    _const(f, "control_has_application_header", CT, "HAS_APPLICATION_HEADER_MASK", "u8")
    _const(f, "control_tag_min", CT, "MIN", "u8")
    _const(f, "control_tag_max", CT, "MAX", "u8")
    return f
