"""Translator family C10: congestion-control constants read from the current source.

Float constants are emitted as their IEEE-754 binary32 decomposition (mantissa with the hidden bit,
binary exponent): value = man * 2^(-sh).  A constant that cannot be located is not emitted.
"""
import re, struct
from gen_consts import family, Family, read, strip_comments, eval_int, EvalError

CUBIC = "quic/s2n-quic-core/src/recovery/cubic.rs"
HSS = "quic/s2n-quic-core/src/recovery/hybrid_slow_start.rs"
BBR = "quic/s2n-quic-core/src/recovery/bbr.rs"
RECOVERY = "quic/s2n-quic-core/src/recovery/mod.rs"


def _try(fn):
    try:
        return fn()
    except (EvalError, AttributeError, TypeError, ValueError, IndexError):
        return None


def f32_parts(text):
    """'0.7' -> (bits, mantissa incl. hidden bit, shift) with value = man / 2^shift (normal, positive)"""
    v = float(text.replace("_", ""))
    bits = struct.unpack(">I", struct.pack(">f", v))[0]
    exp = (bits >> 23) & 0xFF
    man = (bits & 0x7FFFFF) | 0x800000
    if exp == 0 or exp == 255 or bits >> 31:
        raise ValueError("not a positive normal f32")
    sh = 150 - exp
    if sh < 0:
        man <<= -sh
        sh = 0
    while sh > 0 and man % 2 == 0:
        man //= 2
        sh -= 1
    return bits, man, sh


def fconst(f, name, src, regex, origin):
    """emit <name>_bits, <name>_man, <name>_sh for an f32 literal"""
    parts = _try(lambda: f32_parts(re.search(regex, src, re.S).group(1)))
    if parts is None:
        for s in ("_bits", "_man", "_sh"):
            f.n(name + s, None, origin)
    else:
        f.n(name + "_bits", parts[0], origin)
        f.n(name + "_man", parts[1], origin)
        f.n(name + "_sh", parts[2], origin)


@family
def gen_C10():
    f = Family("C10")
    cub = strip_comments(read(CUBIC) or "")
    hss = strip_comments(read(HSS) or "")
    bbr = strip_comments(read(BBR) or "")

    # ---- CUBIC
    fconst(f, "beta_cubic", cub, r"const\s+BETA_CUBIC\s*:\s*f32\s*=\s*([0-9._]+)\s*;", CUBIC)
    fconst(f, "cubic_c", cub, r"const\s+C\s*:\s*f32\s*=\s*([0-9._]+)\s*;", CUBIC)
    # fn minimum_window(&self) -> f32 { 2.0 * self.max_datagram_size as f32 }
    fconst(f, "cubic_min_window_mult", cub,
           r"fn\s+minimum_window\s*\(\s*&self\s*\)\s*->\s*f32\s*\{\s*([0-9._]+)\s*\*\s*self\.max_datagram_size\s+as\s+f32\s*\}", CUBIC)
    f.const("initial_window_limit", CUBIC, r"const\s+INITIAL_WINDOW_LIMIT\s*:\s*u32\s*=\s*([^;]+);")
    # let default = min(10 * max_datagram_size as u32, max(INITIAL_WINDOW_LIMIT, 2 * max_datagram_size as u32));
    m = re.search(r"let\s+default\s*=\s*min\(\s*(\d+)\s*\*\s*max_datagram_size\s+as\s+u32\s*,\s*"
                  r"max\(\s*INITIAL_WINDOW_LIMIT\s*,\s*(\d+)\s*\*\s*max_datagram_size\s+as\s+u32\s*\)\s*,?\s*\)", cub)
    f.n("initial_window_packets", int(m.group(1)) if m else None, CUBIC)
    f.n("initial_window_floor_packets", int(m.group(2)) if m else None, CUBIC)
    f.const("max_burst_multiplier", CUBIC, r"const\s+MAX_BURST_MULTIPLIER\s*:\s*u32\s*=\s*([^;]+);")
    fconst(f, "ss_max_cwnd_mult", cub, r"const\s+SLOW_START_MAX_CWND_MULTIPLIER\s*:\s*f32\s*=\s*([0-9._]+)\s*;", CUBIC)
    fconst(f, "max_cwnd_mult", cub, r"const\s+MAX_CWND_MULTIPLIER\s*:\s*f32\s*=\s*([0-9._]+)\s*;", CUBIC)
    # the acked-bytes divisor in congestion avoidance: `sent_bytes as f32 / 2.0`
    fconst(f, "ca_ack_divisor", cub, r"self\.congestion_window\s*\+\s*sent_bytes\s+as\s+f32\s*/\s*([0-9._]+)\s*\)", CUBIC)
    fconst(f, "low_ssthresh", hss, r"const\s+LOW_SSTHRESH\s*:\s*f32\s*=\s*([0-9._]+)\s*;", HSS)

    f.const("hss_n_sampling", HSS, r"const\s+N_SAMPLING\s*:\s*usize\s*=\s*([^;]+);")
    f.const("hss_threshold_dividend", HSS, r"const\s+THRESHOLD_DIVIDEND\s*:\s*u32\s*=\s*([^;]+);")

    # ---- BBR
    f.const("bbr_min_pipe_cwnd_packets", BBR, r"const\s+MIN_PIPE_CWND_PACKETS\s*:\s*u16\s*=\s*([^;]+);")
    f.const("bbr_initial_window_limit", BBR, r"const\s+INITIAL_WINDOW_LIMIT\s*:\s*u32\s*=\s*([^;]+);")
    m = re.search(r"min\(\s*(\d+)\s*\*\s*max_datagram_size\s+as\s+u32\s*,\s*"
                  r"max\(\s*INITIAL_WINDOW_LIMIT\s*,\s*(\d+)\s*\*\s*max_datagram_size\s+as\s+u32\s*\)\s*,?\s*\)", bbr)
    f.n("bbr_initial_window_packets", int(m.group(1)) if m else None, BBR)
    f.n("bbr_initial_window_floor_packets", int(m.group(2)) if m else None, BBR)
    m = re.search(r"const\s+HEADROOM\s*:\s*Ratio<u64>\s*=\s*Ratio::new_raw\(\s*(\d+)\s*,\s*(\d+)\s*\)", bbr)
    f.n("bbr_headroom_num", int(m.group(1)) if m else None, BBR)
    f.n("bbr_headroom_den", int(m.group(2)) if m else None, BBR)
    f.const("max_burst_packets", RECOVERY, r"pub\s+const\s+MAX_BURST_PACKETS\s*:\s*u32\s*=\s*([^;]+);")
    return f
