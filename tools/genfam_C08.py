"""Translator family for C08: packet number length thresholds and ACK settings constants."""
from gen_consts import family, Family

PNLEN = "quic/s2n-quic-core/src/packet/number/packet_number_len.rs"
SETTINGS = "quic/s2n-quic-core/src/ack/settings.rs"
TP = "quic/s2n-quic-core/src/transport/parameters/mod.rs"
ACKMGR = "quic/s2n-quic-transport/src/ack/ack_manager.rs"


@family
def gen_C08():
    f = Family("C08")
    # PacketNumberLenValue::from_varint thresholds
    for n in (8, 16, 24, 32):
        f.const("pn_u%d_max" % n, PNLEN, r"const\s+U%d_MAX\s*:\s*u64\s*=\s*([^;]+);" % n)
    # ack::Settings::RECOMMENDED
    f.const("ack_elicitation_interval", SETTINGS, r"const\s+RECOMMENDED_ELICITATION_INTERVAL\s*:\s*u8\s*=\s*([^;]+);")
    f.const("ack_ranges_limit", SETTINGS, r"const\s+RECOMMENDED_RANGES_LIMIT\s*:\s*u8\s*=\s*([^;]+);")
    f.const("max_ack_delay_ms", TP, r"impl\s+MaxAckDelay\s*\{[^}]*?pub\s+const\s+RECOMMENDED\s*:\s*Self\s*=\s*Self\(VarInt::from_u8\(([^)]+)\)\);")
    f.const("ack_delay_exponent", TP, r"impl\s+AckDelayExponent\s*\{[^}]*?pub\s+const\s+RECOMMENDED\s*:\s*Self\s*=\s*Self\(([^)]+)\);")
    # AckManager::on_processed_packet: an ACK at least every packet_tolerance-th packet
    f.const("packet_tolerance", ACKMGR, r"let\s+packet_tolerance\s*=\s*([^;]+);")
    return f
