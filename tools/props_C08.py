"""C08 -- ACKs name only packets really received; packet numbers strictly increase and always reconstruct."""
import registry

VMAX = (1 << 62) - 1


def clampv(v):
    return max(0, min(VMAX, v))


# ------------------------------------------------------------------------------------------------
# component pn: case = [space, la, pn, L, len2, t2]
# ------------------------------------------------------------------------------------------------

def _hw(k):
    return 1 << (8 * k - 1)


def pn_case(space, la, pn, L, len2=None, t2=None):
    la, pn, L = clampv(la), clampv(pn), clampv(L)
    if len2 is None:
        len2 = 0
    if t2 is None:
        t2 = pn
    return [space, la, pn, L, len2, t2 & 0xFFFFFFFF]


def gen_pn(rng):
    k = rng.choice([1, 2, 3, 4])
    hw = _hw(k)
    r = rng.random()
    if r < 0.3:
        la = rng.choice([0, 1, 2, 100, 1000, rng.randrange(1 << 16)])
    elif r < 0.6:
        la = rng.randrange(1 << rng.choice([20, 32, 40, 62]))
    else:
        la = VMAX - rng.choice([0, 1, 2, hw - 1, hw, hw + 1, 2 * hw, 2 * hw + 1, rng.randrange(1 << 34)])
    la = clampv(la)
    r = rng.random()
    if r < 0.35:
        d = hw + rng.choice([-3, -2, -1, 0, 1, 2])
    elif r < 0.5:
        d = (1 << rng.randrange(0, 34)) + rng.choice([-1, 0, 1])
    elif r < 0.85:
        d = rng.randrange(0, hw)
    elif r < 0.95:
        d = rng.randrange(0, 1 << 33)
    else:
        d = -rng.randrange(1, 1000)
    pn = clampv(la + d)
    r = rng.random()
    if r < 0.2:
        L = la
    elif r < 0.4:
        L = rng.randrange(min(la, pn), max(la, pn) + 1)
    elif r < 0.5:
        L = pn - 1
    elif r < 0.8:
        kk = rng.choice([1, 2, 3, 4, k, k])
        L = pn + rng.choice([-1, 1]) * (_hw(kk) + rng.choice([-3, -2, -1, 0, 1, 2])) + rng.choice([0, 0, -1])
    elif r < 0.9:
        L = pn + rng.randrange(-2 * hw, 2 * hw + 1)
    else:
        L = rng.choice([VMAX, VMAX - 1, VMAX - hw, VMAX - hw + 1, 0, rng.randrange(1 << 62)])
    L = clampv(L)
    len2 = rng.randrange(4)
    r = rng.random()
    if r < 0.5:
        t2 = pn
    elif r < 0.7:
        w2 = 1 << (8 * (len2 + 1))
        t2 = (L + 1 + rng.choice([-1, 1]) * (w2 // 2 + rng.choice([-2, -1, 0, 1, 2]))) % w2
    else:
        t2 = rng.randrange(1 << 32)
    return pn_case(rng.randrange(3), la, pn, L, len2, t2)


def fixed_pn(tier):
    out = []
    # RFC 9000 A.2 / A.3 examples; the O4 replay
    out.append(pn_case(2, 0xabe8bc, 0xac5c02, 0xabe8bc))
    out.append(pn_case(2, 0xabe8bc, 0xace8fe, 0xabe8bc))
    out.append(pn_case(0, 0xa82f30ea, 0xa82f9b32, 0xa82f30ea, 1, 0x9b32))
    out.append(pn_case(2, 1000, 1127, 1000))
    out.append(pn_case(2, 1000, 1127, 950))
    # every length at distances 2^j - 1, 2^j, 2^j + 1, bases near 0 and near 2^62 - 1,
    # expansion bases at the sender's base, just before pn, and around both window edges
    for la0 in (0, 1, 255, 256, 1000, (1 << 32) - 1, 1 << 32, VMAX - (1 << 33), VMAX - (1 << 31), VMAX - 300, VMAX - 1, VMAX):
        for j in range(0, 34):
            for dd in (-1, 0, 1):
                d = (1 << j) + dd
                pn = la0 + d
                if pn > VMAX:
                    la = VMAX - d
                    pn = VMAX
                else:
                    la = la0
                if la < 0:
                    continue
                Ls = {la, pn - 1, pn, (la + pn) // 2}
                for k in (1, 2, 3, 4):
                    for e in (-2, -1, 0, 1):
                        Ls.add(pn + _hw(k) + e - 1)
                        Ls.add(pn - _hw(k) + e - 1)
                for L in sorted(Ls):
                    if 0 <= L <= VMAX:
                        out.append(pn_case(j % 3, la, pn, L, j % 4, pn))
    # receiver alone at the top of the range (saturation at VarInt::MAX) and at the bottom
    for L in (VMAX, VMAX - 1, VMAX - 127, VMAX - 128, VMAX - 129, 0, 1, 126, 127, 128):
        for len2 in range(4):
            w = 1 << (8 * (len2 + 1))
            for t in (0, 1, 2, w // 2 - 1, w // 2, w // 2 + 1, w - 2, w - 1, (L + 1) % w, (L + 2) % w, L % w):
                out.append(pn_case(2, 0, 0, L, len2, t))
    # exhaustive small numbers: every pn < 2^10, small la, L at the sender's base, in order, and at the window edges
    las = (0, 1, 2, 127, 128, 129, 255, 256, 257, 511, 512, 767, 1000)
    step = 1 if tier == "thorough" else 8
    for pn in range(1 << 10):
        for la in las:
            Ls = {la, pn - 1, pn, pn + 126, pn + 127, pn + 128, pn - 128, pn - 129, pn - 130, pn + 254, pn + 255, pn + 256}
            Ls.update(range(pn % step, 1400, step * 16 if tier != "thorough" else 4))
            for L in sorted(Ls):
                if 0 <= L:
                    out.append(pn_case(2, la, pn, L, 0, pn))
    return out


def valid_pn(c):
    return len(c) == 6 and all(0 <= v <= VMAX for v in c[1:4]) and all(v >= 0 for v in c)


def _demand(case, out):
    """does the judge demand a reconstruction on this case?"""
    _, la, pn, L = case[:4]
    if len(out) != 4 or out[0] == 0:
        return False
    hw = 1 << (8 * out[0] - 1)
    return la <= L and (L < pn or (L + 1 < pn + hw and pn <= L + 1 + hw))


def hist_pn(cases, outs):
    h = {"none": 0, "len1": 0, "len2": 0, "len3": 0, "len4": 0, "reconstruct_demanded": 0, "in_order": 0,
         "overtaken_in_window": 0, "outside_window": 0, "saturated": 0}
    for c, o in zip(cases, outs):
        if o.startswith("!"):
            continue
        v = [(-int(t[1:], 16) if t.startswith("-") else int(t, 16)) for t in o.split()]
        if len(v) != 4:
            continue
        h["none" if v[0] == 0 else "len%d" % v[0]] += 1
        if _demand(c, v):
            h["reconstruct_demanded"] += 1
            h["in_order" if c[3] < c[2] else "overtaken_in_window"] += 1
        elif v[0] != 0:
            h["outside_window"] += 1
        if v[3] == VMAX:
            h["saturated"] += 1
    return h


# ------------------------------------------------------------------------------------------------
# component txpn: ops `0 flags` | `1 a b lowest` | `2 jump`
# ------------------------------------------------------------------------------------------------

def gen_txpn(rng):
    n = rng.choice([1, 2, 3, 5, 8, 13, 20, 40])
    ops = []
    nxt = 0        # approximate next packet number, to aim the acks
    sent = []
    if rng.random() < 0.15:
        j = VMAX - rng.choice([1, 2, 3, 4, 5, 6, 8, 20])
        ops += [2, j]
        nxt = j + 1
        sent.append(j)
    for _ in range(n):
        r = rng.random()
        if r < 0.55:
            fl = rng.choice([0, 0, 0, 1, 2, 2, 3, 4, 5, 6, 7])
            ops += [0, fl]
            if not fl & 4:
                nxt += 1 + (1 if fl & 1 and nxt else 0) + (1 if fl & 2 else 0)
                sent.append(nxt - 1)
        elif r < 0.92:
            if sent and rng.random() < 0.8:
                hi = rng.choice(sent[-6:]) + rng.choice([0, 0, 0, 0, -1, 1])
            else:
                hi = nxt + rng.choice([-2, -1, 0, 1, 5])
            hi = clampv(hi)
            lo = clampv(hi - rng.choice([0, 0, 1, 2, 3, 5, 10]))
            lowest = clampv(rng.choice([lo, hi, hi + 1, hi + 2, lo + 1, 0, nxt]))
            if rng.random() < 0.1:
                lo, hi = hi, lo
            ops += [1, lo, hi, lowest]
        else:
            j = rng.choice([0, 1, 2, 100, rng.randrange(1 << 20), rng.randrange(1 << 62)])
            ops += [2, j]
            if nxt + j < VMAX:
                nxt += j + 1
                sent.append(nxt - 1)
    return ops


def fixed_txpn(tier):
    import itertools
    out = [[0, 0, 0, 2, 0, 1, 1, 1, 5, 0, 0, 0, 1, 0, 0, 5, 2, 100, 0, 3]]
    # the top of the range: every flag combination when 1..6 numbers remain
    for rem in range(1, 8):
        for fl in range(8):
            out.append([2, VMAX - rem - 1, 0, fl, 0, 0, 0, 0])
            out.append([2, VMAX - rem - 1, 0, 2, 0, fl, 1, VMAX - rem, VMAX - rem, VMAX, 0, 0])
    out.append([2, VMAX, 0, 0])
    out.append([2, VMAX - 1, 0, 0])
    # all short sequences over a small alphabet of operations
    alpha = [[0, 0], [0, 1], [0, 2], [0, 3], [0, 6], [1, 0, 0, 1], [1, 0, 1, 2], [1, 1, 2, 3], [1, 2, 3, 4], [1, 3, 5, 6], [1, 0, 9, 0], [2, 1]]
    L = 4 if tier == "quick" else 5
    for n in range(1, L + 1):
        for t in itertools.product(alpha, repeat=n):
            out.append([v for o in t for v in o])
    return out


def valid_txpn(c):
    return all(0 <= v <= VMAX for v in c)


def _txpn_parse_out(case, out):
    """number of packets sent / acks accepted / skips, from the implementation's output"""
    i = 0
    j = 0
    sent = acks = skips = rejected = 0
    while i < len(case) and j < len(out):
        k = case[i] % 3
        if k == 0:
            i += 2
            if out[j] >= 0:
                sent += 1
                if j + 1 < len(out) and out[j + 1] >= 0:
                    skips += 1
            j += 2
        elif k == 1:
            i += 4
            if out[j] == 0:
                acks += 1
            elif out[j] == 1:
                rejected += 1
            j += 4
        else:
            i += 2
            if out[j] >= 0:
                sent += 1
            j += 2
    return sent, acks, skips, rejected


def hist_txpn(cases, outs):
    h = {"sent": 0, "acks_accepted": 0, "acks_rejected": 0, "skips": 0, "panic_cases": 0}
    for c, o in zip(cases, outs):
        if o.startswith("!"):
            continue
        v = [(-int(t[1:], 16) if t.startswith("-") else int(t, 16)) for t in o.split()]
        s, a, k, r = _txpn_parse_out(c, v)
        h["sent"] += s
        h["acks_accepted"] += a
        h["acks_rejected"] += r
        h["skips"] += k
        if v and v[-1] == -1 and (len(v) < 2 or v[-2] != -3 and v[-2] != -2 and v[-2] < 0 or True) and len(v) % 2 == 1:
            h["panic_cases"] += 1
    return h


# ------------------------------------------------------------------------------------------------
# component ackmgr: header + ops `0 dt pn flags` | `1 dt ctl pkt` | `2 a b` | `3 a b` | `4 dt`
# ------------------------------------------------------------------------------------------------
AMAX = (1 << 56) - 1
DTS = [0, 0, 1, 100, 999, 1000, 1001, 5000, 10000, 23999, 24000, 24001, 25000, 25001, 26000, 30000, 100000]


def gen_ackmgr(rng):
    r = rng.random()
    if r < 0.5:
        ops = [0]
        limit = 10
    elif r < 0.65:
        ops = [1]
        limit = 10
    else:
        limit = rng.choice([1, 2, 3, 3, 4, 10, 255])
        ops = [2, rng.choice([0, 1, 999, 1000, 5000, 25000, 1 << 20]), rng.choice([0, 3, 3, 10, 20]),
               rng.choice([0, 1, 2, 4, 255]), limit - 1]
    n = rng.choice([2, 4, 6, 10, 16, 25, 40, 60])
    rx = rng.choice([0, 0, 1, 5, 1000, rng.randrange(1 << 30)])
    holes = []
    seen = []
    txn = rng.choice([0, 0, 3, 100])
    sent = []
    for _ in range(n):
        r = rng.random()
        if r < 0.5:
            q = rng.random()
            if q < 0.6 or (not holes and not seen and q >= 0.75):
                pn = rx
                rx += 1
            elif q < 0.75:
                g = rng.choice([1, 1, 2, 3, 5, 20, 1000])
                for h in range(rx, min(rx + g, rx + 4)):
                    holes.append(h)
                pn = rx + g
                rx = pn + 1
            elif q < 0.9 and holes:
                pn = holes.pop(rng.randrange(len(holes)))
            elif seen:
                pn = rng.choice(seen)
            else:
                pn = rx
                rx += 1
            seen.append(pn)
            fl = (1 if rng.random() < 0.7 else 0) | (rng.choice([0, 0, 0, 0, 0, 1, 2, 3]) << 1) | (8 if rng.random() < 0.03 else 0)
            ops += [0, rng.choice(DTS), pn, fl]
        elif r < 0.75:
            ctl = rng.choice([0, 0, 0, 0, 1, 2, 3]) | (rng.choice([0, 0, 0, 0, 0, 1, 2, 3]) << 2) \
                | (16 if rng.random() < 0.5 else 0) | (32 if rng.random() < 0.05 else 0) | (64 if rng.random() < 0.1 else 0)
            ops += [1, rng.choice(DTS), ctl, txn]
            sent.append(txn)
            txn += rng.choice([1, 1, 1, 2])
        elif r < 0.87:
            if sent and rng.random() < 0.9:
                a = rng.choice(sent[-5:])
                b = a + rng.choice([0, 0, 0, 1, 2, -1])
            else:
                a = rng.randrange(0, txn + 2)
                b = a
            ops += [rng.choice([2, 2, 2, 3]), max(0, a), max(0, b)]
        else:
            ops += [4, rng.choice(DTS)]
    return ops


def fixed_ackmgr(tier):
    import itertools
    out = []
    # O4: 900..=1000 except 950, ACK, ack-of-ack empties the ranges, late 950, timeout, ACK (decode base regresses; not demanded)
    o4 = [0]
    for pn in range(900, 1001):
        if pn != 950:
            o4 += [0, 10, pn, 1]
    o4 += [1, 0, 16, 7, 2, 7, 7, 0, 10, 950, 1, 4, 30000, 1, 0, 0, 8]
    out.append(o4)
    # the late packet at or below an acknowledged ACK frame's largest, followed by loss of the other carrier
    out.append([0, 0, 0, 8, 1, 0, 0, 9, 1, 0, 0, 10, 1, 1, 0, 16, 1, 1, 0, 16, 2, 0, 0, 7, 1, 2, 1, 1, 3, 2, 2, 4, 30000])
    alpha = [[0, 0, 0, 1], [0, 1000, 1, 1], [0, 0, 2, 1], [0, 0, 3, 0], [0, 0, 5, 1], [0, 0, 1, 7], [0, 30000, 4, 1],
             [1, 0, 0, 0], [1, 0, 16, 1], [1, 1000, 0, 2], [1, 0, 36, 3], [2, 0, 0], [2, 1, 1], [3, 0, 1], [4, 0], [4, 24001], [4, 25000]]
    L = 3 if tier == "quick" else 4
    for hdr in ([0], [1], [2, 1000, 0, 0, 1]):
        for n in range(1, L + 1):
            for t in itertools.product(alpha, repeat=n):
                out.append(hdr + [v for o in t for v in o])
    return out


def valid_ackmgr(c):
    return all(0 <= v <= AMAX for v in c)


def _ack_stats(case, out):
    frames = out.count(1) if out else 0
    return frames


def nontrivial_ackmgr(case, out):
    # at least one ACK frame emitted: the frame marker 1 followed by ping flag; count via walking is costly, approximate
    # by re-walking the case/ output structure
    try:
        i = 1 if case and case[0] % 3 != 2 else 5
        j = 0
        frames = 0
        elic = 0
        while i < len(case) and j < len(out):
            k = case[i] % 5
            if k == 0:
                elic += case[i + 3] & 1 if i + 3 < len(case) else 0
                i += 4
            elif k == 1:
                i += 4
                if out[j] == 1:
                    frames += 1
                    j += 7 + 2 * out[j + 6]
                else:
                    j += 1
            elif k in (2, 3):
                i += 3
            else:
                i += 2
            j += 3
        return frames >= 1 and elic >= 1
    except Exception:
        return False


def hist_ackmgr(cases, outs):
    h = {"frames": 0, "cases_with_frame": 0, "ops": {"proc": 0, "tx": 0, "ack": 0, "loss": 0, "timeout": 0}, "timer_armed_states": 0, "active_states": 0}
    names = ["proc", "tx", "ack", "loss", "timeout"]
    for c, o in zip(cases, outs):
        if o.startswith("!"):
            continue
        out = [(-int(t[1:], 16) if t.startswith("-") else int(t, 16)) for t in o.split()]
        i = 1 if c and c[0] % 3 != 2 else 5
        j = 0
        fr = 0
        while i < len(c) and j < len(out):
            k = c[i] % 5
            h["ops"][names[k]] += 1
            if k == 1:
                if out[j] == 1:
                    fr += 1
                    j += 7 + 2 * out[j + 6]
                else:
                    j += 1
            i += [4, 4, 3, 3, 2][k]
            if j + 1 < len(out):
                h["timer_armed_states"] += out[j] >= 0
                h["active_states"] += out[j + 1] == 1
            j += 3
        h["frames"] += fr
        h["cases_with_frame"] += fr > 0
    return h


registry.register("C08", {
    "gen": ["C08"],
    "props_file": "props/C08.v",
    "extract_target": "extract/Ex_C08.vo",
    "harness": "h_transport",
    "axioms_allowed": [],
    "components": [
        {"name": "pn", "gen": gen_pn, "fixed": fixed_pn, "quick": 60000, "thorough": 2000000,
         "valid": valid_pn, "nontrivial": _demand, "histogram": hist_pn},
        {"name": "txpn", "gen": gen_txpn, "fixed": fixed_txpn, "quick": 30000, "thorough": 500000,
         "valid": valid_txpn, "histogram": hist_txpn,
         "nontrivial": lambda case, out: _txpn_parse_out(case, out)[0] >= 2 and _txpn_parse_out(case, out)[1] >= 1},
        {"name": "ackmgr", "gen": gen_ackmgr, "fixed": fixed_ackmgr, "quick": 30000, "thorough": 500000,
         "valid": valid_ackmgr, "histogram": hist_ackmgr, "nontrivial": nontrivial_ackmgr},
    ],
    "rule": "ackmgr: the O4 replay and the late-packet/ack-of-ack/loss scenario, all sequences of length <= 3 (quick) / 4 (thorough) over 17 operations under default, EARLY and a 1-range configuration, seeded random receive histories (in order, gaps, late fill-ins, duplicates, CE marks) interleaved with packet assemblies under every constraint/mode (ACK or PING not fitting), acknowledgements and losses aimed at ACK-carrying packets and timer expiries at 1 ms around max_ack_delay; non-trivial when an ACK frame was emitted after an ack-eliciting packet; pn: corpus + boundary families (RFC A.2/A.3 examples; every length at distances 2^j-1, 2^j, 2^j+1 (j < 34) from bases near 0, 2^32 and 2^62-1 with expansion bases at the sender's base, just below pn and at both edges of all four windows; the receiver alone at L near 0 and 2^62-1; every pn < 2^10 with 13 small bases) + seeded random triples clustered at the half-window edges; txpn: every flag combination with 1..7 numbers left below 2^62-1, all sequences of length <= 4 (quick) / 5 (thorough) over 12 operations, seeded random mixes of transmissions (skips, abandoned packets), acknowledgements aimed at recently sent / skipped / not yet sent numbers and jumps; non-trivial when at least two packets were sent and one acknowledgement accepted; a pn case is non-trivial when a truncation was produced and the property demands its reconstruction at the given expansion base",
    "assumptions": [
        "packet numbers handed to truncate/expand are VarInts (< 2^62), as the PacketNumber type guarantees",
        "txpn: the packet number selection of ApplicationSpace::on_transmit (PTO skip, optimistic-ack skip, abandoned packet) is replayed by the hook driver TxPnDriver, not executed from application.rs itself",
        "ackmgr: ack::Ranges (IntervalSet with limit) is modelled by its abstract value (ascending disjoint intervals; max_value as the maximum over the intervals). Judgement exemptions (RFC 9000): packets at or below the largest acknowledged of an ACK frame whose carrier was acknowledged are not owed (13.2.4); once ack_ranges_limit packets have been processed an emitted frame counts as covering every earlier packet (13.2.3, bounded state); losses of carriers that held nothing ack-eliciting are not reported to the manager and do not renew the debt. A covered packet is owed again when every ACK frame covering it travelled in an ack-eliciting packet that was declared lost",
    ],
    "trusted_base": ["no axioms: Print Assumptions reports 'Closed under the global context' for every C08 theorem"],
    "explanation": "Coq theorems C08_* over models of packet/number/*.rs (truncate, expand), space/tx_packet_numbers.rs, ack/ack_manager.rs + ack_transmission_state.rs + core ack/{ranges,transmission,settings}.rs for all numbers below 2^62 and every expansion base; models tied to the source by generated constants and differential execution",
})
