"""Translator family C17: the `Ordering::*` argument of every atomic access the Spsc / Cursor /
Worker models have a step for, and MINIMUM_CAPACITY.  Encoding: 0 Relaxed, 1 Acquire, 2 Release,
3 AcqRel, 4 SeqCst.  A constant is emitted only if the access is found in the named function and all
its occurrences there use the same ordering; otherwise it is MISSING and props/C17.v stops compiling.
This ties the model's assumptions to the source text (a syntactic tie, not a weak-memory proof)."""
import os, re, glob
from gen_consts import family, Family, read, strip_comments, REPO

ORD = {"Relaxed": 0, "Acquire": 1, "Release": 2, "AcqRel": 3, "SeqCst": 4}
CORE = "quic/s2n-quic-core/src/sync/"


def fn_body(src, name):
    """text of `fn name` up to the next `fn ` at the same or lower indentation (good enough for these files)"""
    m = re.search(r"^(\s*)(?:pub(?:\([^)]*\))?\s+)?(?:unsafe\s+)?(?:async\s+)?fn\s+%s\b" % re.escape(name), src, re.M)
    if not m:
        return None
    start = m.end()
    indent = len(m.group(1).replace("\n", ""))
    m2 = re.search(r"^\s{0,%d}(?:pub(?:\([^)]*\))?\s+)?(?:unsafe\s+)?(?:async\s+)?fn\s+\w+|^\s{0,%d}(?:impl|struct|mod)\b" % (indent, indent), src[start:], re.M)
    return src[start:start + m2.start()] if m2 else src[start:]


def orderings(body, access_re):
    """list of ordering tuples for every match of access_re (which captures the argument list)"""
    res = []
    for m in re.finditer(access_re, body, re.S):
        res.append(tuple(re.findall(r"\b(?:Ordering::)?(Relaxed|Acquire|Release|AcqRel|SeqCst)\b", m.group(1))))
    return res


def emit(f, cname, src, origin, fn, access_re, idx=0, expect_n=None):
    val = None
    if src is not None:
        body = fn_body(src, fn)
        if body is not None:
            os_ = orderings(body, access_re)
            if os_ and all(o == os_[0] for o in os_) and len(os_[0]) > idx and (expect_n is None or len(os_) == expect_n):
                val = ORD[os_[0][idx]]
    f.n(cname, val, "%s fn %s" % (origin, fn))


@family
def gen_C17():
    f = Family("C17")
    st = CORE + "spsc/state.rs"
    f.const("minimum_capacity", st, r"const\s+MINIMUM_CAPACITY\s*:\s*usize\s*=\s*([^;]+);")
    s = read(st)
    s = strip_comments(s) if s is not None else None
    acc = lambda field, op: r"self\s*\.\s*%s\s*\.\s*%s\s*\(([^()]*)\)" % (field, op)
    # spsc/state.rs
    emit(f, "cap_open_load_ordering", s, st, "acquire_capacity", acc("open", "load"), expect_n=1)
    emit(f, "cap_head_load_ordering", s, st, "acquire_capacity", acc("head", "load"), expect_n=1)
    emit(f, "filled_tail_load_ordering", s, st, "acquire_filled", acc("tail", "load"), expect_n=2)
    emit(f, "filled_open_load_ordering", s, st, "acquire_filled", acc("open", "load"), expect_n=1)
    emit(f, "head_store_ordering", s, st, "persist_head", acc("head", "store"), expect_n=1)
    emit(f, "tail_store_ordering", s, st, "persist_tail", acc("tail", "store"), expect_n=1)
    emit(f, "close_swap_ordering", s, st, "close", acc("open", "swap"), expect_n=1)
    emit(f, "drop_head_load_ordering", s, st, "drop_contents", acc("head", "load"), expect_n=1)
    emit(f, "drop_tail_load_ordering", s, st, "drop_contents", acc("tail", "load"), expect_n=1)
    # program order the model relies on: the index is published before the peer is woken, and `close`
    # wakes after the swap (1 = the textual order is as modelled)
    def order(fn, first, then):
        if s is None:
            return None
        b = fn_body(s, fn)
        if b is None:
            return None
        i, j = b.find(first), b.rfind(then)
        return 1 if (0 <= i < j) else 0
    f.n("persist_tail_store_before_wake", order("persist_tail", "self.tail.store", "self.receiver.wake()"), st)
    f.n("persist_head_store_before_wake", order("persist_head", "self.head.store", "self.sender.wake()"), st)
    f.n("close_swap_before_wake_r", order("close", "self.open.swap", "self.receiver.wake()"), st)
    f.n("close_swap_before_wake_s", order("close", "self.open.swap", "self.sender.wake()"), st)
    # which close protocol: 1 if `close` decides who frees by `released.swap(true, ..)` after its last wake
    # (candidate repair of the use-after-free), 0 if the result of `open.swap` decides (current code)
    def last_out():
        if s is None:
            return None
        b = fn_body(s, "close")
        if b is None:
            return None
        has_rel = re.search(r"self\s*\.\s*released\s*\.\s*swap\s*\(\s*true", b) is not None
        has_was = re.search(r"let\s+was_open\s*=\s*self\s*\.\s*open\s*\.\s*swap", b) is not None
        if has_rel and not has_was:
            i, j = b.rfind(".wake()"), b.find("released")
            return 1 if 0 <= i < j else None
        if has_was and not has_rel:
            return 0
        return None
    f.n("close_last_out_frees", last_out(), st + " fn close")
    # the step order of `close`: which side wakes its peer before / after `open.swap(false)`.  The model's
    # close steps are generated from these four bits (Spsc.cfg_*), so a changed close changes the model.
    def close_wakes():
        if s is None:
            return [None] * 4
        b = fn_body(s, "close")
        if b is None:
            return [None] * 4
        m = re.search(r"self\s*\.\s*open\s*\.\s*swap\s*\(", b)
        if not m:
            return [None] * 4
        pre, post = b[:m.start()], b[m.end():]
        # cut `post` at the point where the contents are dropped
        k = post.find("drop_contents")
        if k >= 0:
            post = post[:k]
        def side_wakes(seg, waker):
            # the Sender side wakes `receiver`, the Receiver side wakes `sender`
            side = "Sender" if waker == "receiver" else "Receiver"
            call = r"self\s*\.\s*%s\s*\.\s*wake\s*\(\s*\)" % waker
            if re.search(r"Side::%s\s*=>\s*(?:\{\s*)?%s" % (side, call), seg):
                return 1
            if re.search(r"if\s+side\s*==\s*Side::%s\s*\{[^{}]*%s" % (side, call), seg):
                return 1
            if re.search(call, seg):
                return None      # a wake in a shape the translator does not understand
            return 0
        return [side_wakes(pre, "receiver"), side_wakes(post, "receiver"), side_wakes(pre, "sender"), side_wakes(post, "sender")]
    cw = close_wakes()
    f.n("close_pre_wake_sender", cw[0], st + " fn close")
    f.n("close_post_wake_sender", cw[1], st + " fn close")
    f.n("close_pre_wake_receiver", cw[2], st + " fn close")
    f.n("close_post_wake_receiver", cw[3], st + " fn close")
    # platform rx task: does the early-return path of poll_ring! (ring full -> Pending) issue the deferred
    # consumer wake-up?  (1 = `if pending_wake { this.ring.wake(); }` precedes `return Poll::Pending` there)
    rxp = "quic/s2n-quic-platform/src/socket/task/rx.rs"
    rx = read(rxp)
    rxv = None
    if rx is not None:
        rx = strip_comments(rx)
        m = re.search(r"macro_rules!\s*poll_ring\s*\{(.*?)macro_rules!\s*drain_socket", rx, re.S)
        if m:
            body = m.group(1)
            m2 = re.search(r"Poll::Pending\s*=>\s*(.*)", body, re.S)
            if m2:
                arm = m2.group(1)
                k = arm.find("return Poll::Pending")
                if k >= 0:
                    rxv = 1 if re.search(r"if\s+pending_wake\s*\{\s*this\.ring\.wake\(\)\s*;?\s*\}", arm[:k]) else 0
    f.n("rx_early_return_wakes", rxv, rxp + " macro poll_ring!")
    # platform tx queue: the two wake decisions of TxQueue
    txp = "quic/s2n-quic-platform/src/socket/io/tx.rs"
    tx = read(txp)
    spill = clamp = None
    if tx is not None:
        tx = strip_comments(tx)
        pb = fn_body(tx, "push")
        if pb is not None:
            m = re.search(r"else\s*\{(.*?)self\s*\.\s*channel_index\s*\+=\s*1", pb, re.S)
            if m:
                spill = 1 if re.search(r"self\s*\.\s*flush_channel\s*\(\s*\)", m.group(1)) else 0
        fb = fn_body(tx, "flush_channel")
        if fb is not None and re.search(r"\.\s*wake\s*\(\s*\)", fb):
            if re.search(r"channels\s*\.\s*get_mut\s*\(\s*self\s*\.\s*channel_index\s*\)", fb):
                clamp = 0
            elif re.search(r"channel_index\s*\.\s*min\s*\(\s*self\s*\.\s*channels\s*\.\s*len\s*\(\s*\)\s*-\s*1\s*\)", fb):
                clamp = 1
    f.n("tx_spill_flushes", spill, txp + " fn push")
    f.n("tx_flush_clamps", clamp, txp + " fn flush_channel")
    # AtomicWaker (external crate re-exported by sync/primitive.rs): version from Cargo.lock
    lock = read("Cargo.lock")
    aw_src, aw_origin = None, "atomic-waker (not found)"
    if lock:
        m = re.search(r'name = "atomic-waker"\s*\nversion = "([^"]+)"', lock)
        if m:
            hits = sorted(glob.glob(os.path.expanduser("~/.cargo/registry/src/*/atomic-waker-%s/src/lib.rs" % m.group(1))))
            if hits:
                aw_src = strip_comments(open(hits[0], encoding="utf-8").read())
                aw_origin = "atomic-waker-%s/src/lib.rs" % m.group(1)
    call = lambda op, first: r"\.\s*%s\s*\(\s*%s\s*,([^()]*)\)" % (op, first)
    emit(f, "aw_reg_cas1_success_ordering", aw_src, aw_origin, "register", call("compare_exchange", "WAITING"), 0)
    emit(f, "aw_reg_cas2_success_ordering", aw_src, aw_origin, "register", call("compare_exchange", "REGISTERING"), 0)
    emit(f, "aw_reg_swap_ordering", aw_src, aw_origin, "register", call("swap", "WAITING"), 0)
    emit(f, "aw_take_fetch_or_ordering", aw_src, aw_origin, "take", call("fetch_or", "WAKING"), 0)
    emit(f, "aw_take_fetch_and_ordering", aw_src, aw_origin, "take", call("fetch_and", "!WAKING"), 0)
    # sync/atomic_waker.rs (attached pair)
    aw = CORE + "atomic_waker.rs"
    a = read(aw)
    a = strip_comments(a) if a is not None else None
    emit(f, "pair_is_open_load_ordering", a, aw, "is_open", r"\(\*self\.is_open\)\s*\.\s*load\s*\(([^()]*)\)")
    emit(f, "pair_is_open_store_ordering", a, aw, "drop", r"\(\*self\.is_open\)\s*\.\s*store\s*\(([^()]*)\)")
    # sync/cursor.rs
    cu = CORE + "cursor.rs"
    c = read(cu)
    c = strip_comments(c) if c is not None else None
    emit(f, "cursor_acq_producer_load_ordering", c, cu, "acquire_producer", r"self\.consumer\(\)\s*\.\s*load\s*\(([^()]*)\)")
    emit(f, "cursor_rel_producer_add_ordering", c, cu, "release_producer", r"self\.producer\(\)\s*\.\s*fetch_add\s*\(([^()]*)\)")
    emit(f, "cursor_acq_consumer_load_ordering", c, cu, "acquire_consumer", r"self\.producer\(\)\s*\.\s*load\s*\(([^()]*)\)")
    emit(f, "cursor_rel_consumer_add_ordering", c, cu, "release_consumer", r"self\.consumer\(\)\s*\.\s*fetch_add\s*\(([^()]*)\)")
    # sync/worker.rs
    wo = CORE + "worker.rs"
    w = read(wo)
    w = strip_comments(w) if w is not None else None
    emit(f, "worker_remaining_swap_ordering", w, wo, "poll_acquire", r"state\.remaining\s*\.\s*swap\s*\(([^()]*)\)")
    emit(f, "worker_senders_load_ordering", w, wo, "poll_acquire", r"state\.senders\s*\.\s*load\s*\(([^()]*)\)")
    emit(f, "worker_submit_add_ordering", w, wo, "submit", r"state\.remaining\s*\.\s*fetch_add\s*\(([^()]*)\)")
    emit(f, "worker_drop_sub_ordering", w, wo, "drop", r"state\.senders\s*\.\s*fetch_sub\s*\(([^()]*)\)")
    return f
