"""developer aid (not used by ./check): run cases of one E2E component through the harness and the extracted judge:  python3 tools/e2e_batch.py e2e_stream 300 7 [--nofixed]"""
import sys, os, random, subprocess, time, hashlib
sys.path.insert(0, '/verif/tools')
import registry, props_E2E
from run_check import hexline, parse_hexline, run_sharded
comp = props_E2E.E2E_COMPONENTS[sys.argv[1]]
n = int(sys.argv[2]); seed = int(sys.argv[3]) if len(sys.argv) > 3 else 1
rng = random.Random(seed)
cases = (comp["fixed"]("quick") if "--nofixed" not in sys.argv else []) + [comp["gen"](rng) for _ in range(n)]
lines = [hexline(c) for c in cases]
t = time.time()
outs = run_sharded([os.environ.get("E2E_BIN", "/verif/target/release/E2E"), comp["name"]], lines, per=1, line_timeout=300)
t1 = time.time()
ver = run_sharded(["/verif/build/ocaml/E2E/model_E2E", "judge", comp["name"]], ["%s | %s" % (a, b) for a, b in zip(lines, outs)])
t2 = time.time()
bad = 0
for c, o, v in zip(cases, outs, ver):
    if v != "1":
        bad += 1
        cl = comp.get("classify", lambda p: None)({"component": comp["name"], "case": c, "impl": o})
        print("REJECT", cl, c, o[:300])
print("cases", len(cases), "impl %.1fs judge %.1fs rejected %d" % (t1 - t, t2 - t1, bad), "nontrivial", sum(1 for c, o in zip(cases, outs) if not o.startswith("!") and comp["nontrivial"](c, parse_hexline(o))))
if "histogram" in comp: print(comp["histogram"](cases, outs))
