"""C10 -- congestion control keeps its window and sending within RFC 9002 bounds."""
import random, hashlib
import registry

U32 = (1 << 32) - 1
MDS_CHOICES = [1200, 1201, 1252, 1350, 1452, 1472, 1500, 2048, 4000, 8192, 8999, 9000]


def _dt(rng):
    r = rng.random()
    if r < 0.35:
        return 0
    if r < 0.6:
        return rng.choice([1, 2, 10, 100])
    if r < 0.9:
        return rng.choice([1000, 5000, 25000, 100000, 333333])
    return rng.randrange(0, 10_000_001)


def _rtt(rng):
    r = rng.random()
    if r < 0.5:
        return rng.choice([1, 2, 10, 100, 1000, 25000, 100000, 333000, 10_000_000])
    return rng.randrange(1, 10_000_001)


def gen_history(rng, bbr=False):
    """a valid event history: never acks / loses / discards more than is in flight"""
    mds = rng.choice(MDS_CHOICES + [rng.randrange(1200, 9001)])
    case = [mds]
    n = rng.choice([2, 4, 8, 12, 20, 30, 50, 80])
    style = rng.random()          # < .3: bulk sender, < .6: app limited, else mixed
    bif = 0
    now = 0
    pk = []                       # outstanding packets (size, sent time)
    rec = None                    # time of the last congestion event (approximate recovery start)
    hs_mode = rng.choice([0, 1, 1])  # 1: RTT samples follow a slowly rising baseline (delay increase detection)
    hs_base = rng.choice([1000, 20000, 32000, 100000])
    for _ in range(n):
        r = rng.random()
        dt = _dt(rng)
        t = now + dt
        if bif == 0 or r < (0.55 if style < 0.3 else 0.4):
            q = rng.random()
            if q < 0.55:
                b = mds
            elif q < 0.7:
                b = rng.choice([1, 2, mds - 1, mds // 2, 65535, 65534, 40000])
            elif q < 0.98:
                b = rng.randrange(1, 65536)
            else:
                b = 0
            if bif + b > U32:
                continue
            if style < 0.3:
                app = rng.choice([0, 1, 1, 1, 2])
            elif style < 0.6:
                app = rng.choice([2, 2, 2, 0, 1])
            else:
                app = rng.choice([0, 1, 2])
            case += [1, b, app, 0, dt]
            now = t
            if b:
                bif += b
                pk.append((b, t))
        elif r < 0.75:
            # acknowledge some packets (or an arbitrary amount)
            k = rng.choice([1, 1, 2, 3, len(pk)])
            k = max(1, min(k, len(pk)))
            if rng.random() < 0.8:
                sel = pk[:k]
                del pk[:k]
            else:
                idx = sorted(rng.sample(range(len(pk)), k))
                sel = [pk[i] for i in idx]
                for i in reversed(idx):
                    del pk[i]
            b = sum(s for s, _ in sel)
            sent = max(s for _, s in sel)
            if rec is not None and rng.random() < 0.4:
                sent = max(0, min(t, rec + rng.choice([-1, 0, 0, 1, 1, 2])))
            sample = _rtt(rng)
            if not bbr and rng.random() < 0.7:
                # the recovery manager updates the RTT (hybrid slow start) before on_ack
                if hs_mode == 1:
                    hs_base = hs_base if rng.random() < 0.8 else hs_base + rng.choice([0, 3999, 4000, 4001, 16000, 100000])
                    sample = max(1, hs_base + rng.choice([0, 0, 1, 50]))
                case += [7, 0, t - sent, sample, dt]
                dt = 0
            case += [2, b, t - sent, sample, dt]
            now = t
            bif -= b
        elif r < 0.89:
            i = rng.randrange(len(pk)) if rng.random() < 0.5 else 0
            b, _ = pk.pop(i)
            pers = 1 if rng.random() < 0.12 else 0
            case += [3, b, pers, rng.choice([0, 1]), dt]
            now = t
            bif -= b
            rec = t
        elif r < 0.93:
            case += [4, rng.choice([1, 1, 2, 100, 1 << 40]), 0, 0, dt]
            now = t
            rec = t
        elif r < 0.97:
            mds = rng.choice(MDS_CHOICES + [rng.randrange(1200, 9001)])
            case += [5, mds, 0, 0, dt]
            now = t
        else:
            b, _ = pk.pop(rng.randrange(len(pk)))
            case += [6, b, 0, 0, dt]
            now = t
            bif -= b
    return case


def gen_bbr_probe(rng):
    """BBR driven round by round: Startup until the pipe is filled (bandwidth plateau or loss),
    ProbeBW with loss bursts and ECN (inflight_hi / inflight_lo reductions), application-limited
    and idle phases longer than the 5 s ProbeRTT interval, ProbeRTT with a small BDP, MTU changes."""
    mds = rng.choice(MDS_CHOICES + [rng.randrange(1200, 9001)])
    case = [mds]
    rtt = rng.choice([1000, 5000, 20000, 50000, 100000])
    pk = []          # outstanding packet sizes, oldest first
    dt_next = [0]

    def op(code, a=0, b=0, c=0):
        case.extend([code, a, b, c, dt_next[0]])
        dt_next[0] = 0

    def wait(us):
        dt_next[0] += us

    def send(n, size, app):
        for _ in range(n):
            op(1, size, app)
            pk.append(size)
            if rng.random() < 0.3:
                wait(rng.choice([1, 10, 100]))

    def ack(n, sample):
        n = min(n, len(pk))
        if n <= 0:
            return
        b = sum(pk[:n])
        del pk[:n]
        op(2, b, 0, max(1, sample))

    def lose(n, pers=0):
        first = 1
        for _ in range(min(n, len(pk))):
            b = pk.pop(0)
            op(3, b, pers, first)
            first = rng.choice([0, 0, 1])

    k = rng.choice([2, 4, 10])
    plateau = rng.choice([8, 16, 32, 64])
    rounds = rng.choice([6, 10, 16, 24, 40])
    budget = rng.choice([120, 200, 320])
    for r in range(rounds):
        if len(case) // 5 > budget:
            break
        q = rng.random()
        size = mds if rng.random() < 0.85 else rng.randrange(1, 65536)
        app = 1 if rng.random() < 0.8 else rng.choice([0, 2])
        send(k, size, app)
        wait(rtt + rng.choice([0, 0, rtt // 8, rtt // 2]))
        if q < 0.25 and len(pk) > 3:
            lose(rng.choice([1, 2, 3, len(pk) // 2]))
        elif q < 0.32:
            op(4, rng.choice([1, 3, 50]))
        # acknowledge the round in one or several acks
        parts = rng.choice([1, 1, 2, 4])
        left = len(pk) - rng.choice([0, 0, 0, 1, 2])
        for i in range(parts):
            ack(max(1, left // parts), rtt + rng.choice([0, 0, rtt // 10, rtt, 5 * rtt]))
            wait(rng.choice([0, 1, rtt // (parts + 1)]))
        k = min(plateau, k * 2) if rng.random() < 0.8 else k
        z = rng.random()
        if z < 0.12:
            # idle / application-limited gap around the ProbeRTT interval, then a trickle
            wait(rng.choice([900_000, 2_600_000, 4_999_999, 5_000_001, 5_200_000, 9_000_000]))
            for _ in range(rng.choice([1, 2, 5])):
                send(1, rng.choice([mds, 100, 1]), rng.choice([0, 2, 2]))
                wait(rng.choice([rtt, 50_000, 210_000]))
                ack(len(pk), rng.choice([rtt, rtt * 3, 10_000_000]))
        elif z < 0.17:
            mds = rng.choice(MDS_CHOICES)
            op(5, mds)
        elif z < 0.2 and pk:
            b = pk.pop(rng.randrange(len(pk)))
            # discards take bytes from the oldest packets in the harness; keep our list in step
            pk.insert(0, b)
            op(6, pk.pop(0))
    # keep gaps within the 10 s bound of valid_history
    for i in range(5, len(case), 5):
        case[i] = min(case[i], 10_000_000)
    return case


def valid_history(c):
    if len(c) < 1 or (len(c) - 1) % 5 != 0 or any(v < 0 for v in c):
        return False
    if not (1200 <= c[0] <= 9000):
        return False
    bif = 0
    sent_any = False
    for i in range(1, len(c), 5):
        code, a, b, cc, dt = c[i:i + 5]
        if dt > 10_000_000:
            return False
        if code == 1:
            if a > 65535 or b > 2:
                return False
            bif += a
            sent_any = sent_any or a > 0
        elif code == 2:
            if a > bif or not (1 <= cc <= 10_000_000) or a == 0:
                return False
            bif -= a
        elif code == 3:
            if a > bif or a == 0 or b > 1 or cc > 1:
                return False
            bif -= a
        elif code == 4:
            if a == 0:
                return False
        elif code == 5:
            if not (1200 <= a <= 9000):
                return False
        elif code == 6:
            if a > bif:
                return False
            bif -= a
        elif code == 7:
            # on_rtt_update `expect`s that a packet has been sent
            if not sent_any or not (1 <= cc <= 10_000_000):
                return False
        else:
            return False
        if bif > U32:
            return False
    return True


def gen_gate(rng):
    """a full window, then several losses / CE marks of the same flight detected one by one with
    retransmissions in between (the pattern in which a second allowance would show), mixed with
    the general histories"""
    if rng.random() < 0.5:
        return gen_history(rng)
    m = rng.choice(MDS_CHOICES)
    c = [m]
    n = rng.choice([10, 12, 20])
    for _ in range(n):
        c += [1, m, 1, 0, rng.choice([0, 1])]
    left = n
    for _ in range(rng.choice([2, 3, 5])):
        if left < 2:
            break
        if rng.random() < 0.75:
            c += [3, m, 0, rng.choice([0, 1]), rng.choice([1, 100, 1000])]
            left -= 1
        else:
            c += [4, 1, 0, 0, rng.choice([1, 100])]
        if rng.random() < 0.8:
            c += [1, m, 1, 0, rng.choice([0, 1])]
            left += 1
        if rng.random() < 0.3 and left > 1:
            c += [2, m, rng.choice([0, 5000, 10_000_000]), 25000, rng.choice([1, 1000])]
            left -= 1
    return c


def hystart_case(m, base, inc):
    c = [m]
    now = [0]
    pend = [0]

    def op(code, a=0, b=0, cc=0):
        c.extend([code, a, b, cc, pend[0]])
        now[0] += pend[0]
        pend[0] = 0

    def batch(n):
        times = []
        for _ in range(n):
            pend[0] += 1
            op(1, m, 1)
            times.append(now[0])
        return times

    first = batch(16)
    pend[0] += 1000
    for rnd, sample in ((0, base), (1, base + inc)):
        nxt = batch(16)                       # sent before the round's first sample: they end the round
        pend[0] += 1000
        # the first sample is for the newest packet of the previous batch: its send time is the
        # end of the previous round, so it opens a new round; 8 more samples stay inside it
        for t in [first[-1]] + first[:8]:
            op(7, 0, now[0] + pend[0] - t, sample)
            op(2, m, now[0] - t, sample)
        for t in first[8:-1]:
            op(2, m, now[0] - t, sample)
        first = nxt
    return c


def fixed_cubic(tier):
    out = []
    for m in (1200, 1472, 1500, 7360, 7361, 9000):
        # slow start growth, a loss, a second loss inside the recovery period, recovery exit, growth in avoidance
        out.append([m] + [1, m, 1, 0, 0] * 10 + [2, 2 * m, 0, 1000, 1000, 3, m, 0, 1, 10, 3, m, 0, 0, 10,
                                                  1, m, 1, 0, 5, 2, m, 5, 1000, 1000, 2, m, 0, 1000, 1000, 2, m, 0, 1000, 100000])
        # collapse by persistent congestion, ECN in the recovery period, app limited acks
        out.append([m] + [1, m, 2, 0, 0] * 3 + [2, m, 0, 25000, 25000, 3, m, 1, 1, 0, 4, 1, 0, 0, 1, 2, m, 0, 25000, 1])
        # repeated losses at the minimum window
        out.append([m] + [1, m, 1, 0, 0] * 12 + [3, m, 0, 1, 1, 1, m, 1, 0, 1, 2, m, 0, 1, 1] * 5 + [5, 1200, 0, 0, 0, 5, 9000, 0, 0, 0, 5, m, 0, 0, 0])
    # hybrid slow start: two RTT rounds of 8 samples each (a round ends when a packet sent after
    # the round's first sample is acknowledged), the second round slower by inc; the threshold is
    # set when inc >= max(4 ms, min(16 ms, rtt/8)) and the window is above 16 datagrams
    for m in (1200, 1500):
        for base, inc in ((20000, 3999), (20000, 4000), (20000, 4001), (200000, 15999), (200000, 16000), (32000, 4000)):
            out.append(hystart_case(m, base, inc))
    return out


def gen_bbr(rng):
    return gen_bbr_probe(rng) if rng.random() < 0.5 else gen_history(rng, bbr=True)


def fixed_bbr(tier):
    """the CUBIC boundary histories, plus ProbeRTT with a tiny BDP: a trickle acknowledged slowly,
    then an idle period just beyond the 5 s ProbeRTT interval, so that min(cwnd, probe_rtt_cwnd)
    and bound_cwnd_for_model sit at the 4-datagram floor"""
    out = fixed_cubic(tier)
    for m in (1200, 1500, 9000):
        for gap in (4_999_000, 5_000_001, 10_000_000):
            c = [m]
            for _ in range(4):
                c += [1, m, 1, 0, 0, 2, m, 0, 100_000, 100_000]
            c += [1, m, 2, 0, gap, 2, m, 0, 100_000, 100_000]
            for _ in range(4):
                c += [1, m, 2, 0, 60_000, 2, m, 0, 100_000, 100_000]
            out.append(c)
    return out


def _kinds(cases):
    h = {}
    names = {1: "sent", 2: "ack", 3: "lost", 4: "ecn", 5: "mtu", 6: "discard", 7: "rtt_update"}
    for c in cases:
        for i in range(1, len(c), 5):
            k = names.get(c[i], "other")
            h[k] = h.get(k, 0) + 1
            if c[i] == 3 and c[i + 2]:
                h["persistent"] = h.get("persistent", 0) + 1
    return h


def _states(outs, width, col):
    h = {}
    for o in outs:
        if o.startswith("!"):
            continue
        t = o.split()
        for v in t[col::width]:
            h[v] = h.get(v, 0) + 1
    return h


def corr_with_oracle(name, gen, fixed, nq, nt, width):
    """two-pass correspondence: the implementation runs first; its rows are appended to the case
    (after a -1 separator) as the oracle's answers; the extracted model replays the operations,
    using an answer only at its oracle sites, and must reproduce every row"""
    def chk(ctx, stats):
        from run_check import hexline, shrink
        rng = random.Random((ctx.seed * 7919) ^ int(hashlib.sha256((name + "_corr").encode()).hexdigest()[:8], 16))
        cases = list(fixed(ctx.tier)) + [gen(rng) for _ in range(nq if ctx.tier == "quick" else nt)]
        lines = [hexline(c) for c in cases]
        impl = ctx.impl(name, lines)

        def model_of(ls, io):
            return ctx.model(name, ["%s -1 %s" % (a, b) if not b.startswith("!") else a + " -1" for a, b in zip(ls, io)])
        model = model_of(lines, impl)
        probs = []
        for c, a, b in zip(cases, impl, model):
            if a != b:
                probs.append({"kind": "mismatch", "component": name, "case": c, "impl": a, "model": b})
        if probs:
            p = probs[0]

            def still_bad(cands):
                ls = [hexline(c) for c in cands]
                io = ctx.impl(name, ls)
                return [x != y for x, y in zip(io, model_of(ls, io))]
            try:
                small = shrink(ctx, name, p["case"], still_bad, valid_history)
                io = ctx.impl(name, [hexline(small)])
                p["minimal_case"] = small
                p["minimal_impl"] = io[0]
                p["minimal_model"] = model_of([hexline(small)], io)[0]
            except Exception as ex:
                p["shrink_error"] = str(ex)
        oracle_rows = sum(o.split()[3::width].count("3") for o in impl if not o.startswith("!")) if name == "cubic" else None
        stats.append({"component": name + "_corr", "cases": len(cases), "distinct": len(set(lines)),
                      "distinct_nontrivial": sum(1 for c in set(lines) if " 3 " in c or " 4 " in c),
                      "panics": sum(1 for o in impl if o.startswith("!")),
                      "histogram": {"ops": _kinds(cases), "rows_in_congestion_avoidance": oracle_rows},
                      "samples": [{"case": lines[0][:300], "impl": impl[0][:300]}],
                      "note": "model replay with the implementation's windows as oracle answers; every row compared"})
        return probs[:1]
    return chk


registry.register("C10", {
    "gen": ["C10"],
    "props_file": "props/C10.v",
    "extract_target": "extract/Ex_C10.vo",
    "harness": "h_core",
    "axioms_allowed": [],
    "components": [
        {"name": "cubic", "gen": lambda rng: gen_history(rng), "fixed": fixed_cubic, "quick": 20000, "thorough": 400000,
         "model": False, "valid": valid_history,
         "nontrivial": lambda case, out: any(case[i] in (3, 4) for i in range(1, len(case), 5)) and any(case[i] == 2 for i in range(1, len(case), 5)),
         "histogram": lambda cases, outs: {"ops": _kinds(cases), "state_kinds": _states(outs, 9, 3)}},
        # the same CUBIC rows judged for the recovery allowance (RFC 9002 7.3.2: one packet when entering recovery)
        {"name": "cubic_gate", "gen": gen_gate, "fixed": fixed_cubic, "quick": 8000, "thorough": 150000,
         "model": False, "valid": valid_history,
         "nontrivial": lambda case, out: sum(1 for i in range(1, len(case), 5) if case[i] in (3, 4)) >= 2},
        {"name": "bbr", "gen": gen_bbr, "fixed": fixed_bbr, "quick": 6000, "thorough": 120000,
         "model": False, "valid": valid_history,
         "nontrivial": lambda case, out: any(case[i] in (3, 4) for i in range(1, len(case), 5)) and any(case[i] == 2 for i in range(1, len(case), 5)),
         "histogram": lambda cases, outs: {"ops": _kinds(cases)}},
    ],
    "extra_checks": [corr_with_oracle("cubic", lambda rng: gen_history(rng), fixed_cubic, 20000, 400000, 9),
                     corr_with_oracle("bbr", gen_bbr, fixed_bbr, 6000, 120000, 13)],
    "rule": "cases: boundary families (window floor, recovery-period edges, persistent congestion, MTU changes at 1200/7360/9000, hybrid slow start delay thresholds 4 ms / 16 ms / rtt/8 at +-1 us, BBR ProbeRTT with a tiny BDP around the 5 s interval) + seeded random valid event histories (2..80 events; sizes 0..65535; datagram sizes 1200..9000; RTT 1us..10s; time steps 0..10s; acks aimed at the recovery start +-1us); BBR additionally round-by-round histories through Startup / Drain / ProbeBW / ProbeRTT with loss bursts, ECN, idle and application-limited phases; a case is non-trivial when it contains a congestion signal and an acknowledgement",
    "assumptions": [
        "oracle_ok (CUBIC, monitored): where on_ack reaches congestion_avoidance() the window it produces is at least 2*max_datagram_size; the code only debug_asserts this; the harness runs with debug assertions on (a failure is a panic = violation) and the judge checks the floor on every row",
        "the cubic / Reno-friendly curve (w_cubic, w_est, powi, cbrt, mul_add, Duration<->f32) is the only CUBIC oracle: the model takes the implementation's own window after such a step as the answer and applies the clamps the code applies (min with cwnd + acked/2 and with max(1.5*bytes_in_flight_hi, 2*mds)); everything else, including multiplicative decrease, the f32 rescale of on_mtu_update and hybrid slow start (on_rtt_update), is computed",
        "BBR: bandwidth / min-rtt filters are oracles. After each step the implementation's state kind, filled_pipe, inflight_hi, inflight_lo and window are the oracle's answers; the model accepts them only along transitions the code allows (legal_ack / Up->Down on loss, filled_pipe monotone) and confines the window to what set_cwnd can produce: unchanged (after restore_cwnd) or within [4*mds, min(window + newly acked, bound_cwnd_for_model)]; bytes in flight, recovery state, delivered / lost bytes, the application-limited marker, prior_cwnd and the MTU rescale are computed exactly",
        "saturation (visible hypotheses of the judge_model theorems, generator-side constant): at most 2^30 bytes are sent in a history (the generators emit at most 320 operations of at most 65535 bytes) and the window the model computes for an on_mtu_update is at most 2^31 bytes (CUBIC) / 2^30 bytes (BBR)",
        "f32 arithmetic at the exactly modelled sites (u32->f32, +, /, * by constants and by the datagram size, min/max, comparison, `as u32`) is IEEE-754 round-to-nearest-even at 24 significant bits (round24 / fdivmul in model/Cubic.v); no subnormals or overflow occur for windows >= 2048 and < 2^32",
        "histories are valid: never more bytes acknowledged/lost/discarded than in flight, counter within u32, on_rtt_update only after a packet was sent (the code `expect`s this of its caller; C10_cubic_no_panic_iff_valid shows these are the only ways the model panics); max_datagram_size is a u16; time is monotone; S2N_UNSTABLE_USE_HYSTART_PP is unset",
        "private state of both controllers is read from their public Debug rendering by the harness; the property judgement uses only congestion_window() and bytes_in_flight()",
    ],
    "trusted_base": ["no axioms: Print Assumptions reports 'Closed under the global context' for every C10 theorem (f32 is modelled in exact integer arithmetic, Flocq is not used)",
                     "tools/genfam_C10.py: decomposition of f32 literals into mantissa / exponent (struct.pack)"],
    "explanation": "Coq theorems C10_* over models of cubic.rs (+ hybrid_slow_start threshold) and of the cwnd assignment sites / in-flight counter of bbr.rs, for all event histories and all oracle answers; models tied to the source by generated constants (beta, C, window multipliers, initial-window constants, MIN_PIPE_CWND_PACKETS) and by two-pass differential execution (the implementation's windows are the oracle's answers; every row of discrete state and every exactly modelled window is compared bit for bit); the property judgement (floor, no saturation, in-flight counter, loss never increases, once per recovery period, app-limited freeze, persistent collapse) is applied to every implementation output",
})
