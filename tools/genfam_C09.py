"""Translator family C09: loss-detection / RTT / PTO constants read from the current source."""
import re
from gen_consts import family, Family, read, strip_comments, eval_int, EvalError

LOSS = "quic/s2n-quic-core/src/recovery/loss.rs"
RTT = "quic/s2n-quic-core/src/recovery/rtt_estimator.rs"
PTO = "quic/s2n-quic-core/src/recovery/pto.rs"
CPATH = "quic/s2n-quic-core/src/path/mod.rs"
MGR = "quic/s2n-quic-transport/src/recovery/manager.rs"
SPACE = "quic/s2n-quic-transport/src/space/mod.rs"
TS = "quic/s2n-quic-core/src/time/timestamp.rs"

UNIT = {"secs": 10**9, "millis": 10**6, "micros": 10**3, "nanos": 1}


def _src(rel):
    s = read(rel)
    return strip_comments(s) if s is not None else ""


def _try(fn):
    try:
        return fn()
    except (EvalError, AttributeError, TypeError, ValueError, KeyError):
        return None


def _duration_ns(src, name):
    """`const NAME: Duration = Duration::from_<unit>(<expr>);` in nanoseconds"""
    m = re.search(r"const\s+%s\s*:\s*Duration\s*=\s*Duration::from_(\w+)\(([^;]+)\)\s*;" % name, src)
    return eval_int(m.group(2)) * UNIT[m.group(1)]


@family
def gen_C09():
    f = Family("C09")
    f.const("k_packet_threshold", LOSS, r"const\s+K_PACKET_THRESHOLD\s*:\s*u64\s*=\s*([^;]+);")
    rtt = _src(RTT)
    f.n("k_granularity_ns", _try(lambda: _duration_ns(rtt, "K_GRANULARITY")), RTT)
    f.n("min_rtt_ns", _try(lambda: _duration_ns(rtt, "MIN_RTT")), RTT)
    f.n("default_initial_rtt_ns", _try(lambda: _duration_ns(rtt, "DEFAULT_INITIAL_RTT")), RTT)
    f.const("k_persistent_congestion_threshold", RTT,
            r"const\s+K_PERSISTENT_CONGESTION_THRESHOLD\s*:\s*u64\s*=\s*([^;]+);")
    # loss_time_threshold: `time_threshold += time_threshold / 8;`  (kTimeThreshold = 1 + 1/8)
    f.n("time_threshold_div", _try(lambda: eval_int(re.search(
        r"time_threshold\s*\+=\s*time_threshold\s*/\s*(\w+)\s*;", rtt).group(1))), RTT)
    # update_rtt: weighted_average(self.rttvar, rttvar_sample, 4) / (self.smoothed_rtt, adjusted_rtt, 8)
    f.n("rttvar_weight", _try(lambda: eval_int(re.search(
        r"self\.rttvar\s*=\s*weighted_average\(\s*self\.rttvar\s*,\s*rttvar_sample\s*,\s*(\w+)\s*\)", rtt).group(1))), RTT)
    f.n("srtt_weight", _try(lambda: eval_int(re.search(
        r"self\.smoothed_rtt\s*=\s*weighted_average\(\s*self\.smoothed_rtt\s*,\s*adjusted_rtt\s*,\s*(\w+)\s*\)", rtt).group(1))), RTT)
    # rttvar_4x: Duration::from_micros(4 * self.rttvar.as_micros() as u64)
    f.n("rttvar_mult", _try(lambda: eval_int(re.search(
        r"Duration::from_micros\(\s*(\w+)\s*\*\s*self\.rttvar\.as_micros\(\)", rtt).group(1))), RTT)
    # rttvar initialisation: `initial_rtt / 2`, `self.latest_rtt / 2`
    f.n("rttvar_init_div", _try(lambda: eval_int(re.search(
        r"self\.rttvar\s*=\s*self\.latest_rtt\s*/\s*(\w+)\s*;", rtt).group(1))), RTT)
    f.n("rttvar_new_div", _try(lambda: eval_int(re.search(
        r"let\s+rttvar\s*=\s*initial_rtt\s*/\s*(\w+)\s*;", rtt).group(1))), RTT)
    # pto.rs: `let transmission_count = if packets_in_flight { 2 } else { 1 };`
    pto = _src(PTO)
    m = re.search(r"transmission_count\s*=\s*if\s+packets_in_flight\s*\{\s*(\w+)\s*\}\s*else\s*\{\s*(\w+)\s*\}", pto)
    f.n("pto_tx_in_flight", _try(lambda: eval_int(m.group(1))), PTO)
    f.n("pto_tx_idle", _try(lambda: eval_int(m.group(2))), PTO)
    f.const("initial_pto_backoff", CPATH, r"const\s+INITIAL_PTO_BACKOFF\s*:\s*u32\s*=\s*([^;]+);")
    # manager.rs on_timeout: `(context.active_path().pto_backoff * 2).min(max_pto_backoff)`
    mgr = _src(MGR)
    f.n("pto_backoff_mult", _try(lambda: eval_int(re.search(
        r"\(\s*context\.active_path\(\)\.pto_backoff\s*\*\s*(\w+)\s*\)\s*\.min\(\s*max_pto_backoff\s*\)", mgr).group(1))), MGR)
    # space/mod.rs on_timeout: `path.pto_backoff.checked_mul(2)` is the cap handed to every space
    sp = _src(SPACE)
    f.n("pto_backoff_cap_mult", _try(lambda: eval_int(re.search(
        r"max_backoff\s*=\s*path\.pto_backoff\.checked_mul\(\s*(\w+)\s*\)", sp).group(1))), SPACE)
    # timestamp.rs has_elapsed: `now += K_GRANULARITY.as_micros() as u64; self.0.get() < now`
    ts = _src(TS)
    ok = re.search(r"now\s*\+=\s*K_GRANULARITY\.as_micros\(\)\s*as\s*u64\s*;\s*self\.0\.get\(\)\s*<\s*now", ts)
    f.n("has_elapsed_slack_is_granularity", 1 if ok else None, TS)
    return f
