"""C09 -- loss detection sound; in-flight bookkeeping exact; RTT/PTO bounds."""
import registry

VMAX = (1 << 62) - 1
DMAX = 1 << 40          # durations (ns) stay below 2^40 (18 min): no u64 overflow anywhere
TMAX = 1 << 50          # timestamps (us)
MS = 1000000


# ---- a small mirror of the estimator, used only to aim the generators at the thresholds -------------
def _wavg(a, b, w):
    return (a // w) * (w - 1) + b // w


def _rtt_new(init):
    i = max(init, 1000)
    return {"l": i, "m": i, "s": i, "v": i // 2, "first": False}


def _rtt_feed(r, s):
    l = max(s, 1000)
    if not r["first"]:
        return {"l": l, "m": l, "s": l, "v": l // 2, "first": True}
    mn = min(r["m"], l)
    if mn < l:
        return {"l": l, "m": mn, "s": _wavg(r["s"], l, 8), "v": _wavg(r["v"], abs(r["s"] - l), 4), "first": True}
    return {"l": l, "m": mn, "s": r["s"], "v": r["v"], "first": True}


def _thr(r):
    m = max(r["s"], r["l"])
    return max(m + m // 8, MS)


def _dur(rng):
    r = rng.random()
    if r < 0.25:
        return rng.choice([1000, 1001, 999999, 888888, 888889, 888890, 1000000, 1000001, 333 * MS, 25 * MS, 100 * MS])
    if r < 0.5:
        return rng.randrange(1000, 3 * MS)
    if r < 0.85:
        return rng.randrange(1000, 500 * MS)
    return rng.randrange(1000, DMAX)


def gen_loss(rng):
    init = _dur(rng)
    ss = [(_dur(rng) if rng.random() < 0.6 else 0) for _ in range(3)]
    if rng.random() < 0.1:
        ss[rng.randrange(3)] = rng.choice([1, 500, 999])      # below MIN_RTT: clamped
    r = _rtt_new(init)
    for s in ss:
        if s:
            r = _rtt_feed(r, s)
    direct = 0
    if rng.random() < 0.3:
        direct = rng.choice([1, 999, 1000, 1001, MS, MS + 1, MS + 500, MS + 999, _dur(rng)])
    thr = direct or _thr(r)
    sent = rng.choice([1, 2, 1000, rng.randrange(1, 1 << 30), rng.randrange(1, 1 << 44)])
    tu = thr // 1000
    q = rng.random()
    if q < 0.55:
        now = sent + tu + rng.choice([-1001, -1000, -999, -2, -1, 0, 1, 2, 999, 1000, 1001])
    elif q < 0.75:
        now = sent + rng.randrange(0, 2 * tu + 2)
    elif q < 0.85:
        now = sent - rng.randrange(0, 5000)
    else:
        now = rng.randrange(1, 1 << 45)
    now = max(1, now)
    pn = rng.choice([0, 1, 7, rng.randrange(1 << 20), rng.randrange(VMAX - 10)])
    dist = rng.choice([1, 1, 2, 2, 2, 3, 3, 4, 5, rng.randrange(1, 1000)])
    largest = min(VMAX, pn + dist)
    if largest <= pn:
        pn = largest - 1
    return [init, ss[0], ss[1], ss[2], sent, pn, largest, now, direct]


def fixed_loss(tier):
    out = []
    for init in (1000, 100000, 888888, 888889, 888890, MS, 8 * MS, 100 * MS, 333 * MS):
        r = _rtt_new(init)
        tu = _thr(r) // 1000
        for dist in (1, 2, 3, 4):
            for d in (-1001, -1000, -999, -1, 0, 1, 1000):
                for sent in (1, 5000000):
                    now = sent + tu + d
                    if now >= 1:
                        out.append([init, 0, 0, 0, sent, 10, 10 + dist, now, 0])
    for thr in (1, 999, 1000, 1001, 1999, 2000, MS - 1, MS, MS + 1, MS + 999, 5 * MS + 500):
        for d in (-1001, -1000, -999, -1, 0, 1, 2):
            for dist in (2, 3):
                sent = 7000000
                out.append([333 * MS, 0, 0, 0, sent, 3, 3 + dist, sent + thr // 1000 + d, thr])
    # smoothed <> latest
    out.append([333 * MS, 100 * MS, 10 * MS, 0, 1000, 5, 7, 1000 + 112500, 0])
    out.append([333 * MS, 10 * MS, 100 * MS, 0, 1000, 5, 7, 1000 + 112500, 0])
    return out


def valid_loss(c):
    if len(c) != 9 or any(v < 0 for v in c):
        return False
    init, s1, s2, s3, sent, pn, largest, now, direct = c
    return (1000 <= init < DMAX and all(s < DMAX for s in (s1, s2, s3, direct)) and 1 <= sent < TMAX
            and 1 <= now < TMAX and pn < largest <= VMAX)


def classify_loss(p):
    """class of a judge failure of component loss: declared lost by the time threshold alone while the
    packet's age is still below the threshold, but by less than one timer granularity (1 ms)"""
    try:
        c = p.get("minimal_case", p["case"])
        o = p.get("minimal_impl", p["impl"])
        from run_check import parse_hexline
        o = parse_hexline(o)
        init, s1, s2, s3, sent, pn, largest, now, direct = c
        sm, la, thr, code, _ = o
        if code == 1 and largest - pn < 3 and now < sent + thr // 1000 < now + 1000:
            return "loss_time_threshold_short_by_granularity"
    except Exception:
        pass
    return None


# ---- rtt ------------------------------------------------------------------------------------------
def gen_rtt(rng):
    init = _dur(rng)
    n = rng.choice([1, 2, 3, 5, 8, 15, 40])
    base = _dur(rng)
    ops = []
    for _ in range(n):
        bo = rng.choice([1, 1, 2, 4, 8, 64, 1 << 10, 1 << 19, rng.randrange(1, 1 << 20), 0])
        sp = rng.choice([0, 1, 2, 2])
        q = rng.random()
        if q < 0.75:
            r = rng.random()
            if r < 0.5:
                s = max(0, base + rng.randrange(-base // 4 - 1, base // 4 + 1))
            elif r < 0.7:
                s = base + rng.choice([-8, -7, -1, 0, 1, 7, 8, 15])
            elif r < 0.8:
                s = rng.choice([0, 1, 999, 1000, 1001])
            else:
                s = _dur(rng)
            s = max(0, min(DMAX - 1, s))
            a = rng.choice([0, 0, 1000, 25 * MS, rng.randrange(0, 2 * s + 2), rng.randrange(0, 60 * MS), s, s - 1 if s else 0])
            a = max(0, min(DMAX - 1, a))
            ops += [1, a, s, rng.choice([0, 1]), rng.choice([0, 1, 2, 2]), bo, sp, 0]
        elif q < 0.87:
            ops += [2, rng.choice([0, 1, 25, 100, (1 << 14) - 1, rng.randrange(0, 1 << 14)]), 0, 0, 0, bo, sp, 0]
        elif q < 0.97:
            ops += [3, 0, 0, 0, 0, bo, sp, 0]
        else:
            ops += [0, 0, 0, 0, 0, bo, sp, 0]
    return [init] + ops


def fixed_rtt(tier):
    out = []
    # the truncation witness: smoothed undershoots the smallest sample
    out.append([1007] + [1, 0, 1007, 0, 2, 1, 2, 0] * 12)
    out.append([1015] + [1, 0, 1015, 1, 2, 1, 2, 0] * 40)
    out.append([333 * MS, 1, 10 * MS, 0, 0, 2, 1, 2, 0])
    # ack delay handling around min_rtt + ack_delay < latest
    for ad in (0, 999, 1000, 1001, 50 * MS):
        for conf in (0, 1):
            for sp in (0, 1, 2):
                out.append([333 * MS, 2, 25, 0, 0, 0, 1, 2, 0, 1, 0, 100 * MS, 0, 2, 1, sp, 0,
                            1, ad, 100 * MS + 1000, conf, sp, 2, sp, 0,
                            3, 0, 0, 0, 0, 1, 2, 0, 1, ad, 300 * MS, conf, sp, 4, sp, 0])
    return out


def valid_rtt(c):
    if not c or (len(c) - 1) % 8 != 0 or any(v < 0 for v in c):
        return False
    if not (1000 <= c[0] < DMAX):
        return False
    for i in range(1, len(c), 8):
        o = c[i:i + 8]
        if o[0] == 1 and not (o[1] < DMAX and o[2] < DMAX and o[4] <= 2):
            return False
        if o[0] == 2 and o[1] >= (1 << 14):
            return False
        if o[5] >= (1 << 20) or o[6] > 2:
            return False
    return True


# ---- pto ------------------------------------------------------------------------------------------
def gen_pto(rng):
    n = rng.choice([1, 2, 4, 8, 16, 40])
    now = rng.choice([1, 1000, rng.randrange(1, 1 << 40)])
    exp = None
    ops = []
    for _ in range(n):
        q = rng.random()
        if q < 0.35:
            if exp is not None and rng.random() < 0.7:
                t = exp + rng.choice([-1001, -1000, -999, -1, 0, 1, 5000])
            else:
                t = now + rng.randrange(0, 5000000)
            t = max(1, t)
            now = max(now, t)
            ops += [1, rng.choice([0, 1]), t, 0]
        elif q < 0.6:
            base = max(1, now + rng.choice([0, 0, -5, 1000]))
            per = rng.choice([MS, MS + 1, 999 * MS, _dur(rng), rng.randrange(0, 3 * MS)])
            exp = (base * 1000 + per) // 1000
            ops += [2, base, per, 0]
        elif q < 0.7:
            ops += [3, 0, 0, 0]
        elif q < 0.92:
            ops += [4, 0, 0, 0]
        else:
            ops += [5, 0, 0, 0]
    return ops


def fixed_pto(tier):
    import itertools
    out = []
    alpha = [[1, 0, 2000, 0], [1, 1, 2000, 0], [1, 1, 1000, 0], [1, 1, 1001, 0], [2, 1, 2000000, 0], [2, 1, 2001000, 0],
             [3, 0, 0, 0], [4, 0, 0, 0], [5, 0, 0, 0]]
    L = 4 if tier == "quick" else 5
    for n in range(1, L + 1):
        for t in itertools.product(alpha, repeat=n):
            out.append([v for o in t for v in o])
    return out


def valid_pto(c):
    if len(c) % 4 != 0 or any(v < 0 for v in c):
        return False
    for i in range(0, len(c), 4):
        o = c[i:i + 4]
        if o[0] == 1 and not (1 <= o[2] < TMAX):
            return False
        if o[0] == 2 and not (1 <= o[1] < TMAX and o[2] < DMAX):
            return False
    return True


# ---- persistent congestion calculator ---------------------------------------------------------------
def gen_pc(rng):
    has_first = 1 if rng.random() < 0.9 else 0
    first = rng.choice([1, 1, 1000, rng.randrange(1, 200000)])
    cpath = rng.choice([0, 0, 1])
    n = rng.choice([1, 2, 3, 5, 8, 14, 25])
    out = [has_first, first, cpath]
    for k in range(n):
        gap = rng.choice([1, 1, 1, 1, 1, 2, 3]) if k else rng.choice([0, 1, 7, 100])
        dt = rng.choice([0, 1, 1000, 50000, 400000, rng.randrange(0, 2000000)])
        ae = rng.choice([1, 1, 1, 0])
        path = cpath if rng.random() < 0.85 else 1 - cpath
        out += [gap, dt, ae, path]
    return out


def fixed_pc(tier):
    import itertools
    out = []
    # all sequences of up to 4 (quick) / 5 packets over (gap in {1,2}) x (ae) x (same path?) with 1 s spacing
    alpha = [(g, ae, p) for g in (1, 2) for ae in (0, 1) for p in (0, 1)]
    L = 4 if tier == "quick" else 5
    for n in range(1, L + 1):
        for t in itertools.product(alpha, repeat=n):
            c = [1, 500000, 0]
            for (g, ae, p) in t:
                c += [g, 1000000, ae, p]
            out.append(c)
    out.append([0, 0, 0, 1, 1000000, 1, 0, 1, 1000000, 1, 0])
    out.append([1, 5000000, 0, 1, 1000000, 1, 0, 1, 1000000, 1, 0, 1, 3000000, 1, 0, 1, 1000000, 1, 0])
    return out


def valid_pc(c):
    if len(c) < 3 or (len(c) - 3) % 4 != 0 or any(v < 0 for v in c):
        return False
    if c[1] >= TMAX or c[2] > 1:
        return False
    for i in range(3, len(c), 4):
        o = c[i:i + 4]
        if o[0] > 1000 or o[1] > (1 << 36) or o[3] > 1:
            return False
    return True


# ---- manager --------------------------------------------------------------------------------------
def gen_manager(rng):
    space = rng.choice([0, 1, 2, 2, 2])
    conf = rng.choice([0, 1, 1]) if space == 2 else rng.choice([0, 0, 1])
    client = rng.random() < 0.35
    if client and rng.random() < 0.5:
        space = 0                                  # Retry matters in the Initial space
    conf |= 2 if client else 0
    hdr = [space, conf, rng.choice([0, 25, 25, 100]), rng.choice([1, 1000, rng.randrange(1, 1 << 32)])]
    n = rng.choice([2, 4, 8, 16, 30, 60])
    ops = []
    last = None
    scale = rng.choice([1, 1, 10, 100])          # time scale of the run
    for _ in range(n):
        q = rng.random()
        if last is None or q < 0.5:
            burst = rng.choice([1, 1, 2, 3, 6])
            for _ in range(burst):
                gap = rng.choice([1, 1, 1, 1, 2, 3])
                last = (gap - 1 if gap >= 1 else 0) if last is None else last + max(gap, 1)
                byt = rng.choice([0, 1, 50, 1200, 1200, 1500, rng.randrange(1, 1501)])
                ae = 0 if byt == 0 and rng.random() < 0.9 else rng.choice([0, 1, 1, 1])
                path = rng.choice([0, 0, 1]) if space == 2 else rng.choice([0, 0, 0, 1])   # forced to 0 by the driver when single-path
                ops += [1, gap, byt, ae, rng.choice([0, 1, 10, 100, 1000, rng.randrange(0, 20000)]) * scale // 10, path, 0, 0]
            if rng.random() < 0.85:
                ops += [2, rng.choice([0, 0, 1, 50]), 0, 0, 0, 0, 0, 0]
        elif q < 0.85:
            r = rng.random()
            if r < 0.7:
                lg = max(0, last - rng.choice([0, 0, 0, 1, 2, 3, 4, 5, 8]))
            elif r < 0.9:
                lg = rng.randrange(0, last + 1)
            else:
                lg = last + rng.choice([0, 1, 5])        # sometimes beyond what was sent: rejected
            len1 = rng.choice([0, 0, 0, 1, 2, 3, 10])
            gap2 = rng.choice([0, 0, 1, 2])
            len2 = rng.choice([0, 0, 1, 2, 4])
            dt = rng.choice([0, 100, 1000, 10000, 40000, 112000, 333000, 375000, 400000, rng.randrange(0, 500000)]) * scale // 10
            ops += [rng.choice([3, 3, 4]), dt, lg, len1, gap2, len2, rng.choice([0, 0, 1000, 25000, rng.randrange(0, 60000)]), 0]
        elif q < 0.97:
            dt = rng.choice([0, 999, 1000, 10000, 41000, 42000, 375000, 1000000, 1100000, 2500000, rng.randrange(0, 3000000)]) * scale // 10
            ops += [5, dt, 0, 0, 0, 0, 0, 0]
        elif client and rng.random() < 0.6:
            ops += [rng.choice([7, 8, 8]), 0, 0, 0, 0, 0, 0, 0]
        elif space != 2:
            ops += [6, 0, 0, 0, 0, 0, 0, 0]
            break
        else:
            ops += [rng.choice([6, 7, 8]), 0, 0, 0, 0, 0, 0, 0]    # ignored / no-ops here
    if space != 2 and rng.random() < 0.5 and (not ops or ops[-8] != 6):
        ops += [6, 0, 0, 0, 0, 0, 0, 0]
    return hdr + ops


def fixed_manager(tier):
    out = []
    S = lambda gap, b, ae, dt, path=0: [1, gap, b, ae, dt, path, 0, 0]
    B = [2, 0, 0, 0, 0, 0, 0, 0]
    A = lambda dt, lg, l1=0, g2=0, l2=0, ad=0, p=0: [3 + p, dt, lg, l1, g2, l2, ad, 0]
    T = lambda dt: [5, dt, 0, 0, 0, 0, 0, 0]
    D = [6, 0, 0, 0, 0, 0, 0, 0]
    for space in (0, 1, 2):
        h = [space, 1, 25, 1000]
        # packet threshold: 5 packets, ack the 4th / 5th only
        out.append(h + S(1, 1200, 1, 0) + S(1, 1200, 1, 10) + S(1, 1200, 1, 10) + S(1, 1200, 1, 10) + S(1, 1200, 1, 10) + B + A(100000, 3) + A(1000, 4) + T(400000) + T(2000000))
        # time threshold via the loss timer
        out.append(h + S(1, 1200, 1, 0) + S(1, 1200, 1, 10) + B + A(100000, 1) + T(1000) + T(11500) + T(1000) + T(1500000))
        # PTO expiries: backoff doubles, nothing is lost
        out.append(h + S(1, 1200, 1, 0) + B + T(998000) + T(2000) + T(2000000) + T(4000000) + A(10, 0) + T(100000000))
        # duplicate / overlapping / reordered ACKs
        out.append(h + S(1, 100, 1, 0) + S(1, 200, 1, 5) + S(1, 300, 0, 5) + S(2, 400, 1, 5) + B + A(50000, 1, 1) + A(10, 1, 1) + A(10, 4, 4) + A(10, 0) + A(5, 9))
    out.append([1, 0, 25, 1000] + S(1, 1200, 1, 0) + S(1, 0, 0, 10) + S(1, 700, 1, 10) + B + A(50000, 1) + D)
    out.append([0, 0, 25, 1000] + S(1, 1200, 1, 0) + S(1, 1200, 1, 10) + D)
    # client: PTO armed without packets in flight until the peer validated; Retry discards everything
    for space in (0, 1):
        h = [space, 2, 25, 1000]
        out.append(h + S(1, 1200, 1, 0) + S(1, 1200, 1, 10) + B + [7, 0, 0, 0, 0, 0, 0, 0] + S(1, 1200, 1, 10) + B + A(50000, 2) + T(400000) + [8, 0, 0, 0, 0, 0, 0, 0] + T(400000) + S(1, 300, 1, 5) + B + A(60000, 3) + D)
        out.append(h + S(1, 1200, 1, 0) + B + A(50000, 0) + T(2000000) + T(4000000) + [8, 0, 0, 0, 0, 0, 0, 0] + S(1, 10, 1, 1) + B + A(50000, 1) + T(5000000) + [7, 0, 0, 0, 0, 0, 0, 0] + [7, 0, 0, 0, 0, 0, 0, 0])
    out.append([2, 3, 25, 1000] + S(1, 1200, 1, 0, 1) + S(1, 100, 1, 10, 0) + B + A(50000, 1, 0, 0, 0, 0, 1) + [6, 0, 0, 0, 0, 0, 0, 0] + T(500000))
    # two paths
    out.append([2, 1, 25, 1000] + S(1, 1200, 1, 0, 0) + S(1, 1000, 1, 10, 1) + S(1, 800, 1, 10, 0) + S(1, 600, 1, 10, 1) + S(1, 400, 1, 10, 1) + B
               + A(80000, 4, 0, 0, 0, 0, 1) + A(100, 2, 0, 0, 0, 0, 0) + T(500000) + T(3000000))
    return out


def valid_manager(c):
    if len(c) < 4 or (len(c) - 4) % 8 != 0 or any(v < 0 for v in c):
        return False
    space = c[0]
    if space > 2 or c[1] > 3 or c[2] >= (1 << 14) or not (1 <= c[3] < (1 << 40)):
        return False
    t = 0
    for i in range(4, len(c), 8):
        o = c[i:i + 8]
        if o[0] == 1:
            if o[2] > 1500 or o[1] > 1000 or o[4] > (1 << 32) or o[5] > 1:
                return False
            t += o[4]
        elif o[0] in (2, 3, 4, 5):
            if o[1] > (1 << 34):
                return False
            t += o[1]
            if o[0] in (3, 4):
                if o[2] > (1 << 40) or o[3] > 1000 or o[4] > 1000 or o[5] > 1000 or o[6] > (1 << 30):
                    return False
        elif o[0] == 6:
            if space != 2 and i + 8 != len(c):
                return False
    return t < (1 << 38)


def classify_manager(p):
    """a failure of the manager's judgement belongs to the recorded class exactly when the same output is
    accepted by the judgement that allows the age of a lost packet one timer granularity (1000 us) of slack
    (Recovery.judge_tol: nothing else differs from Recovery.judge)"""
    try:
        import subprocess, os
        from run_check import hexline, BUILD
        c = p.get("minimal_case", p["case"])
        o = p.get("minimal_impl", p["impl"])
        if o.startswith("!"):
            return None
        exe = os.path.join(BUILD, "ocaml", "C09", "model_C09")
        r = subprocess.run([exe, "judge", "manager_tol"], input=("%s | %s\n" % (hexline(c), o)).encode(),
                           stdout=subprocess.PIPE, timeout=60)
        if r.stdout.decode().strip() == "1":
            return "loss_time_threshold_short_by_granularity"
    except Exception:
        pass
    return None


def classify(p):
    if p.get("component") == "loss":
        return classify_loss(p)
    if p.get("component") == "manager":
        return classify_manager(p)
    return None


registry.register("C09", {
    "gen": ["C09"],
    "props_file": "props/C09.v",
    "extract_target": "extract/Ex_C09.vo",
    "harness": "h_transport",
    "axioms_allowed": [],
    "classify": classify,
    "components": [
        {"name": "loss", "gen": gen_loss, "fixed": fixed_loss, "quick": 40000, "thorough": 1000000,
         "valid": valid_loss,
         "nontrivial": lambda case, out: len(out) == 5 and case[6] - case[5] < 3,
         "histogram": lambda cases, outs: {"lost": sum(1 for o in outs if o.split()[3:4] == ["1"]),
                                           "not_lost": sum(1 for o in outs if o.split()[3:4] == ["0"]),
                                           "by_time_only": sum(1 for c, o in zip(cases, outs) if o.split()[3:4] == ["1"] and c[6] - c[5] < 3)}},
        {"name": "rtt", "gen": gen_rtt, "fixed": fixed_rtt, "quick": 15000, "thorough": 300000,
         "valid": valid_rtt,
         "nontrivial": lambda case, out: sum(1 for i in range(1, len(case), 8) if case[i] == 1) >= 2,
         "histogram": lambda cases, outs: {"ops": {str(k): sum(c[1::8].count(k) for c in cases) for k in (0, 1, 2, 3)}}},
        {"name": "pto", "gen": gen_pto, "fixed": fixed_pto, "quick": 20000, "thorough": 400000,
         "valid": valid_pto,
         "nontrivial": lambda case, out: 1 in out[0::4],
         "histogram": lambda cases, outs: {"expiries": sum(o.split()[0::4].count("1") for o in outs)}},
        {"name": "pc", "gen": gen_pc, "fixed": fixed_pc, "quick": 15000, "thorough": 300000,
         "valid": valid_pc,
         "nontrivial": lambda case, out: any(v > 0 for v in out),
         "histogram": lambda cases, outs: {"positive": sum(1 for o in outs if any(t != "0" for t in o.split()))}},
        {"name": "manager", "gen": gen_manager, "fixed": fixed_manager, "quick": 8000, "thorough": 100000,
         "valid": valid_manager,
         "nontrivial": lambda case, out: len(case) > 4 + 24 and any(case[i] in (3, 4) for i in range(4, len(case), 8)),
         "histogram": lambda cases, outs: {"ops": {str(k): sum(c[4::8].count(k) for c in cases) for k in (1, 2, 3, 4, 5, 6)}}},
    ],
    "rule": "loss: estimator built from 0-3 samples, send/now placed at the time threshold +-{0,1,2,999,1000,1001} us and packet distance in {1..5, random}; "
            "rtt: sample sequences clustered around a base RTT with +-8 ns offsets (truncation), ack delays around min_rtt+ack_delay<latest, max_ack_delay, persistent congestion resets, backoff 0..2^20; "
            "pto: all op sequences of length <= 4 (quick) / 5 (thorough) over a 9-op alphabet plus random sequences with timeouts at expiration +-{0,1,999,1000,1001} us. "
            "manager: recovery::Manager on the server (two validated paths in ApplicationData, one otherwise) or the client (one path, peer validation pending until signalled, Retry), bursts of 1-6 packets (sizes 0..1500, ack-eliciting or not), ACK frames of one or two ranges around recent packet numbers (stale, duplicate, overlapping, beyond-sent), timeouts at 0..3 s, space discard, time scales 0.1x-10x; "
            "pc: persistent_congestion::Calculator fed with lost packets (gaps 1-3, spacing 0-2 s, ack-eliciting or not, foreign-path packets interleaved), all sequences of <= 4/5 packets over an 8-letter alphabet; non-trivial when a positive duration is reported; "
            "A loss case is non-trivial when the packet threshold alone does not decide it; an rtt case when it has at least two samples; a pto case when the timer expires at least once; a manager case when it has at least 3 ops and an ACK frame",
    "assumptions": [
        "durations below 2^40 ns, timestamps below 2^50 us, backoff below 2^20: the u64 microsecond product in pto_period does not overflow (the harness is built with overflow checks and would panic)",
        "`Duration::as_nanos() as u64` truncations are not modelled (durations above 584 years)",
        "manager: every call the manager makes on the congestion controller (on_packet_sent / on_ack / on_packet_lost / on_packet_discarded, with all arguments) is recorded in order and compared with the model; the judge demands the op time in on_packet_sent.time_sent, on_ack.ack_receive_time and on_packet_lost.timestamp; on_mtu_update and on_rtt_update are not recorded; every Context::on_packet_ack(timestamp, range) call is recorded in the same log and must lie inside one range of the ACK frame being processed (on_new_packet_ack hulls and on_packet_loss packet numbers are the other two observable lists)",
        "manager: the driver (verif hook) completes an open transmission burst before it hands an ACK frame, a timeout or a discard to the manager, rejects ACK frames whose largest acknowledged exceeds the last packet number sent (as the packet space does), keeps both paths validated and not amplification limited, ECN off, no MTU probes, PTO jitter 0; Initial/Handshake spaces and the client use one path (the driver forces path 0), a discard in ApplicationData and a Retry on a server are ignored",
        "manager: the judgement proved to accept every run of the model is the one with one timer granularity of slack on a lost packet's age (Recovery.judge_tol, all histories incl. discard and Retry); the property judgement proper (Recovery.judge) differs from it only in that comparison and is proved to reject the model on the recorded finding's input",
    ],
    "trusted_base": ["no axioms: Print Assumptions reports 'Closed under the global context' for every C09 theorem"],
    "explanation": "Coq theorems C09_* over models of loss.rs / rtt_estimator.rs / pto.rs / timestamp.rs; models tied to the source by generated constants and by differential execution of the extracted models against the real code",
})
