"""Translator family C13: constants of the connection id registries read from the current source."""
import re
from gen_consts import family, Family, read, strip_comments, eval_int, EvalError

LOCAL = "quic/s2n-quic-transport/src/connection/local_id_registry.rs"
PEER = "quic/s2n-quic-transport/src/connection/peer_id_registry.rs"
IDRS = "quic/s2n-quic-core/src/connection/id.rs"
RTT = "quic/s2n-quic-core/src/recovery/rtt_estimator.rs"


def _try(fn):
    try:
        return fn()
    except (EvalError, AttributeError, TypeError, ValueError):
        return None


def _secs(rel, name):
    """const NAME: Duration = Duration::from_secs(<expr>);  -> seconds"""
    src = read(rel)
    src = strip_comments(src) if src is not None else ""
    return _try(lambda: eval_int(re.search(
        r"const\s+%s\s*:\s*Duration\s*=\s*Duration::from_secs\(([^;]+)\)\s*;" % name, src).group(1)))


@family
def gen_C13():
    f = Family("C13")
    f.const("max_active_connection_id_limit", LOCAL,
            r"const\s+MAX_ACTIVE_CONNECTION_ID_LIMIT\s*:\s*u64\s*=\s*([^;]+);")
    f.n("expiration_buffer_s", _secs(LOCAL, "EXPIRATION_BUFFER"), LOCAL)
    f.const("rtt_multiplier", LOCAL, r"const\s+RTT_MULTIPLIER\s*:\s*u32\s*=\s*([^;]+);")
    # the limit the registry starts with until the peer's transport parameters are known
    f.const("initial_active_connection_id_limit", LOCAL,
            r"retire_prior_to\s*:\s*0\s*,\s*active_connection_id_limit\s*:\s*([^,]+),")
    act = f.const("peer_active_connection_id_limit", PEER,
                  r"pub\s+const\s+ACTIVE_CONNECTION_ID_LIMIT\s*:\s*u8\s*=\s*([^;]+);")
    f.const("peer_retired_connection_id_limit", PEER,
            r"const\s+RETIRED_CONNECTION_ID_LIMIT\s*:\s*u8\s*=\s*([^;]+);",
            env={"ACTIVE_CONNECTION_ID_LIMIT": act} if act is not None else None)
    f.n("min_lifetime_s", _secs(IDRS, "MIN_LIFETIME"), IDRS)
    f.n("max_lifetime_s", _secs(IDRS, "MAX_LIFETIME"), IDRS)
    src = read(RTT)
    src = strip_comments(src) if src is not None else ""
    f.n("k_granularity_ms", _try(lambda: eval_int(re.search(
        r"const\s+K_GRANULARITY\s*:\s*Duration\s*=\s*Duration::from_millis\(([^;]+)\)\s*;", src).group(1))), RTT)
    return f
