"""C16 (range-set part) -- SlidingWindow, IntervalSet, ack::Ranges, packet number Map equal their reference sets."""
import itertools
import registry

VMAX = (1 << 62) - 1


# ------------------------------------------------------------------------------------------------
# sw: SlidingWindow.  case = pairs [op, pn]; op 0 insert_with_evicted, 1 check, 2 insert
# ------------------------------------------------------------------------------------------------
EDGE = [0, 1, 2, 3, 63, 64, 65, 126, 127, 128, 129, 130, 131, 255, 256, 257]


def gen_sw(rng):
    n = rng.choice([1, 2, 3, 5, 8, 13, 21, 34])
    ops = []
    mx = None
    seen = []
    r0 = rng.random()
    for _ in range(n):
        r = rng.random()
        if mx is None or r < 0.04:
            v = rng.choice([0, 1, 127, 128, 129, 130, 200, 1000, rng.randrange(1 << 12), rng.randrange(1 << 62),
                            VMAX, VMAX - 1, VMAX - 128, VMAX - 129, VMAX - 130])
        elif r < 0.45:
            v = mx - rng.choice(EDGE + [rng.randrange(0, 132), rng.randrange(0, 300)])
        elif r < 0.58 and seen:
            v = rng.choice(seen)
        elif r < 0.92:
            v = mx + rng.choice(EDGE + [rng.randrange(1, 132), rng.randrange(1, 132), rng.randrange(1, 400)])
        else:
            v = mx + rng.randrange(1 << rng.choice([8, 16, 40, 61]))
        v = max(0, min(VMAX, v))
        op = rng.choice([0, 0, 0, 1, 2]) if r0 < 0.8 else rng.choice([0, 1, 2])
        ops += [op, v]
        seen.append(v)
        mx = v if mx is None else max(mx, v)
    return ops


def fixed_sw(tier):
    out = []
    for base in (0, 1, 127, 128, 129, 130, 300, 1000, VMAX - 1, VMAX):
        for d in (1, 2, 127, 128, 129, 130, 131):
            if base - d >= 0:
                out.append([0, base, 0, base - d, 0, base - d, 1, base - d])
                out.append([0, base - d, 0, base, 1, base - d, 0, base - d])
                for e in (1, 2, 127, 128, 129):
                    if base - d - e >= 0:
                        out.append([0, base - d - e, 0, base - d, 0, base, 1, base - d - e, 0, base - d - e])
    # exhaustive small: all sequences of inserts over a small alphabet, followed by eviction-reporting inserts
    alpha = [0, 1, 2, 128, 129, 130, 131, 258]
    L = 4 if tier == "quick" else 6
    for n in range(1, L + 1):
        for t in itertools.product(alpha, repeat=n):
            c = []
            for v in t:
                c += [0, v]
            out.append(c)
    alpha2 = [(0, 0), (0, 1), (0, 129), (0, 130), (1, 0), (1, 1), (1, 130), (2, 2), (2, 259)]
    L2 = 3 if tier == "quick" else 5
    for n in range(1, L2 + 1):
        for t in itertools.product(alpha2, repeat=n):
            out.append([x for p in t for x in p])
    return out


def valid_sw(c):
    return len(c) % 2 == 0 and all(0 <= v <= VMAX for v in c[1::2]) and all(0 <= v <= 2 for v in c[0::2])


def hist_sw(cases, outs):
    ops = {0: 0, 1: 0, 2: 0}
    for c in cases:
        for o in c[0::2]:
            ops[o] = ops.get(o, 0) + 1
    return {"ops": ops, "cases_with_evictions": sum(1 for c, o in zip(cases, outs) if _sw_has_eviction(c, o))}


def _sw_walk(case, out):
    """yields (op, code, evicted list) per op by parsing the output format"""
    i = 0
    for k in range(0, len(case) - 1, 2):
        op = case[k]
        code = out[i]; i += 1
        ev = []
        if op == 0 and code == 0:
            n = out[i]; i += 1
            ev = out[i:i + n]; i += n
        nd = out[i]; i += 1 + nd
        i += 1
        yield op, code, ev


def _sw_has_eviction(case, outline):
    try:
        from run_check import parse_hexline
        out = parse_hexline(outline)
        return any(ev for _, _, ev in _sw_walk(case, out))
    except Exception:
        return False


def nontrivial_sw(case, out):
    codes = set(code for _, code, _ in _sw_walk(case, out))
    return len(codes) >= 2



# ------------------------------------------------------------------------------------------------
# iset: IntervalSet<u64>.  case = triples [op, a, b] (op table in coq/model/IntervalSet.v)
# ------------------------------------------------------------------------------------------------
UMAX = (1 << 64) - 1


def _iv(rng, base, span):
    """an interval near `base`: short, adjacent-friendly"""
    a = base + rng.randrange(span)
    ln = rng.choice([0, 0, 0, 1, 1, 2, 3, 5, rng.randrange(span)])
    return a, a + ln


def gen_iset(rng):
    ops = []
    mode = rng.random()
    span = rng.choice([8, 12, 20, 40, 80])
    if mode < 0.15:
        base = UMAX - span - rng.choice([0, 1, 2, 10])       # element max edge
    elif mode < 0.25:
        base = rng.choice([(1 << 62) - 10, (1 << 63) - 5, (1 << 32) - 4])
    else:
        base = rng.choice([0, 0, 0, 1, 5, 100])
    if rng.random() < 0.3:
        # many separate intervals first, so that index_for takes the binary search path (>= 16 intervals)
        k = rng.choice([15, 16, 17, 20, 33])
        step = rng.choice([2, 3, 4])
        span = max(span, k * step + 4)
        if base + span > UMAX:
            base = UMAX - span
        idx = list(range(k))
        if rng.random() < 0.5:
            rng.shuffle(idx)
        for i in idx:
            ops += [0, base + i * step, base + i * step + rng.choice([0, 0, step - 2])]
    if rng.random() < 0.35:
        ops += [5, rng.choice([1, 2, 3, 4, 5, 16, 17]), 0]
    n = rng.choice([1, 2, 3, 5, 8, 13, 21])
    for _ in range(n):
        r = rng.random()
        a, b = _iv(rng, base, span)
        a = min(a, UMAX); b = min(b, UMAX)
        if r < 0.35:
            ops += [0, a, b]
        elif r < 0.60:
            ops += [1, a, b]
        elif r < 0.68:
            ops += [2, a, 0]
        elif r < 0.72:
            ops += [3, 0, 0]
        elif r < 0.76:
            ops += [4, a, b]
        elif r < 0.80:
            ops += [5, rng.choice([0, 1, 2, 3, 4, 5, 6]), 0]
        elif r < 0.90:
            ops += [6, a, b]
        elif r < 0.98:
            ops += [7, rng.choice([0, 1, 2, 0, 1, 2, 3]), 0]
        elif r < 0.99:
            ops += [rng.choice([0, 1]), min(b + 1, UMAX), a]     # invalid interval (unless b+1 <= a)
        else:
            ops += [rng.choice([0, 1]), rng.randrange(0, UMAX), UMAX]
    return ops


def fixed_iset(tier):
    out = []
    # limit +-1 around insert and around a splitting remove
    for lim in (1, 2, 3, 4):
        for k in (lim - 1, lim, lim + 1):
            c = []
            for i in range(max(k, 0)):
                c += [0, 10 * i, 10 * i + 5]
            out.append(c + [5, lim, 0, 0, 100, 101, 0, 6, 8, 1, 2, 3])
            out.append(c + [5, lim, 0, 1, 2, 3, 1, 0, 5, 0, 100, 100])
    # element max
    out.append([0, UMAX, UMAX, 0, UMAX - 1, UMAX - 1, 1, UMAX, UMAX, 0, 0, UMAX, 1, 5, UMAX - 5, 2, UMAX, 0])
    out.append([0, 0, UMAX, 1, UMAX, UMAX, 1, 0, 0, 2, 0, 0, 2, UMAX, 0, 3, 0, 0])
    # exhaustive small: all sequences of <= L ops over insert/remove of intervals from a small alphabet
    offs = [0, 1, 2, 3, 5, 8]
    lens = [1, 2, 3]
    alpha = [(op, o, o + l - 1) for op in (0, 1) for o in offs for l in lens]
    L = 2 if tier == "quick" else 3
    for n in range(1, L + 1):
        for t in itertools.product(alpha, repeat=n):
            out.append([x for p in t for x in p])
    if tier == "thorough":
        alpha2 = [(op, o, o + l - 1) for op in (0, 1) for o in (0, 2, 3, 5) for l in (1, 2)]
        for t in itertools.product(alpha2, repeat=4):
            out.append([5, 2, 0] + [x for p in t for x in p])
    return out


def valid_iset(c):
    if len(c) % 3 != 0:
        return False
    for i in range(0, len(c), 3):
        op, a, b = c[i:i + 3]
        if not (0 <= op <= 7 and 0 <= a <= UMAX and 0 <= b <= UMAX):
            return False
        if op == 5 and a > 1000:
            return False
    return True


def hist_iset(cases, outs):
    ops = {}
    for c in cases:
        for o in c[0::3]:
            ops[o] = ops.get(o, 0) + 1
    return {"ops": ops, "cases_reaching_16_intervals": sum(1 for o in outs if _max_len(o) >= 16)}


def _max_len(outline):
    # cheap: the interval_len values are not separable without parsing per op; use token count as proxy
    return outline.count(" ") // 40


def nontrivial_iset(case, out):
    return len(case) >= 6 and len(set(case[0::3])) >= 2


# ------------------------------------------------------------------------------------------------
# ack: ack::Ranges.  case = limit, then triples [op, a, b]
# ------------------------------------------------------------------------------------------------
def gen_ack(rng):
    lim = rng.choice([1, 2, 3, 3, 4, 5, 10, 10, 11])
    ops = [lim]
    base = rng.choice([0, 0, 3, 50, 1000, VMAX - 60])
    span = rng.choice([10, 20, 40, 50])
    # fill to limit-1 / limit / limit+1 separate ranges first in some cases
    if rng.random() < 0.5:
        k = lim + rng.choice([-1, 0, 1])
        for i in range(max(k, 0)):
            x = base + 3 * i + rng.choice([0, 0, 20])
            ops += [1, min(x, VMAX), 0]
    n = rng.choice([1, 2, 3, 5, 8, 13, 21, 30])
    for _ in range(n):
        r = rng.random()
        a = min(base + rng.randrange(span), VMAX)
        b = min(a + rng.choice([0, 0, 1, 2, 3, 7]), VMAX)
        if r < 0.40:
            ops += [1, a, 0]
        elif r < 0.65:
            ops += [0, a, b]
        elif r < 0.75:
            ops += [2, a, 0]
        elif r < 0.90:
            ops += [3, a, b]
        elif r < 0.97:
            ops += [4, 0, 0]
        else:
            ops += [0, b, a]
    return ops


def fixed_ack(tier):
    out = []
    for lim in (1, 2, 3, 10):
        c = [lim]
        for i in range(lim):
            c += [1, 10 + 2 * i, 0]
        out.append(c + [1, 100, 0, 1, 5, 0, 1, 11, 0, 0, 0, 3, 2, 10, 0])   # above all / below all / adjacent / below
        out.append(c + [1, 9, 0, 1, 8, 0, 1, 0, 0, 1, 200, 0])
        out.append(c + [0, 10 + 2 * lim + 1, 10 + 2 * lim + 5, 0, 0, 8, 3, 12, 12, 3, 10, 12])
    out.append([3, 1, VMAX, 0, 1, VMAX - 2, 0, 1, VMAX - 4, 0, 1, VMAX - 6, 0, 1, VMAX - 1, 0, 2, VMAX, 0])
    alpha = [(1, v, 0) for v in (0, 1, 2, 3, 5, 8, 10)] + [(4, 0, 0), (3, 2, 5)]
    L = 3 if tier == "quick" else 5
    for lim in (1, 2):
        for n in range(1, L + 1):
            for t in itertools.product(alpha, repeat=n):
                out.append([lim] + [x for p in t for x in p])
    return out


def valid_ack(c):
    if len(c) % 3 != 1 or not (1 <= c[0] <= 1000):
        return False
    return all(0 <= v <= VMAX for v in c[1:]) and all(0 <= v <= 4 for v in c[1::3])


# ------------------------------------------------------------------------------------------------
# pnmap: packet number Map<u64>.  case = triples [op, a, b]
# ------------------------------------------------------------------------------------------------
def gen_pnmap(rng):
    ops = []
    base = rng.choice([0, 0, 1, 7, 1000, VMAX - 5000])
    cur = base
    n = rng.choice([1, 2, 3, 5, 8, 13, 21, 34, 55])
    val = 1
    for _ in range(n):
        r = rng.random()
        if r < 0.45:
            cur = min(cur + rng.choice([1, 1, 1, 1, 2, 3, 7, 8, 9, 15, 16, 17, 31, 33, rng.randrange(1, 70)]), VMAX)
            ops += [0, cur, val]; val += 1
        elif r < 0.55:
            ops += [1, max(0, cur - rng.choice([0, 0, 1, 2, 5, 9, 20])) if rng.random() < 0.7 else min(cur + rng.randrange(1, 20), VMAX), val]; val += 1
        elif r < 0.65:
            ops += [2, max(0, cur - rng.randrange(0, 24)), 0]
        elif r < 0.80:
            ops += [3, max(0, cur - rng.choice([0, 0, 1, 2, 3, rng.randrange(0, 24), rng.randrange(0, 70)])), 0]
        elif r < 0.97:
            a = max(0, cur - rng.randrange(0, 40))
            ops += [4, a, min(a + rng.choice([0, 1, 2, 5, 8, 20, 100]), VMAX)]
        elif r < 0.985:
            ops += [5, 0, 0]
        else:
            ops += [0, max(0, cur - 1), val]      # precondition violation: skipped by harness and model alike
    return ops


def fixed_pnmap(tier):
    out = []
    for cap in (7, 8, 9, 15, 16, 17):
        c = []
        for i in range(cap):
            c += [0, 10 + i, 100 + i]
        out.append(c + [3, 10, 0, 3, 10 + cap - 1, 0, 0, 10 + cap, 7, 4, 12, 14, 4, 0, 11])
        out.append(c + [4, 10, 12, 0, 10 + cap + 3, 9, 0, 10 + cap + 8, 9, 4, 10 + cap, 10 + cap + 100, 4, 0, VMAX])
        out.append(c + [4, 12, 10 + cap - 1, 0, 10 + cap + 6, 1, 3, 11, 0, 3, 10, 0, 0, 10 + cap + 7, 2])
    alpha = [(0, 1, 5), (0, 2, 6), (0, 3, 7), (0, 9, 8), (0, 10, 9), (1, 2, 1), (3, 1, 0), (3, 2, 0), (3, 9, 0), (4, 1, 2), (4, 2, 9), (4, 0, 20), (2, 2, 0)]
    L = 3 if tier == "quick" else 4
    for n in range(1, L + 1):
        for t in itertools.product(alpha, repeat=n):
            out.append([x for p in t for x in p])
    return out


def valid_pnmap(c):
    return len(c) % 3 == 0 and all(0 <= v <= VMAX for v in c) and all(0 <= v <= 5 for v in c[0::3])


def hist_ops3(off):
    def h(cases, outs):
        ops = {}
        for c in cases:
            for o in c[off::3]:
                ops[o] = ops.get(o, 0) + 1
        return {"ops": ops}
    return h

registry.register("C16", {
    "gen": ["C16"],
    "props_file": "props/C16.v",
    "extract_target": "extract/Ex_C16.vo",
    "harness": "h_core",
    "axioms_allowed": [],
    "components": [
        {"name": "sw", "gen": gen_sw, "fixed": fixed_sw, "quick": 12000, "thorough": 600000,
         "valid": valid_sw, "nontrivial": nontrivial_sw, "histogram": hist_sw},
        {"name": "iset", "gen": gen_iset, "fixed": fixed_iset, "quick": 20000, "thorough": 600000,
         "valid": valid_iset, "nontrivial": nontrivial_iset, "histogram": hist_iset},
        {"name": "ack", "gen": gen_ack, "fixed": fixed_ack, "quick": 15000, "thorough": 400000,
         "valid": valid_ack, "nontrivial": lambda case, out: len(case) >= 7, "histogram": hist_ops3(1)},
        {"name": "pnmap", "gen": gen_pnmap, "fixed": fixed_pnmap, "quick": 10000, "thorough": 400000,
         "valid": valid_pnmap, "nontrivial": lambda case, out: len(case) >= 6 and len(set(case[0::3])) >= 2,
         "histogram": hist_ops3(0)},
    ],
    "rule": "cases: corpus + boundary families (window edges 127..131, limit-1/limit/limit+1, element max 2^64-1 / 2^62-1, "
            "ring capacities 7..17) + exhaustive short sequences over small alphabets (offsets {0,1,2,3,5,8} x lengths {1,2,3} for "
            "iset; labelled exhaustive-small, support not proof) + seeded random op sequences clustered at the structure's edges "
            "(adjacent intervals x/x+1, >= 16 intervals for the binary-search path); every op is followed by a full content dump; "
            "sw: non-trivial when at least two different result codes occur; iset/pnmap: at least two ops of different kinds; "
            "ack: at least two ops",
    "assumptions": [
        "packet numbers handed to the structures are VarInts (< 2^62), as the PacketNumber type guarantees",
        "packet number Map: insert is called with increasing packet numbers and insert_or_update not below the start "
        "(the documented preconditions, debug-asserted in the source); the harness skips calls that violate them",
        "proved: SlidingWindow completely (all histories); IntervalSet insert/insert_front from slot 0 (linear path); the "
        "binary-search start index, remove, contains, union/difference, ack::Ranges and the packet number Map are modelled at "
        "control-flow level and checked differentially + judged against the reference set, not proved; intersection::apply is "
        "judged against the reference only",
    ],
    "trusted_base": ["no axioms: Print Assumptions reports 'Closed under the global context' for every C16 theorem"],
    "explanation": "Coq theorems C16_* over Gallina models of sliding_window.rs / interval_set / ack::Ranges / packet number Map: "
                   "each model refines a plain reference set for all operation sequences; models tied to the source by generated "
                   "constants and by differential execution with full-content dumps after every operation",
})
