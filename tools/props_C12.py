"""C12 -- what an endpoint sends on a stream and at close is self-consistent."""
import registry
import sendlib

KNOWN_CLASS = "open_notify_stream_frame_after_reset"


def classify(p):
    """the one known class: the only frames the judgement rejects are empty, FIN-less STREAM frames at
    offset 0 for a stream whose RESET_STREAM was already sent AND for which such a frame had been sent
    before (the stream controller's open notification, *re*transmitted after loss); with those frames exempted the Python port of the monitor accepts"""
    if p.get("component") != "sm":
        return None
    from run_check import parse_hexline
    try:
        out = parse_hexline(p["impl"])
        ok_strict, _ = sendlib.monitor12(p["case"], out, False)
        ok, exempted = sendlib.monitor12(p["case"], out, True)
    except Exception:
        return None
    return KNOWN_CLASS if (not ok_strict and ok and exempted >= 1) else None


registry.register("C12", {
    "gen": ["C12"],
    "props_file": "props/C12.v",
    "extract_target": "extract/Ex_C12.vo",
    "harness": "h_transport",
    "axioms_allowed": [],
    "classify": classify,
    "components": [
        {"name": "cs", "gen": sendlib.gen_cs, "fixed": sendlib.fixed_cs, "quick": 6000, "thorough": 200000,
         "valid": sendlib.valid, "nontrivial": lambda case, out: sendlib.cs_copies(case, out) >= 2},
        {"name": "st", "gen": sendlib.gen_st, "fixed": sendlib.fixed_st, "quick": 8000, "thorough": 300000,
         "valid": sendlib.valid, "nontrivial": sendlib.nontrivial_st},
        {"name": "sm", "gen": sendlib.gen_sm, "fixed": sendlib.fixed_sm, "quick": 6000, "thorough": 200000, "model": False,
         "valid": sendlib.valid, "nontrivial": sendlib.nontrivial, "histogram": sendlib.histogram},
        {"name": "ss", "gen": sendlib.gen_ss, "fixed": sendlib.fixed_ss, "quick": 12000, "thorough": 400000,
         "valid": sendlib.valid, "nontrivial": sendlib.nontrivial, "histogram": sendlib.histogram},
    ],
    "rule": 'cases: corpus + boundary families (windows 0/1/2 with credit raised by one; stream and connection limit L with writes of L-1, L, L+1; loss and retransmission at six different capacities followed by FIN; two streams competing for a 50 byte connection window with out-of-order MAX_DATA; reset after FIN; STOP_SENDING before any data; close limiter doubling up to the u8 saturation; stream limits 0/1/2 raised by one and lowered again) + seeded random operation sequences (1-45 ops over 1-4 streams sharing one connection flow controller: push 0..4095 position-keyed bytes, finish, reset, STOP_SENDING, transmit one packet of capacity 0..65535 under all four constraints and modes, ack/loss of packet number ranges, MAX_STREAM_DATA / MAX_DATA / MAX_STREAMS incl. non-increasing values). A stream case is non-trivial when at least one STREAM frame was emitted, a stream-opening case when at least one stream was opened and one open was refused, a close case when at least two close packets were sent',
    "assumptions": [
        "the DataSender is modelled at the level of its interval sets; the bytes a buffer view returns are assumed to be the bytes pushed at that offset - exactly what the judgement checks on the implementation's frames",
        "IntervalSet behaves as the canonical set of integers (sorted, disjoint, non-adjacent intervals) - the subject of C16",
        "the drivers never call on_timeout of the *_BLOCKED PeriodicSyncs, so their timers never fire (timer-less model); CloseSender time is in whole milliseconds",
        "packet capacity < 65536 (UDP); case integers are in [0, 2^62]",
    ],
    "trusted_base": ["no axioms: Print Assumptions reports 'Closed under the global context' for every C12 theorem", "hook drivers verif_hooks/{data_sender,streams,close_sender}.rs (recording WriteContext re-decodes every written frame from its wire encoding)"],
    "explanation": "Coq theorems C12_* over models of SendStream/DataSender/StreamFlowController (interval-set level), stream id allocation and CloseSender; the extracted judgements (slices of written bytes, final size stable and respected, quiet after RESET_STREAM, ids strictly increasing per type, close packets only and at most 1 + datagrams received) are applied to every output of the real code and the models are compared with the real code line by line",
})
