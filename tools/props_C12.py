"""C12 -- what an endpoint sends on a stream and at close is self-consistent."""
import registry
import sendlib

registry.register("C12", {
    "gen": ["C12"],
    "props_file": "props/C12.v",
    "extract_target": "extract/Ex_C12.vo",
    "harness": "h_transport",
    "axioms_allowed": [],
    "components": [
        {"name": "cs", "gen": sendlib.gen_cs, "fixed": sendlib.fixed_cs, "quick": 6000, "thorough": 200000,
         "valid": sendlib.valid, "nontrivial": lambda case, out: sum(1 for i in range(len(out) - 1) if out[i] == 3 and out[i + 1] == 1) >= 2},
        {"name": "st", "gen": sendlib.gen_st, "fixed": sendlib.fixed_st, "quick": 8000, "thorough": 300000,
         "valid": sendlib.valid, "nontrivial": sendlib.nontrivial_st},
        {"name": "ss", "gen": sendlib.gen_ss, "fixed": sendlib.fixed_ss, "quick": 12000, "thorough": 400000,
         "valid": sendlib.valid, "nontrivial": sendlib.nontrivial, "histogram": sendlib.histogram},
    ],
    "rule": "TODO",
    "assumptions": [],
    "trusted_base": [],
    "explanation": "TODO",
})
