"""gen_C05: the varint table rows (call_table! in varint/table.rs) and codec constants."""
import re
from gen_consts import family, Family, read, strip_comments, eval_int, EvalError


@family
def gen_C05():
    f = Family("C05")
    f.const("max_varint_value", "quic/s2n-quic-core/src/varint/mod.rs",
            r"pub\s+const\s+MAX_VARINT_VALUE\s*:\s*u64\s*=\s*([^;]+);")
    # first-byte masks of packet headers (RFC 9000 17.2 / 17.3.1), each from the file that uses it
    f.const("reserved_mask_short", "quic/s2n-quic-core/src/packet/short.rs",
            r"const\s+RESERVED_BITS_MASK\s*:\s*u8\s*=\s*([^;]+);")
    f.const("spin_mask_short", "quic/s2n-quic-core/src/packet/short.rs",
            r"const\s+SPIN_BIT_MASK\s*:\s*u8\s*=\s*([^;]+);")
    f.const("reserved_mask_long", "quic/s2n-quic-core/src/packet/long.rs",
            r"const\s+RESERVED_BITS_MASK\s*:\s*u8\s*=\s*([^;]+);")
    f.const("key_phase_mask", "quic/s2n-quic-core/src/packet/key_phase.rs",
            r"const\s+KEY_PHASE_MASK\s*:\s*u8\s*=\s*([^;]+);")
    rel = "quic/s2n-quic-core/src/varint/table.rs"
    src = read(rel)
    rows = None
    if src is not None:
        m = re.search(r"macro_rules!\s*call_table\s*\{(.*?)\n\}\n", strip_comments(src), re.S)
        if m:
            try:
                rows = [tuple(eval_int(x.replace("0b", "0b")) if not x.strip().startswith("0b") else int(x.strip()[2:], 2)
                              for x in r)
                        for r in re.findall(r"\(\s*(0b[01]+)\s*,\s*([\d_]+)\s*,\s*([\d_]+)\s*,\s*([\d_]+)\s*\)\s*;", m.group(1))]
            except EvalError:
                rows = None
    if rows:
        f.values["varint_rows"] = [list(r) for r in rows]
        f.raw("(* rows of call_table! in %s, in source order: (two_bit, len, usable_bits, max_value) *)" % rel)
        f.raw("Definition varint_rows : list (N * N * N * N) := [%s]%%N." %
              "; ".join("(%d, %d, %d, %d)" % r for r in rows))
    else:
        f.missing.append("varint_rows")
        f.raw("(* MISSING varint_rows : could not be read from %s *)" % rel)
    return f
