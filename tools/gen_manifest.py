#!/usr/bin/env python3
"""Writes MANIFEST.json from tools/manifest_data.py (kept next to the registry so both stay in step)."""
import json, os, sys
ROOT = os.path.dirname(os.path.dirname(os.path.abspath(__file__)))
sys.path.insert(0, os.path.join(ROOT, "tools"))
import manifest_data as md
import subprocess

def hook_commits():
    """commits in /repo whose message starts with `verif hook` (oldest first)"""
    try:
        out = subprocess.run(["git", "-C", "/repo", "log", "--reverse", "--format=%h %s"], stdout=subprocess.PIPE, timeout=60).stdout.decode()
        return [l.split()[0] for l in out.splitlines() if l.split(" ", 1)[1].startswith("verif hook")]
    except Exception:
        return md.HOOK_COMMITS

checks = []
for pid in sorted(md.CLAIMED):
    c = md.CLAIMED[pid]
    checks.append({
        "property_id": pid,
        "quick_cmd": "./check %s --tier quick" % pid,
        "thorough_cmd": "./check %s --tier thorough" % pid,
        "evidence_file": "evidence/%s.json" % pid,
        "replay_cmd_template": "./check %s --replay {path}" % pid,
        "engine": "coq+correspondence",
        "level_claimed": {"category": "proof", "text": c["text"], "design_ref": c["design_ref"]},
        "level_note": c["note"],
        "technique": c["technique"],
    })
m = {
    "version": 1,
    "setup_cmd": "./check --setup",
    "hooks": {
        "guard": "aws_s2n_quic_verif",
        "enable": "RUSTFLAGS=\"--cfg aws_s2n_quic_verif\" (set in /verif/harness/.cargo/config.toml; the harness crates depend on /repo's crates by path)",
        "baseline_off_cmd": "cd /repo && cargo nextest run --workspace --no-fail-fast --tool-config-file pb:/w/lib/nextest.toml --profile pb --test-threads 8 --offline",
        "source_commits": hook_commits() or md.HOOK_COMMITS,
        "add_only": True,
    },
    "engines": [{
        "name": "coq+correspondence", "path": "check",
        "serves_properties": sorted(md.CLAIMED),
        "kind_free_text": "Coq 8.16 theorems over hand-written Gallina models (coq/), tied to /repo on every run by a constant/table translator (tools/gen_consts.py) and by differential execution of the extracted models against the real Rust (harness/), with a Coq-extracted property judgement applied to the implementation's outputs",
    }],
    "checks": checks,
    "notes": md.NOTES,
    "not_applicable": [{"property_id": k, "reason": v} for k, v in sorted(md.NOT_APPLICABLE.items())],
}
json.dump(m, open(os.path.join(ROOT, "MANIFEST.json"), "w"), indent=1)
print("MANIFEST.json:", len(checks), "claimed,", len(m["not_applicable"]), "not claimed")
