HOOK_COMMITS = ["fefc95e", "25db118", "9a0560e", "6159944"]
NOTES = ("Every check regenerates coq/gen/*.v from /repo, re-checks the property's Coq closure with full .vo builds, "
         "rebuilds the harness crate from /repo's working tree with --cfg aws_s2n_quic_verif and runs the extracted model "
         "against the implementation. KNOWN_FINDINGS.txt lists recorded findings; it is never written at run time.")

PENDING = "check not built yet in this revision of /verif (claimed only once its theorem and its tie to the code run end to end)"

CLAIMED = {
    "C19": {
        "text": "Coq theorems for every sequence of key ids / sender operations: acceptance iff (not reserved max, not accepted before, above or less than 896 below the highest accepted) and strictly increasing issued ids; the models are tied to receiver.rs/sender.rs by the generated WINDOW constant and by differential execution (incl. exhaustive short sequences over window-edge ids); concurrency enters through the linearisation assumption stated in level_note",
        "design_ref": "5.19",
        "note": "trusted: Coq kernel, translator, extraction (ExtrOcamlBasic), OCaml driver, Rust harness + hook H3; assumed: Mutex / atomic RMW linearise (every concurrent execution equals some operation sequence); no axioms (Print Assumptions: closed)",
        "technique": "Coq proof (inductive invariant over fold of operations) + model/implementation correspondence",
    },
}

CLAIMED["C11"] = {
    "text": "Coq theorems over the model of Path's amplification accounting for every sequence of datagrams received/sent (ledger sent + allowance <= 3 x received + forgiven overshoot, exact while it fits u32; the literal 3x bound proved outside the recorded known class and refuted inside it - finding F2, reported as KNOWN-FINDING), of stateless-reset sizing for every trigger/tag length and every random choice (strictly smaller than the trigger; none exactly when impossible) and of the version-negotiation decision (only Initial of an unsupported version in a datagram >= 1200 bytes, never for VN); tied to the source by generated constants (multiplier 3, 1200, reset sizing constants, supported versions) and differential execution through hook H1",
    "design_ref": "5.11",
    "note": "trusted: Coq kernel, translator, extraction, OCaml driver, Rust harness + hook H1 (verif_hooks/{common,amplification,misc}.rs); hypothesis: gen_range_biased returns a value in range; not covered by a component: client Initial padding and whether every transmission site consults the path's constraint (only the Path API and the endpoint-level reply dispatchers are driven); no axioms",
    "technique": "Coq proof (inductive ledger invariant over reachable path states; case analysis) + model/implementation correspondence + known-finding classifier proved to accept every model run",
}

def _c(text, ref, note, technique):
    return {"text": text, "design_ref": ref, "note": note, "technique": technique}

_TB = "trusted: Coq kernel, translator (tools/gen_consts.py + genfam), extraction (ExtrOcamlBasic only), OCaml driver, Rust harness"

CLAIMED["C01"] = _c(
    "Coq theorems: (i) composition - whatever list of sender frames (each a slice of the written bytes) the network hands to the receiver, the bytes read are a prefix of the bytes written and equal them at a clean FIN (C01_stream_exact_delivery, all byte types, all frame lists); (ii) the reassembly spec is first-write-wins and its pops are the ordered contiguous prefix for every op sequence and chunking; (iii) the slot-level model of Reassembler rejects exactly the writes that contradict the final size / exceed the max offset and leaves the state unchanged, agrees with the spec on cursors and acceptance for every op sequence (refinement of popped content is _partial: carried by differential execution with full-content checksums plus the spec judgement). Tied to reassembler.rs by generated allocation constants and by differential execution of the slot model against the real Reassembler after every op (counters, checksums, slot layout)",
    "5.1, 12",
    _TB + " h_core/C01; hypotheses of the composition theorem are the component results of C12 (frames are slices), C06 (ideal AEAD rejects damaged datagrams) and the Reassembler refinement; BytesMut identity/unsafe and the read APIs other than pop/pop_watermarked are not modelled; no axioms",
    "Coq proof (induction over frame lists / op sequences; spec refinement, partly partial) + model/implementation correspondence + spec judgement")

CLAIMED["C04"] = _c(
    "Coq theorems: the frame-type x packet-number-space permission matrix generated from space/{mod,initial,handshake,application}.rs equals RFC 9000 Table 3 (finite table, vm_compute), rejections use PROTOCOL_VIOLATION, error codes match RFC 20.1; for the receive side of a stream, on_data returns an error exactly when the RFC predicate (flow-control limits, final size changed/exceeded/below received, offset overflow) is violated, with code FLOW_CONTROL_ERROR / FINAL_SIZE_ERROR, and for all op sequences every advertised MAX_DATA / MAX_STREAM_DATA <= consumed + window and the buffered span <= window. Tied to the code by the matrix translator and by differential execution of the FlowRecv model against the real DefaultStreamManager through hook H1 (recv.rs); an independent RFC judgement is applied to the implementation's outputs. Finding F-a (RESET_STREAM final size below received data accepted) is reported as KNOWN-FINDING; the stream-count / direction checks of the stream manager are not covered",
    "5.4, 12",
    _TB + " h_transport/C04 + hook recv.rs; judge_run for the rx component is not proved (model/judge agreement rests on execution); closed-receive-half leniency and the consumed+window enforcement zone are accepted either way (observations O-b, O-c); no axioms",
    "Coq proof (finite table by vm_compute; invariant by induction over op sequences) + translator + model/implementation correspondence + RFC judgement")

CLAIMED["C08"] = _c(
    "Coq theorems for all packet numbers below 2^62: the code's decode_packet_number equals RFC 9000 A.3 (clamped at 2^62-1), truncation is defined iff 2(pn-la) < 2^32 and picks the shortest sufficient length, and every expansion base L >= largest_acked with pn inside the window of L+1 reconstructs pn (in-order corollary without window hypothesis); TxPacketNumbers hands out strictly increasing numbers, skipped numbers are never sent; for every AckManager configuration and op sequence every emitted ACK range lies inside the set of processed packet numbers and out-of-order / CE packets activate transmission in the same step. Tied to the code by generated constants and differential execution (pn in core; TxPacketNumbers and AckManager through hook H1 ack_manager.rs); the ack-delay deadline is judged on implementation outputs but not proved (no theorem ack_deadline)",
    "5.8, 12",
    _TB + " h_transport/C08 + hook ack_manager.rs; the receiver's decode base is deliberately not required to be monotone (observation O4); ack::Ranges is modelled by its abstract value (internals under C16); no axioms",
    "Coq proof (arithmetic over N with lia; invariants by induction) + model/implementation correspondence + property judgement")

CLAIMED["C10"] = _c(
    "Coq theorems over models of CubicCongestionController and of the BBR window assignment sites for every event sequence: CUBIC window >= 2*mds (under the single monitored oracle assumption for the congestion-avoidance curve), a loss/ECN signal never increases it and leaves it unchanged inside a recovery period, an ack while application-limited changes nothing, persistent congestion gives exactly 2*mds, bytes_in_flight = sent - acked - lost - discarded within u32; BBR window >= 4*mds at each assignment site for arbitrary model values; f32 arithmetic of the multiplicative decrease is modelled exactly by round-to-nearest-even on 24-bit mantissas (no Flocq, no axioms); RFC constants (0.7, 0.4, 2*mds, 4*mds, initial window) pinned by generated constants. Tied to the code by two-pass differential execution through the public CongestionController trait and a judgement of every implementation row",
    "5.10, 12",
    _TB + " h_core/C10; oracles: the cubic/Reno curve in congestion_avoidance and the f32 rescale in on_mtu_update (implementation values fed back and clamped); the pacer, on_rtt_update and BBR's bandwidth model are not modelled (BBR model takes the implementation's window as oracle inside the proved envelope); a halved BBR set_cwnd clamp was not reached by generated histories (covered only by the theorem over the modelled code)",
    "Coq proof (invariants by induction over event sequences; exact f32 rounding model) + model/implementation correspondence + property judgement")

CLAIMED["C13"] = _c(
    "Coq theorems over models of LocalIdRegistry and PeerIdRegistry: in every reachable registry the number of active ids <= the limit in force <= the peer's limit, sequence numbers strictly increase and ids are pairwise distinct, every emitted NEW_CONNECTION_ID names a registered unretired id with its own sequence number/token and the current retire_prior_to, every RETIRE_CONNECTION_ID names an issued sequence number whose id is not the DCID in use, and a received NEW_CONNECTION_ID is refused exactly under the RFC 19.15 conditions; rpt <= seq is refuted on the faithful model and the real code (non-monotone lifetimes; KNOWN-FINDING). Tied to the code by generated constants and differential execution of both registries plus the mapper through hook H1 (cids.rs); routing of every unretired id is judged on implementation outputs (all-histories routing invariant and the general judge_run are not proved)",
    "5.13, 12",
    _TB + " h_transport/C13 + hook cids.rs; PathManager/ConnectionImpl glue is re-created in the harness; no axioms",
    "Coq proof (invariants by induction over registry operations, partly partial) + model/implementation correspondence + property judgement")

CLAIMED["C14"] = _c(
    "Coq theorems over the model of the transport-parameter decoder: generated ids/bounds/defaults are the RFC 9000 18.2 values; the decode loop equals the RFC entry grammar followed by a fold; a block is accepted iff the independent RFC table (7.4/18.2, three-valued where the RFC is silent) accepts it - proved for blocks without preferred_address / dc-version entries and outside the two recorded deviation classes (_partial), refuted inside them (KNOWN-FINDINGs ade_nonminimal, rscid_short); every rejection maps to TRANSPORT_PARAMETER_ERROR; every field of an accepted block is the declared value or the RFC default; unknown parameters are ignored. Two defects were repaired by fix: commits (max_ack_delay = 2^14, zero-length CID in preferred_address). Tied to the code by the parameter-table translator and differential execution of Client/ServerTransportParameters decoding incl. derived limits; the RFC judgement is applied to implementation outputs",
    "5.14, 12",
    _TB + " h_core/C14; connection-id authentication of session_context.rs is modelled and proved on the model only (no correspondence); preferred_address and dc-version codecs are tested, not proved against the RFC rule; no axioms",
    "Coq proof (grammar/fold equivalence, table case analysis) + translator + model/implementation correspondence + RFC judgement")

CLAIMED["C15"] = _c(
    "Coq theorems over the model of KeySet/limited::Key (after the two fix: commits) for all limits, windows and op sequences: no generation seals more packets than its confidentiality limit, an expired key refuses (AeadLimitReached, state unchanged), needs_update fires a window before the limit, reaching the integrity limit yields AEAD_LIMIT_REACHED, the generations used for successive packet numbers never decrease (unconditional), the active/other slot structure invariant; RFC 9001 6.6 limits pinned by generated constants; mutual decryptability of two endpoints is _partial (two stated hypotheses on reordering delay and update spacing). Tied to the code by differential execution of one and of two communicating real KeySets with a generation-tagged key type through real short-header packets; defects F3 and F4 were found by the check and repaired",
    "5.15, 12",
    _TB + " h_core/C15; ideal AEAD (decrypt succeeds iff generations match); application.rs glue only read by the translator; no axioms",
    "Coq proof (invariants by induction over op sequences) + model/implementation correspondence + property judgement")

CLAIMED["C16"] = _c(
    "Coq theorems: SlidingWindow refines the plain set of accepted packet numbers for every op history (accept iff unseen and within 128 of the edge; Duplicate/TooOld exactly otherwise; evicted set exact; model run = spec run); the reference interval-set insert/remove mean plain set insert/remove and keep the list well formed; IntervalSet::insert_front and insert (below the binary-search threshold) equal the reference on every well-formed set and over every history (_partial: binary-search start, remove, contains, set operations, ack::Ranges and the packet-number Map are control-flow models checked differentially and judged against the reference, not proved); the Reassembler half is C01. Tied to the code by generated constants (128/129, limits, capacities) and differential execution on the public APIs with full content dumps after every op incl. exhaustive short sequences",
    "5.16, 12",
    _TB + " h_core/C16 (and h_core/C01 for the Reassembler); no axioms",
    "Coq proof (refinement to set specs by induction, partly partial) + model/implementation correspondence + reference-set judgement")

CLAIMED["C02"] = _c(
    "PARTIAL (the async executor / waker runtime is not modelled). Coq theorems for all operation histories: the retransmission state machines IncrementalValueSync / OnceSync / PeriodicSync (carriers of MAX_*, *_BLOCKED, RESET_STREAM, STOP_SENDING, HANDSHAKE_DONE) have no reachable quiescent state with a pending undelivered value - it is in flight, asks for transmission or (PeriodicSync) holds an armed timer; loss, ack, transmit opportunity and timer expiry each make progress; the idle deadline arithmetic (effective timeout = min of the advertised non-zero values raised to at least 3 x PTO, reset on each processed packet and once on the first ack-eliciting send afterwards, expiry closes, a blackhole moves the deadline at most once); the PTO/loss-timer decision (armed whenever required; exactly four cancel conditions; _partial: decision function, not manager histories). Tied to the code by differential execution of the real sync components through hook H1 (sync.rs), of MaxIdleTimeout/Timer arithmetic, by generated constants and translator shape checks of the four idle-timer statements in connection_impl.rs; end-to-end stall/timeout behaviour of running connections is judged by the verified e2e_stream monitor (two liveness findings are reported as KNOWN-FINDINGs)",
    "5.2, 12",
    _TB + " h_transport/C02 + hook sync.rs (+ h_e2e for the e2e component); NOT covered: wakeup_queue, event_loop, stream read/write wakers, lost wake-ups under particular task interleavings, that on_timeout/on_transmit are actually invoked by the runtime (exercised only by e2e runs), the composed eventual-delivery theorem; no axioms",
    "Coq proof (invariants by induction over op histories) + model/implementation correspondence + property judgement; partial")

CLAIMED["C06"] = _c(
    "Coq theorems: header protection round-trips for all masks and headers and changes only the protected bits and packet-number bytes (pn length read from the unmasked first byte); the AEAD nonce is iv XOR left-padded packet number and is injective on [0, 2^62); RFC 9001 initial salt and HKDF labels read from the source equal the RFC transcription; under the ideal-AEAD hypothesis (a visible premise of each theorem) every processed packet was sealed by the peer, each packet number is processed at most once, a forged or replayed datagram leaves data, ack state, window and expansion base unchanged and (below the integrity limit) the connection open, and a stateless-reset close implies the datagram ends in a registered peer token. Tied to the code by generated constants and differential execution of the real protect/unprotect/encrypt/decrypt/expand functions, the real OneRttKey nonces of all three suites, the real SlidingWindow and Token comparison, with exhaustive single-byte mutations, truncations, splices and replays",
    "5.6, 12",
    _TB + " h_core/C06; AEAD and header-protection strength are hypotheses (ideal AEAD), not proved; the rxpipe judgement's judge_run is an example only (_partial); the real KeySet failure counter and the crate-private stateless-reset maps are modelled, not driven; end-to-end injection is judged by the e2e_inject monitor; no axioms",
    "Coq proof (bitwise algebra; invariants under an ideal-AEAD Section hypothesis) + model/implementation correspondence + property judgement")

CLAIMED["C17"] = _c(
    "PARTIAL: sequentially consistent interleavings only. Proved on the interleaving model of the spsc ring (each atomic load/store/swap, waker register/wake as one step; arbitrary scheduler), for every capacity, schedule and pair of programs: received is a prefix of pushed and equals it once the receiver saw the channel closed (FIFO, exactly once); no slot is read outside the published window [head, tail) or before it was written. No-lost-wake-up is _partial: exhaustive exploration by vm_compute of all interleavings of three close/drop scenarios at capacity 2 only. The atomics' Ordering at each modelled access is tied syntactically to the source by generated constants (C17_orderings). Tied to the code by differential execution of the real spsc channel single-threaded under schedules from the case at operation granularity, plus real-thread stress as supporting evidence. A use-after-free on concurrent drop of both halves was found on the model and reproduced (observation, not a clause of C17)",
    "5.17, 12",
    _TB + " h_core/C17; NOT covered: reorderings the C11 memory model allows beyond interleavings, a general no-lost-wake-up invariant, half-written slots, cursor.rs / worker.rs / atomic_waker pair() (orderings pinned only), socket/ring.rs, wakeup_queue.rs; judge_run not proved; no axioms",
    "Coq proof (invariant by induction over interleaving schedules; bounded exhaustive exploration for wake-ups) + scheduled model/implementation correspondence; partial")

CLAIMED["C05"] = _c(
    "Coq theorems over reference codecs written from RFC 9000 16-19 (and RFC 8999/9221): varint round trip (also for every admissible longer encoding), shortest-form size, decode totality with exact failure condition and progress; the implementation-shaped varint table read from varint/table.rs equals the RFC entries and its formatted bytes equal the reference encoding; for all 24 frame constructors decode(encode f ++ rest) = (f, rest) under the two named non-injective spots, announced size = encoded length, every decoded frame consumes at least one byte and the payload loop never runs out of fuel; long/short/VN/Retry header round trips, truncated packet-number byte layout, transport-parameter block grammar round trip and totality. The property's other half (the Rust decoders agree with an independent reference parser on every input, and never panic) is differential by nature: varints, frame payloads, coalesced datagrams, packet numbers and parameter blocks (grammar-generated, mutated, random; all 2^16 two-byte varint prefixes) are decoded by the real code under catch_unwind and compared with the reference, re-encodings compared byte for byte",
    "5.5, 12",
    _TB + " h_core/C05; totality of the Rust decoders is established on the inputs tried plus the proved totality of the reference; header protection / pn expansion / AEAD belong to C06/C08, parameter semantics to C14; little-endian host assumed for the table model; no axioms (coqchk in the thorough tier: none)",
    "Coq proof (round-trip and progress theorems by case analysis and induction) + translator (varint table) + reference-vs-implementation differential execution")

CLAIMED["C09"] = _c(
    "Coq theorems over models of loss::detect, RttEstimator, Pto and recovery::Manager: detect is Lost iff the packet is at least K=3 older than the largest acknowledged or sent + 9/8*max(smoothed, latest) (floor 1 ms) has elapsed in the code's sense - the exact statement includes the one-granularity slack of Timestamp::has_elapsed, so the property's time rule is proved complete and sound up to 1 ms, and refuted as worded (KNOWN-FINDING loss_time_threshold_short_by_granularity); RTT bounds for every history of samples (latest = last sample, min_rtt = minimum, smoothed within [min - 49 ns, max]), PTO floor 1 ms and exact doubling, backoff min(2^k, cap); at Manager level for all op sequences: a PTO expiry never marks packets lost, every sent packet is resolved exactly once, per-path bytes in flight equals the sum of unresolved congestion-controlled packet sizes (never negative), discard is exact, lost packets satisfy the RFC rule up to the granularity slack (_partial). Tied to the code by 17 generated constants and differential execution of the real detect / RttEstimator / Pto and of the real recovery::Manager through hook H1 (recovery.rs) with a byte-ledger congestion controller",
    "5.9, 12",
    _TB + " h_transport/C09 + hook recovery.rs; not modelled: PTO jitter (0), ECN, MTU probes, amplification-limited paths, Retry, client side; the discard op is in the correspondence runs but not in the manager judge theorem; no axioms (coqchk in the thorough tier)",
    "Coq proof (arithmetic with lia; invariants by induction over histories, partly partial) + model/implementation correspondence + RFC-rule judgement")

NOT_APPLICABLE = {
    "C07": "interoperation with an independent third-party QUIC/TLS binary cannot be stated as a theorem about any model we could write (DESIGN.md 5.7); its provable content is carried by C05/C08/C14/C06",
}
_pending_ids = ["C02", "C03", "C05", "C06", "C09", "C12", "C17", "C18", "C20"]
for _p in _pending_ids:
    if _p not in CLAIMED:
        NOT_APPLICABLE.setdefault(_p, PENDING)
