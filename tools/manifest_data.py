HOOK_COMMITS = ["fefc95e", "25db118", "9a0560e", "6159944"]
NOTES = ("Every check regenerates coq/gen/*.v from /repo, re-checks the property's Coq closure with full .vo builds, "
         "rebuilds the harness crate from /repo's working tree with --cfg aws_s2n_quic_verif and runs the extracted model "
         "against the implementation. KNOWN_FINDINGS.txt lists recorded findings; it is never written at run time.")

PENDING = "check not built yet in this revision of /verif (claimed only once its theorem and its tie to the code run end to end)"

CLAIMED = {
    "C19": {
        "text": "Coq theorems for every sequence of key ids / sender operations: acceptance iff (not reserved max, not accepted before, above or less than 896 below the highest accepted) and strictly increasing issued ids; the models are tied to receiver.rs/sender.rs by the generated WINDOW constant and by differential execution (incl. exhaustive short sequences over window-edge ids); concurrency enters through the linearisation assumption stated in level_note",
        "design_ref": "5.19",
        "note": "trusted: Coq kernel, translator, extraction (ExtrOcamlBasic), OCaml driver, Rust harness + hook H3; assumed: Mutex / atomic RMW linearise (every concurrent execution equals some operation sequence); no axioms (Print Assumptions: closed)",
        "technique": "Coq proof (inductive invariant over fold of operations) + model/implementation correspondence",
    },
}

CLAIMED["C11"] = {
    "text": "Coq theorems over the model of Path's amplification accounting for every sequence of datagrams received/sent (ledger sent + allowance <= 3 x received + forgiven overshoot, exact while it fits u32; the literal 3x bound proved outside the recorded known class and refuted inside it - finding F2, reported as KNOWN-FINDING), of stateless-reset sizing for every trigger/tag length and every random choice (strictly smaller than the trigger; none exactly when impossible) and of the version-negotiation decision (only Initial of an unsupported version in a datagram >= 1200 bytes, never for VN); tied to the source by generated constants (multiplier 3, 1200, reset sizing constants, supported versions) and differential execution through hook H1",
    "design_ref": "5.11",
    "note": "trusted: Coq kernel, translator, extraction, OCaml driver, Rust harness + hook H1 (verif_hooks/{common,amplification,misc}.rs); hypothesis: gen_range_biased returns a value in range; not covered by a component: client Initial padding and whether every transmission site consults the path's constraint (only the Path API and the endpoint-level reply dispatchers are driven); no axioms",
    "technique": "Coq proof (inductive ledger invariant over reachable path states; case analysis) + model/implementation correspondence + known-finding classifier proved to accept every model run",
}

NOT_APPLICABLE = {
    "C07": "interoperation with an independent third-party QUIC/TLS binary cannot be stated as a theorem about any model we could write (DESIGN.md 5.7); its provable content is carried by C05/C08/C14/C06",
}
for _p in ["C01", "C02", "C03", "C04", "C05", "C06", "C08", "C09", "C10", "C12", "C13", "C14", "C15", "C16", "C17", "C18", "C20"]:
    NOT_APPLICABLE.setdefault(_p, PENDING)
