"""Translator family C20: the constants the dc stream simulation monitor depends on, read from the
current source: the idle timeout and initial window of the testing parameters the
`stream::testing::{Client, Server}` helpers install, and the loss-detection packet threshold of
send::State::detect_lost_packets."""
from gen_consts import family, Family

T = "quic/s2n-quic-core/src/dc/testing.rs"
S = "dc/s2n-quic-dc/src/stream/send/state.rs"


@family
def gen_C20():
    f = Family("C20")
    # TEST_APPLICATION_PARAMS { max_idle_timeout: NonZeroU32::new(Duration::from_secs(30).as_millis() as _), .. }
    f.const("test_idle_timeout_secs", T,
            r"TEST_APPLICATION_PARAMS\s*:\s*ApplicationParams\s*=\s*ApplicationParams\s*\{.*?max_idle_timeout\s*:\s*NonZeroU32::new\(\s*Duration::from_secs\(([^)]+)\)")
    # remote_max_data: VarInt::from_u32(1472 * 10)
    f.const("test_remote_max_data", T,
            r"TEST_APPLICATION_PARAMS\s*:\s*ApplicationParams\s*=\s*ApplicationParams\s*\{.*?remote_max_data\s*:\s*VarInt::from_u32\(([^)]+)\)")
    # let Some(loss_threshold) = max.checked_sub(VarInt::from_u8(2))
    f.const("loss_threshold_gap", S,
            r"loss_threshold\)\s*=\s*max\.checked_sub\(VarInt::from_u8\(([^)]+)\)\)")
    return f
