"""Translator family C16: constants of the range-set structures read from the current source."""
import re
from gen_consts import family, Family, read, strip_comments, eval_int, EvalError

SW = "quic/s2n-quic-core/src/packet/number/sliding_window.rs"
ACKS = "quic/s2n-quic-core/src/ack/settings.rs"
ISET = "quic/s2n-quic-core/src/interval_set/mod.rs"


def _try(fn):
    try:
        return fn()
    except (EvalError, AttributeError, TypeError, ValueError):
        return None


@family
def gen_C16():
    f = Family("C16")
    src = read(SW)
    src = strip_comments(src) if src is not None else ""
    # type Window = u128;  -> number of bits of the bitfield
    bits = _try(lambda: int(re.search(r"type\s+Window\s*=\s*u(\d+)\s*;", src).group(1)))
    f.n("sw_window_bits", bits, SW)

    # const WINDOW_WIDTH: u64 = 1 + mem::size_of::<Window>() as u64 * 8;
    def width():
        e = re.search(r"const\s+WINDOW_WIDTH\s*:\s*u64\s*=\s*([^;]+);", src).group(1)
        e = re.sub(r"(?:core::)?mem::size_of::<\s*Window\s*>\(\)", str(bits // 8), e)
        return eval_int(e)
    f.n("sw_window_width", _try(width), SW)
    # `let removed_mask = if delta == 128 { u128::MAX } else { !u128::MAX.wrapping_shr(..) }`
    f.n("sw_full_delta", _try(lambda: eval_int(re.search(
        r"removed_mask\s*=\s*if\s+delta\s*==\s*([\w]+)\s*\{\s*u128::MAX\s*\}", src).group(1))), SW)
    # ack::Settings::RECOMMENDED.ack_ranges_limit
    f.const("ack_ranges_limit", ACKS, r"const\s+RECOMMENDED_RANGES_LIMIT\s*:\s*u8\s*=\s*([^;]+);")
    # packet number Map: DEFAULT_CAPACITY
    f.const("pnmap_default_capacity", "quic/s2n-quic-core/src/packet/number/map.rs",
            r"const\s+DEFAULT_CAPACITY\s*:\s*usize\s*=\s*([^;]+);")
    # IntervalSet::index_for: `if self.interval_len() < 16 { return 0; }`
    f.const("iset_linear_threshold", ISET, r"fn\s+index_for.*?if\s+self\.interval_len\(\)\s*<\s*(\d+)\s*\{")
    return f
