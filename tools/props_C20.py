"""C20 -- dc: streams deliver bytes exactly, or fail promptly with an error (partial)."""
import os, re
import registry

ROOT = os.path.dirname(os.path.dirname(os.path.abspath(__file__)))
BBR_CLASS = "bbr_min_window_u16_overflow"
BBR_CLASS2 = "bbr_send_quantum_u16_overflow"
ENC_CLASS = "dc_stream_payload_len_varint_reserve"


def _mtu_max():
    """MTUs >= 16384 overflow a u16 multiplication in BbrCongestionController::minimum_window (finding
    reported by the C20 agent). They are generated only once KNOWN_FINDINGS.txt mentions that class
    (as a known finding: reported as KNOWN-FINDING; or as fixed: must pass)."""
    try:
        txt = open(os.path.join(ROOT, "KNOWN_FINDINGS.txt")).read()
    except OSError:
        txt = ""
    # second site: Pacer::set_send_quantum computes `max_datagram_size * 2` in u16 (overflows at exactly 32768)
    # third site: packet/stream/encoder.rs reserves 1 byte for the payload-length varint; payloads >= 16384
    # (datagram sizes above ~16.5 kB) overflow the packet buffer by 2 bytes
    if BBR_CLASS not in txt or ENC_CLASS not in txt:
        return 16383
    return 32768 if BBR_CLASS2 in txt else 32767


MTU_MAX = _mtu_max()
SIZES = [0, 1, 100, 1000, 1471, 1472, 1473, 5000, 14719, 14720, 14721, 20000, 60000, 100000, 300000]


def _mtu(rng):
    r = rng.random()
    if r < 0.55:
        return rng.choice([1250, 1251, 1300, 1472, 1500, 4000, 8950, 9001, 12000, min(16383, MTU_MAX), MTU_MAX])
    return rng.randrange(1250, MTU_MAX + 1)


def _size(rng):
    r = rng.random()
    if r < 0.6:
        return rng.choice(SIZES)
    if r < 0.9:
        return rng.randrange(0, 200000)
    return rng.randrange(0, 1 << 20)


def _rw(rng, total, opts, max_ops):
    v = rng.choice(opts)
    while v > 0 and total // v > max_ops:
        v *= 4
    return max(1, v)


def gen_dcsim(rng, scenario=None):
    seed = rng.randrange(1 << 32)
    if scenario is None:
        r = rng.random()
        scenario = 0 if r < 0.64 else (1 if r < 0.84 else 2)
    req, resp = _size(rng), _size(rng)
    prof = rng.random()
    if prof < 0.25:
        dc = ds = dup = dl = 0
    else:
        dc = rng.choice([0, 5, 20, 50, 100, 200, 300])
        ds = dc if rng.random() < 0.6 else rng.choice([0, 5, 20, 50, 100, 200, 300])
        dup = rng.choice([0, 0, 20, 100, 300])
        dl = rng.choice([0, 0, 50, 200, 500])
    maxextra = rng.choice([100, 400, 2000, 20000, 200000])
    cmode, smode = rng.randrange(8), rng.randrange(8)
    pause = rng.choice([100, 1000, 50000, 1000000])
    cchunk = _rw(rng, req, [1, 10, 100, 1000, 1472, 5000, 65536, 1 << 20], 40 if cmode & 4 else 3000)
    schunk = _rw(rng, resp, [1, 10, 100, 1000, 1472, 5000, 65536, 1 << 20], 40 if smode & 4 else 3000)
    cread = _rw(rng, resp, [7, 100, 1000, 1472, 4096, 65536, 1 << 20], 8000)
    sread = _rw(rng, req, [7, 100, 1000, 1472, 4096, 65536, 1 << 20], 8000)
    vanish = rng.choice([0, 400, 600, 1000, 1500, 2500, 3000, 10000, 100000, 1000000, rng.randrange(0, 50000)]) if scenario == 1 else 0
    rstop = rng.choice([1, 2, 3]) if rng.random() < 0.15 else 0
    return [seed, scenario, _mtu(rng), _mtu(rng), req, resp, dc, ds, dup, dl, maxextra, cread, sread, cchunk, schunk,
            cmode, smode, vanish, pause, rstop]


def fixed_dcsim(tier):
    out = []
    # loss-free baselines, both directions, the three scenarios
    for sc in (0, 1, 2):
        out.append([1, sc, 1500, 1500, 100000, 100000, 0, 0, 0, 0, 0, 4096, 4096, 4096, 4096, 3, 3, 3000, 0, 0])
        out.append([2, sc, 1250, 9001, 1000, 300000, 0, 0, 0, 0, 0, 1000, 1000, 1000, 65536, 1, 1, 1000, 0, 0])
    # heavy faults
    out.append([3, 0, 1472, 1472, 200000, 200000, 300, 300, 300, 500, 20000, 4096, 4096, 5000, 5000, 3, 3, 0, 0, 0])
    out.append([4, 0, 1250, MTU_MAX, 300000, 1000, 100, 200, 100, 200, 2000, 65536, 1472, 65536, 100, 2, 0, 0, 0, 0])
    out.append([5, 2, 1500, 1500, 1 << 20, 1000, 500, 500, 0, 0, 100, 4096, 4096, 65536, 1000, 1, 3, 0, 0, 0])
    out.append([6, 2, 1500, 1500, 1000, 1000, 900, 900, 0, 0, 100, 4096, 4096, 1000, 1000, 3, 3, 0, 0, 0])
    out.append([7, 1, 1500, 1500, 1000, 1000, 0, 0, 0, 0, 100, 4096, 4096, 1000, 1000, 3, 3, 0, 0, 0])
    out.append([8, 0, 1500, 1500, 60000, 60000, 50, 50, 20, 50, 2000, 1000, 1000, 1000, 1000, 7, 7, 0, 1000, 3])
    # the peer vanishes right after its first flight (the whole response incl. the final size) went out
    # under 30% loss: the reader is left knowing the final size with a gap, the local send half is done
    for seed in range(100, 124):
        out.append([seed, 1, 1500, 1500, 1, 10000, 0, 300, 0, 0, 100, 4096, 4096, 1, 10000, 3, 1, 600, 0, 0])
    for seed in range(124, 136):
        out.append([seed, 1, 1250, 4000, 1, 14000, 0, 200, 0, 200, 400, 1000, 4096, 1, 14000, 1, 1, 700, 0, 0])
    # the last chunk is handed over together with the end of stream (write_all_from_fin, mode bit 8): the
    # packet that carries the final size also carries payload; 10% / 5% loss decides whether it is the one lost
    for seed in range(200, 224):
        out.append([seed, 0, 1500, 1500, 40000, 4, 100, 0, 0, 0, 100, 4096, 4096, 65536, 1000,
                    8 | (2 if seed % 2 else 0), 8 if seed % 3 else 1, 0, 0, 0])
    for seed in range(224, 236):
        out.append([seed, 0, 1250, 4000, 25000, 30000, 50, 50, 0, 50, 400, 4096, 4096, 10000, 30000, 10, 10, 0, 0, 0])
    if MTU_MAX >= 32767:
        out.append([9, 0, MTU_MAX, MTU_MAX, 300000, 300000, 50, 50, 20, 50, 2000, 65536, 65536, 65536, 65536, 3, 3, 0, 0, 0])
        out.append([10, 0, 16384, 1500, 100000, 100000, 0, 0, 0, 0, 0, 65536, 65536, 65536, 65536, 3, 3, 0, 0, 0])
    return out


def valid_dcsim(c):
    """positional format: the shrinker may only change magnitudes; operation counts stay bounded"""
    if len(c) != 20 or not all(isinstance(v, int) and 0 <= v < (1 << 40) for v in c):
        return False
    req, resp = min(c[4], 1 << 24), min(c[5], 1 << 24)
    cread, sread, cchunk, schunk = (max(1, v) for v in c[11:15])
    return req // cchunk <= 5000 and resp // schunk <= 5000 and resp // cread <= 20000 and req // sread <= 20000


def nontrivial_dcsim(case, out):
    """some bytes actually crossed the faulty network or an error was observed"""
    if len(out) != 44:
        return False
    d0, d1 = out[6:24], out[24:42]
    faults = sum(case[6:10]) > 0 or (case[1] % 3) != 0
    return faults and (d0[7] > 0 or d1[7] > 0 or d0[11] != 0 or d1[11] != 0 or d0[3] != 0 or d1[3] != 0)


def histogram_dcsim(cases, outs):
    h = {"scenario": {}, "read_err": {}, "write_err": {}, "eof_both": 0, "lossy": 0, "dup": 0, "reorder": 0,
         "mtu_ge_9000": 0, "reader_stop": 0, "panics": 0, "bytes_read": 0, "idle_expired": 0}
    for c, o in zip(cases, outs):
        c = list(c) + [0] * 20
        h["scenario"][str(c[1] % 3)] = h["scenario"].get(str(c[1] % 3), 0) + 1
        h["lossy"] += 1 if c[6] + c[7] > 0 else 0
        h["dup"] += 1 if c[8] > 0 else 0
        h["reorder"] += 1 if c[9] > 0 else 0
        h["mtu_ge_9000"] += 1 if max(c[2], c[3]) >= 9000 else 0
        h["reader_stop"] += 1 if c[19] else 0
        if o.startswith("!"):
            h["panics"] += 1
            continue
        v = [(-int(t[1:], 16) if t.startswith("-") else int(t, 16)) for t in o.split()]
        if len(v) != 44:
            continue
        for d in (v[6:24], v[24:42]):
            h["read_err"][str(d[11])] = h["read_err"].get(str(d[11]), 0) + 1
            h["write_err"][str(d[3])] = h["write_err"].get(str(d[3]), 0) + 1
            h["bytes_read"] += d[7]
            h["idle_expired"] += 1 if 1 in (d[3], d[11]) else 0
        h["eof_both"] += 1 if v[6 + 10] == 1 and v[24 + 10] == 1 else 0
    return h


def classify(p):
    if "exceeded capacity of" in (p.get("impl") or "") and max((list(p["case"]) + [0] * 4)[2:4]) >= 16384:
        return ENC_CLASS
    if "attempt to multiply with overflow" in (p.get("impl") or ""):
        m = max((list(p["case"]) + [0] * 4)[2:4])
        if m >= 32768:
            return BBR_CLASS2
        if m >= 16384:
            return BBR_CLASS
    return None


registry.register("C20", {
    "gen": ["C20"],
    "props_file": "props/C20.v",
    "extract_target": "extract/Ex_C20.vo",
    "harness": "h_dc",
    "axioms_allowed": [],
    "classify": classify,
    "components": [
        {"name": "dcsim", "gen": gen_dcsim, "fixed": fixed_dcsim, "quick": 100, "thorough": 6000, "model": False,
         "valid": valid_dcsim, "nontrivial": nontrivial_dcsim, "histogram": histogram_dcsim},
    ],
    "rule": "dcsim: each case is one request/response exchange over real s2n_quic_dc::stream::testing::{Client, Server} "
            "inside the bach simulation (UDP; the testing helpers offer no TCP under bach), every random choice from the case: "
            "scenario (normal / peer vanishes at a chosen virtual time / peer dropped the path secret), MTU 1250..%d per side, "
            "request and response sizes 0..1 MiB clustered at the initial window 14720, per-direction drop rate 0..30%%, duplicate "
            "0..30%%, delayed (reordered) 0..50%% by up to 0.1..200 ms, read buffer and write chunk sizes 1..1 MiB, shutdown vs drop, "
            "sequential vs concurrent halves, paused writers, readers that stop half way, and (fixed families) writers that hand over the last chunk together with the end of stream (write_all_from_fin) under 5-10%% loss. Non-trivial = faults configured and bytes "
            "read or an error observed." % MTU_MAX,
    "assumptions": [
        "PARTIAL: the theorems are about the abstract ARQ model (coq/model/DcStream.v); the real send/recv state machines are "
        "covered by the simulation monitor and the state-machine driver only",
        "ideal AEAD in the model: the receiver only ever processes packets the sender transmitted",
        "fairness for dc_fails_within_idle: virtual time advances and the runtime wakes a stream at its armed timer deadline",
        "the harness's byte comparison (position-keyed payload) and its virtual-time stamps are trusted observations",
        "scheduling slack granted on the deadline: network latency 0.5 ms + the case's maximum extra delay + 10 ms",
        "bach offers UDP only; the TCP transport of dc streams is not exercised by this check",
    ],
    "trusted_base": ["no axioms: Print Assumptions reports 'Closed under the global context' for every C20 theorem",
                     "bach 0.1.2 discrete-event runtime and the harness's own packet-queue allocator (drop/duplicate/delay)"],
    "explanation": "Coq theorems C20_* over the abstract dc stream model for all oracles and schedules; monitor dcsim_judge "
                   "(extracted, with soundness theorem) applied to real simulated exchanges under seeded network faults",
})


# ---------------------------------------------------------------------------------------------
# dcrecv: the receiver state machine alone
# ---------------------------------------------------------------------------------------------

def gen_dcrecv(rng):
    total = rng.choice([0, 1, 100, 1100, 1101, 3000, 6000, 12000])
    n = rng.choice([3, 8, 20, 60])
    c = [rng.randrange(1 << 32), total]
    cover = 0
    for _ in range(n):
        r = rng.random()
        if r < 0.45:
            kind = 0
        elif r < 0.6:
            kind = 1
        elif r < 0.75:
            kind = 2
        elif r < 0.85:
            kind = 3
        else:
            kind = 4
        pn = rng.randrange(48)
        ln = rng.choice([0, 9, 99, 499, 1099, rng.randrange(1100)])
        a = pn + 48 * ln
        # offsets: mostly walking forward so that streams complete, sometimes anywhere
        if rng.random() < 0.7:
            b = cover
            cover = min(total, cover + ln + 1)
        else:
            b = rng.randrange(total + 1)
        if kind >= 2:
            a, b = rng.randrange(1 << 16), 0
        c += [kind, a, b]
    c += [3, 0, 0, 4, 3999, 0, 4, 3999, 0, 4, 3999, 0, 4, 3999, 0, 3, 0, 0]
    return c


def fixed_dcrecv(tier):
    return [
        [5, 5000, 0, 0, 0, 0, 48, 1000, 4, 4095, 0, 3, 0, 0, 2, 0, 0, 1, 49, 2000, 0, 97, 3000, 4, 4095, 0, 3, 0, 0],
        [7, 100, 0, 48 * 99, 0, 2, 0, 0, 2, 0, 0, 4, 4095, 0, 2, 0, 0, 3, 0, 0],
        [9, 0, 0, 0, 0, 3, 0, 0, 4, 1, 0],
    ]


def nontrivial_dcrecv(case, out):
    try:
        i = out.index(-1)
    except ValueError:
        return False
    pairs = out[1:i]
    return 1 in pairs[0::2] and out[i + 1] > 0


def histogram_dcrecv(cases, outs):
    h = {"accepted": 0, "dup_refused_Duplicate": 0, "dup_refused_other": 0, "fresh_refused": 0, "eof": 0, "acked_pns": 0}
    for o in outs:
        if o.startswith("!"):
            continue
        v = [(-int(t[1:], 16) if t.startswith("-") else int(t, 16)) for t in o.split()]
        i = v.index(-1)
        for d, code in zip(v[1:i:2], v[2:i:2]):
            if d == 1:
                h["dup_refused_Duplicate" if code == 1 else ("dup_refused_other" if code == 2 else "dup_skipped_ok")] = h.get("dup_refused_Duplicate" if code == 1 else ("dup_refused_other" if code == 2 else "dup_skipped_ok"), 0) + 1
            elif d == 2:
                h["after_all_received"] = h.get("after_all_received", 0) + 1
            elif code == 0:
                h["accepted"] += 1
            else:
                h["fresh_refused"] += 1
        h["eof"] += v[i + 7]
        h["acked_pns"] += v[i + 5]
    return h


registry.PROPS["C20"]["components"].append(
    {"name": "dcrecv", "gen": gen_dcrecv, "fixed": fixed_dcrecv, "quick": 1500, "thorough": 200000, "model": False,
     "valid": lambda c: len(c) >= 2 and (len(c) - 2) % 3 == 0 and all(0 <= v < (1 << 40) for v in c),
     "nontrivial": nontrivial_dcrecv, "histogram": histogram_dcrecv})
