"""Translator family C04.

1. the frame-kind x packet-number-space permission matrix, read from
   quic/s2n-quic-transport/src/space/{mod,initial,handshake,application}.rs:
     * which trait method `handle_cleartext_payload` calls for each `Frame::<Kind>` arm,
     * whether the `PacketSpace` trait gives that method a default body (and whether that
       default rejects with transport::Error::PROTOCOL_VIOLATION -- `default_frame_handler!`
       or a hand written `Err(..)` body -- or accepts),
     * which methods `impl PacketSpace for {Initial,Handshake,Application}Space` override and
       whether the override rejects unconditionally / by frame tag / by endpoint role.
   Nothing is defaulted: if a piece cannot be parsed the constant is not emitted.
2. transport error codes (s2n-quic-core/src/transport/error.rs) and the constants used by the
   receive-side flow-control models.
"""
import re
from gen_consts import family, Family, read, strip_comments, eval_int, EvalError

SPACE = "quic/s2n-quic-transport/src/space/"

# Frame enum variant -> RFC 9000 frame type (first type value of the kind); CONNECTION_CLOSE is
# split into its two types below. DATAGRAM is RFC 9221 (0x30).
KIND = {
    "Padding": 0x00, "Ping": 0x01, "Ack": 0x02, "ResetStream": 0x04, "StopSending": 0x05,
    "Crypto": 0x06, "NewToken": 0x07, "Stream": 0x08, "MaxData": 0x10, "MaxStreamData": 0x11,
    "MaxStreams": 0x12, "DataBlocked": 0x14, "StreamDataBlocked": 0x15, "StreamsBlocked": 0x16,
    "NewConnectionId": 0x18, "RetireConnectionId": 0x19, "PathChallenge": 0x1a,
    "PathResponse": 0x1b, "ConnectionClose": 0x1c, "HandshakeDone": 0x1e, "Datagram": 0x30,
}
# s2n-quic private extension frames: not part of RFC 9000 Table 3; reported separately
EXT = {"DcStatelessResetTokens": 0xdc0000, "MtuProbingComplete": 0xdc0002}


def blank_strings(src):
    """replace the contents of string literals by spaces (keeps offsets, removes braces)"""
    return re.sub(r'"(?:[^"\\]|\\.)*"', lambda m: '"' + " " * (len(m.group(0)) - 2) + '"', src)


def block_at(src, i):
    """src[i] == '{' -> (body, index after the matching '}')"""
    assert src[i] == "{"
    d = 0
    for j in range(i, len(src)):
        if src[j] == "{":
            d += 1
        elif src[j] == "}":
            d -= 1
            if d == 0:
                return src[i + 1:j], j + 1
    return None, None


def fns_in(body):
    """top-level `fn name ... {body}` / `fn name ...;` items of a trait/impl body -> {name: body|None}"""
    out = {}
    depth = 0
    i = 0
    n = len(body)
    while i < n:
        c = body[i]
        if c == "{":
            depth += 1
        elif c == "}":
            depth -= 1
        elif depth == 0 and body.startswith("fn ", i) and (i == 0 or not (body[i - 1].isalnum() or body[i - 1] == "_")):
            m = re.match(r"fn\s+(\w+)", body[i:])
            name = m.group(1)
            # find the end of the signature: first '{' or ';' at paren depth 0
            j = i
            pd = 0
            while j < n:
                if body[j] in "(<[":
                    pd += body[j] == "("
                elif body[j] == ")":
                    pd -= 1
                elif pd == 0 and body[j] in "{;":
                    break
                j += 1
            if j >= n:
                break
            if body[j] == ";":
                out[name] = None
                i = j + 1
                continue
            b, e = block_at(body, j)
            if b is None:
                break
            out[name] = b
            i = e
            continue
        i += 1
    return out


ERR_RE = r"transport::Error::(\w+)"


def classify(body):
    """classification of a handler body with respect to *frame type* permission.
    returns dict(kind=..., codes=[error names used on the rejecting path]) or None if unknown"""
    b = re.sub(r"\s+", " ", body).strip()
    # unconditional rejection: the whole body is one Err(..) expression
    m = re.fullmatch(r"Err\(\s*" + ERR_RE + r"(?:\s*\.\s*with_\w+\([^()]*(?:\([^()]*\)[^()]*)*\))*\s*\)", b)
    if m:
        return {"kind": "reject", "codes": [m.group(1)]}
    res = {"kind": "allow", "codes": []}
    # rejection by frame tag:  if frame.tag() != 0x1c { return Err(transport::Error::X); }
    m = re.search(r"if frame\.tag\(\) != (0x[0-9a-fA-F]+|\d+) \{ return Err\(\s*" + ERR_RE, b)
    if m:
        res = {"kind": "tag_only", "tag": int(m.group(1), 0), "codes": [m.group(2)]}
    elif re.search(r"frame\.tag\(\)\s*(?:==|!=|<|>)", b):
        return None
    # rejection by endpoint role
    m = re.search(r"if Config::ENDPOINT_TYPE\.is_server\(\) \{ return Err\(\s*" + ERR_RE, b)
    if m:
        if res["kind"] != "allow":
            return None
        res = {"kind": "client_only", "codes": [m.group(1)]}
    elif re.search(r"ENDPOINT_TYPE\.is_(?:server|client)\(\)\s*\{\s*return Err", b):
        return None
    # rejection unless the dc extension is enabled (extension frames only)
    m = re.search(r"if Config::DcEndpoint::ENABLED \{.*\} else \{ return Err\(\s*" + ERR_RE, b)
    if m:
        res = {"kind": "dc_only", "codes": [m.group(1)]}
    return res


def parse_matrix():
    """returns (rows, server_rejects, ext_rows, reject_codes, notes) or raises ValueError"""
    srcs = {}
    for f in ("mod.rs", "initial.rs", "handshake.rs", "application.rs"):
        s = read(SPACE + f)
        if s is None:
            raise ValueError("cannot read " + f)
        srcs[f] = blank_strings(strip_comments(s))
    mod = srcs["mod.rs"]

    # default_frame_handler! macro: what a macro-generated default does
    m = re.search(r"macro_rules!\s+default_frame_handler\s*\{", mod)
    if not m:
        raise ValueError("default_frame_handler! not found")
    mac, _ = block_at(mod, m.end() - 1)
    mm = re.search(r"fn \$name\([^)]*\)\s*->\s*Result<\(\),\s*transport::Error>\s*\{", mac)
    if not mm:
        raise ValueError("default_frame_handler! shape")
    mbody, _ = block_at(mac, mm.end() - 1)
    mac_class = classify(mbody)
    if not mac_class or mac_class["kind"] != "reject":
        raise ValueError("default_frame_handler! no longer rejects unconditionally")

    # the trait
    m = re.search(r"pub trait PacketSpace<[^{]*\{", mod)
    if not m:
        raise ValueError("trait PacketSpace not found")
    trait, _ = block_at(mod, m.end() - 1)
    tf = fns_in(trait)
    defaults = {}
    for name, body in tf.items():
        if not re.fullmatch(r"handle_\w+_frame", name):
            continue
        if body is None:
            defaults[name] = {"kind": "required"}
        else:
            c = classify(body)
            if c is None:
                raise ValueError("default body of %s not understood" % name)
            defaults[name] = c
    for mm in re.finditer(r"default_frame_handler!\(\s*(handle_\w+_frame)\s*,\s*\w+\s*\)", trait):
        defaults[mm.group(1)] = dict(mac_class)

    # dispatch in handle_cleartext_payload
    hp = tf.get("handle_cleartext_payload")
    if hp is None:
        raise ValueError("handle_cleartext_payload has no body")
    m = re.search(r"match frame \{", hp)
    if not m:
        raise ValueError("frame dispatch not found")
    disp, _ = block_at(hp, m.end() - 1)
    arms = {}
    i = 0
    for am in re.finditer(r"Frame::(\w+)\(\s*frame\s*\)\s*=>\s*\{", disp):
        if am.start() < i:
            continue
        abody, e = block_at(disp, am.end() - 1)
        i = e
        calls = re.findall(r"self\s*\.\s*(handle_\w+_frame)\s*\(", abody)
        if len(calls) > 1:
            raise ValueError("arm %s calls several handlers" % am.group(1))
        if calls:
            # the handler's error must be propagated
            if not re.search(r"\.map_err\(on_error\)\?", abody):
                raise ValueError("arm %s does not propagate the handler's error" % am.group(1))
            if re.search(r"\bif\b", abody.split("self")[0]) and "handle_" in abody:
                # a condition *before* the call could bypass it
                if re.search(r"\bif\b[^{]*\{[^}]*return", abody.split("self")[0]):
                    raise ValueError("arm %s returns before its handler" % am.group(1))
            arms[am.group(1)] = calls[0]
        else:
            if "Err(" in abody or "return" in abody:
                raise ValueError("arm %s without handler has an error path" % am.group(1))
            arms[am.group(1)] = None
    unknown = [k for k in arms if k not in KIND and k not in EXT]
    if unknown:
        raise ValueError("frame kinds without an RFC number: %s" % unknown)
    missing = [k for k in list(KIND) + list(EXT) if k not in arms]
    if missing:
        raise ValueError("no dispatch arm for: %s" % missing)

    spaces = [("initial.rs", "InitialSpace", 0), ("handshake.rs", "HandshakeSpace", 1), ("application.rs", "ApplicationSpace", 2)]
    rows, ext_rows, server_rejects, codes = [], [], [], set()
    for f, ty, sp in spaces:
        s = srcs[f]
        m = re.search(r"impl<[^>]*>\s*PacketSpace<Config>\s*for\s+%s<Config>\s*\{" % ty, s)
        if not m:
            raise ValueError("impl PacketSpace for %s not found" % ty)
        ib, _ = block_at(s, m.end() - 1)
        ov = {k: v for k, v in fns_in(ib).items() if re.fullmatch(r"handle_\w+_frame", k)}
        for k in ov:
            if k not in defaults:
                raise ValueError("%s overrides %s which the trait does not declare" % (ty, k))
        for name, d in defaults.items():
            if d["kind"] == "required" and name not in ov:
                raise ValueError("%s lacks required %s" % (ty, name))

        def perm(kindname):
            h = arms[kindname]
            if h is None:
                return {"kind": "allow", "codes": []}
            if h in ov:
                if ov[h] is None:
                    raise ValueError("%s::%s has no body" % (ty, h))
                c = classify(ov[h])
                if c is None:
                    raise ValueError("%s::%s not understood" % (ty, h))
                return c
            return defaults[h]

        for kname, k in KIND.items():
            c = perm(kname)
            codes.update(c["codes"])
            if kname == "ConnectionClose":
                for tag in (0x1c, 0x1d):
                    if c["kind"] == "allow":
                        rows.append((sp, tag, True))
                    elif c["kind"] == "reject":
                        rows.append((sp, tag, False))
                    elif c["kind"] == "tag_only":
                        rows.append((sp, tag, tag == c["tag"]))
                    else:
                        raise ValueError("CONNECTION_CLOSE permission in %s not understood" % ty)
                continue
            if c["kind"] in ("allow", "client_only"):
                rows.append((sp, k, True))
                if sp == 2:
                    server_rejects.append((k, c["kind"] == "client_only"))
                elif c["kind"] == "client_only":
                    raise ValueError("role condition outside the application space")
            elif c["kind"] == "reject":
                rows.append((sp, k, False))
            else:
                raise ValueError("%s permission in %s not understood (%s)" % (kname, ty, c["kind"]))
        for kname, k in EXT.items():
            c = perm(kname)
            ext_rows.append((sp, k, c["kind"]))
    return rows, server_rejects, ext_rows, sorted(codes)


def error_codes():
    src = read("quic/s2n-quic-core/src/transport/error.rs")
    out = {}
    if src is None:
        return out
    src = strip_comments(src)
    for m in re.finditer(r"^\s*([A-Z][A-Z_0-9]+)\s*=\s*(0x[0-9a-fA-F]+|\d+)\s*\.with_frame_type", src, re.M):
        out[m.group(1)] = int(m.group(2), 0)
    return out


@family
def gen_C04():
    f = Family("C04")
    codes = error_codes()
    for name in ("NO_ERROR", "INTERNAL_ERROR", "FLOW_CONTROL_ERROR", "STREAM_LIMIT_ERROR", "STREAM_STATE_ERROR",
                 "FINAL_SIZE_ERROR", "FRAME_ENCODING_ERROR", "PROTOCOL_VIOLATION"):
        f.n("code_" + name.lower(), codes.get(name), "quic/s2n-quic-core/src/transport/error.rs")
    f.n("code_crypto_buffer_exceeded", codes.get("CRYPTO_BUFFER_EXCEEDED"), "quic/s2n-quic-core/src/transport/error.rs")
    # the receive buffer limit of a CRYPTO stream
    f.const("crypto_rx_limit", "quic/s2n-quic-transport/src/space/crypto_stream.rs",
            r"const\s+MAX_CRYPTO_BUFFER_SIZE\s*:\s*u64\s*=\s*([^;]+);")
    try:
        rows, server_rejects, ext_rows, rcodes = parse_matrix()
    except ValueError as ex:
        f.missing.append("frame_allowed")
        f.raw("(* MISSING frame_allowed : %s *)" % str(ex).replace("*)", "* )"))
        return f
    f.raw("(* (space, frame kind, allowed): space 0 = Initial, 1 = Handshake, 2 = Application (1-RTT);")
    f.raw("   frame kind = first RFC 9000 frame type of the kind (0x1c / 0x1d = the two CONNECTION_CLOSE types, 0x30 = DATAGRAM) *)")
    f.raw("Definition frame_allowed : list (N * N * bool) := [\n  " +
          ";\n  ".join("(%d, %d, %s)" % (s, k, "true" if a else "false") for s, k, a in rows) + "\n]%N.")
    f.raw("(* application space: (frame kind, rejected when the local endpoint is a server) *)")
    f.raw("Definition server_rejects : list (N * bool) := [" +
          "; ".join("(%d, %s)" % (k, "true" if a else "false") for k, a in server_rejects) + "]%N.")
    bad = [c for c in rcodes if c not in codes]
    if bad:
        f.missing.append("frame_reject_codes")
        f.raw("(* MISSING frame_reject_codes : unknown error names %s *)" % bad)
    else:
        f.raw("(* error codes used on the paths that reject a frame kind in a space *)")
        f.raw("Definition frame_reject_codes : list N := [" + "; ".join(str(codes[c]) for c in rcodes) + "]%N.")
    f.raw("(* s2n-quic extension frames (not in RFC 9000 Table 3), for information: " +
          ", ".join("space %d kind 0x%x: %s" % r for r in ext_rows) + " *)")
    f.values["frame_allowed_rows"] = len(rows)
    f.values["frame_allowed_true"] = sum(1 for r in rows if r[2])
    return f
