"""Per-property configuration: translator families, Coq targets, components and generators."""
import os, sys, importlib

COMMON_TRUSTED = [
    "Coq 8.16.1 kernel (coqc; coqchk re-check in the thorough tier); vm_compute used, native_compute not used",
    "tools/gen_consts.py (translator for constants/tables read from the source)",
    "extraction: Require Extraction + ExtrOcamlBasic only, no Extract Constant / Extract Inductive of our own; OCaml 4.13.1 ocamlopt; ocaml/driver.ml",
    "correspondence harness: /verif/harness (Rust drivers, hooks under cfg aws_s2n_quic_verif), tools/run_check.py, generators in tools/props_*.py",
]

PROPS = {}


def register(pid, cfg):
    PROPS[pid] = cfg


_here = os.path.dirname(os.path.abspath(__file__))
for f in sorted(os.listdir(_here)):
    if f.startswith("props_") and f.endswith(".py"):
        importlib.import_module(f[:-3])
