#!/bin/bash
# tools/test_seeded.sh <seeded-dir-name> ...   runs the property's quick check against each seeded change
cd /verif
for s in "$@"; do
  p=${s%%-*}
  echo "== $s $(date +%T)"
  out=$(timeout 3600 tools/with_mutation seeded/$s/patch.diff ./check $p 2>&1 | grep -E "^(OK|VIOLATION|KNOWN|  broken|patch)" | cut -c1-300)
  echo "$out"
  echo "$out" > seeded/$s/check_result.txt
done
echo SEEDDONE
