#!/bin/bash
# tools/test_seeded.sh <seeded-dir-name> ...   runs the property's quick check against each seeded change
cd /verif
for s in "$@"; do
  p=${s%%-*}
  echo "== $s $(date +%T)"
  out=$(timeout 3600 tools/mutcheck seeded/$s/patch.diff $p 2>&1 | grep -E "^(OK|VIOLATION|KNOWN|  broken|patch)" | cut -c1-300)
  echo "$out"
  echo "$out" > seeded/$s/check_result.txt
done
echo SEEDDONE
