"""C01 (component part; also the Reassembler half of C16) -- the stream reassembly buffer hands out exactly
the contiguous first-write-wins bytes, once, in order, and rejects exactly the contradictory writes."""
import itertools
import registry

VMAX = (1 << 62) - 1
U64 = (1 << 64) - 1
BOUNDS = [0, 4096, 65536, 262144, 1 << 20]
LENS = [0, 1, 1, 1, 2, 2, 3, 3, 4, 5, 8, 13, 30, 100, 255, 256, 257, 1000, 4095, 4096, 4097]
OPLEN = {0: 4, 1: 4, 2: 1, 3: 2, 4: 2, 5: 1, 6: 5}


def block(off):
    """allocation block [lo, hi) of an offset (reassembler.rs allocation_size / align_offset)"""
    size = 4096
    for pw in (4, 3, 2):
        mult = 1 << pw
        if off >= 4096 * mult * mult:
            size = 4096 * mult
            break
    lo = off // size * size
    return lo, lo + size


def clampv(v):
    return max(0, min(VMAX, v))


def gen_reasm(rng):
    salt = rng.randrange(1 << 32)
    nops = rng.choice([1, 2, 3, 4, 6, 8, 12, 16, 24, 40])
    big = rng.random() < 0.025                     # a minority of cases carries long writes
    conflicting = rng.random() < 0.04              # a minority rewrites ranges with different content
    r = rng.random()
    if r < 0.40:
        base = 0
    elif r < 0.90:
        base = rng.choice(BOUNDS[1:] + [8192, 12288, 65536 + 16384, 262144 + 32768, (1 << 20) + 65536, 3 << 20])
    elif r < 0.97:
        base = VMAX - rng.choice([0, 1, 2, 5, 100, 4096, 65535, 65536, 65537, 70000])
    else:
        base = rng.randrange(1 << 62)
    ops = []
    cur = 0                                        # what the generator believes has been consumed (approximate)
    points = [base]
    if base > 0 and rng.random() < 0.75:
        tgt = clampv(base - rng.choice([0, 0, 1, 2, 3, 7, 100, 1000, 4095, 4096, 4097, 5000]))
        if tgt > 0:
            ops += [4, tgt]
            cur = tgt
            points.append(tgt)
    hist = []
    hi = cur                                       # end of what was written contiguously (approximate)
    for _ in range(nops):
        r = rng.random()
        if hist and r < 0.07:
            ops += rng.choice(hist)                # exact duplicate of an earlier operation
            continue
        if r < 0.62:
            kind = 0 if rng.random() < 0.85 else (1 if rng.random() < 0.8 else 6)
            q = rng.random()
            if q < 0.30:
                off = hi + rng.choice([0, 0, 0, 1, 2, -1, -2, 3, 10])          # in order / small gap
            elif q < 0.45:
                off = cur + rng.choice([-2, -1, 0, 0, 1, 2])                   # around the start offset
            else:
                p = rng.choice(points)
                off = p + rng.choice([-2, -1, 0, 0, 1, 2, rng.randrange(-40, 40), rng.randrange(-300, 300), rng.randrange(-6000, 6000)])
            off = clampv(off)
            q = rng.random()
            if big and q < 0.15:
                ln = rng.choice([9000, 16384, 20000, 32768, 65535, 65536, 65537, 70000])
            elif q < 0.75:
                ln = rng.choice(LENS)
            elif q < 0.9:
                p = rng.choice(points)                                         # end exactly at/around a point
                ln = max(0, min(5000, p + rng.choice([-2, -1, 0, 0, 1, 2]) - off))
            else:
                ln = rng.randrange(0, rng.choice([20, 300, 300, 5000, 9000]))
            var = rng.randrange(4) if conflicting and rng.random() < 0.5 else 0
            o = [kind, off, ln, var]
            if kind == 6:
                o.append(rng.choice([0, 0, 1, 2, 100, 4096, rng.randrange(0, 70000)]))
            ops += o
            hist.append(o)
            e = clampv(off + ln)
            lo_b, hi_b = block(off)
            points += [off, e, hi_b, lo_b]
            points.append(block(e)[1])
            if off <= hi:
                hi = max(hi, e)
        elif r < 0.88:
            if rng.random() < 0.55:
                ops += [2]
            else:
                w = rng.choice([0, 1, 2, 3, 10, 100, 4095, 4096, 4097, U64, U64 - 1, rng.randrange(1, 10000), rng.randrange(1, 70000)])
                ops += [3, w]
            cur = max(cur, min(hi, cur + 4096))
        elif r < 0.97:
            q = rng.random()
            if q < 0.5:
                n = rng.choice([0, 1, 1, 2, 3, 10, 100, 4095, 4096, 4097, rng.randrange(0, 6000)])
            elif q < 0.85:
                n = max(0, rng.choice(points) + rng.choice([-2, -1, 0, 0, 1, 2]) - cur)
            elif q < 0.95:
                n = rng.choice([65535, 65536, 65537, 262144, 1 << 20, rng.randrange(1 << 22)])
            else:
                n = rng.choice([VMAX, VMAX - 1, VMAX - cur, max(0, VMAX - cur - 1), VMAX - cur + 1, rng.randrange(1 << 62)])
            n = clampv(n)
            o = [4, n]
            ops += o
            hist.append(o)
            if cur + n <= VMAX:
                cur += n
                hi = max(hi, cur)
                points.append(cur)
        else:
            ops += [5]
            cur = 0
            hi = 0
        if len(points) > 40:
            points = [base] + rng.sample(points, 20)
    return [salt] + ops


# ---- fixed families ---------------------------------------------------------------------------------
def small_alphabet():
    """operations over a small offset alphabet x 3 lengths"""
    ops = []
    for off in (0, 1, 3, 4095):
        for ln in (1, 2, 4):
            ops.append([0, off, ln, 0])
            ops.append([1, off, ln, 0])
    ops += [[2], [3, 1], [4, 2], [5]]
    return ops


def fixed_reasm(tier):
    out = []
    # boundary families: a write straddling each allocation boundary, by every small displacement
    for b in BOUNDS[1:] + [65536 + 16384, 1 << 21]:
        for d in (-2, -1, 0, 1, 2):
            for ln in (1, 2, 3, 5):
                out.append([b, 4, b + d - 3, 0, b + d, ln, 0, 0, b + d - 3, 3 + ln, 0, 2, 2, 2])
                out.append([b + 1, 0, b + d, ln, 0, 4, b - 1, 0, b - 1, 1 - d if d < 1 else 0, 0, 0, b - 1, 9, 0, 2, 2])
                out.append([b + 2, 4, b - 4, 1, b + d, ln, 0, 0, b - 4, 4 + d + ln, 0, 3, 3, 2, 2, 0, b, 1, 0])
    # final size rules
    for f in (0, 1, 5, 4096):
        for g in (f - 1, f, f + 1):
            if g >= 0:
                out.append([f, 1, 0, f, 0, 1, 0, g, 0, 0, 0, g, 0, 2, 2])
                out.append([f + 7, 0, 0, g, 0, 1, 0, f, 0, 2, 2])
                out.append([f + 9, 0, g, 0, 0, 1, 0, f, 0, 1, 0, f, 0, 2])
                out.append([f + 11, 1, 0, f, 0, 4, g, 2, 4, 1])
                out.append([f + 13, 6, 0, g, 0, 3, 0, 0, g + 3, 0, 0, 0, g + 4, 0, 2, 1, g, 3, 0, 2])
    # maximum stream offset
    for d in (0, 1, 2, 3):
        out.append([d, 0, VMAX - d, 1, 0, 0, VMAX - d, 2, 0, 0, VMAX - d, 0, 0, 4, VMAX - d, 4, 1, 0, VMAX - 1, 1, 0, 2, 1, VMAX, 0, 0])
        out.append([d + 4, 4, VMAX - 3, 0, VMAX - 3, d, 0, 2, 1, VMAX - 3 + d, 3 - d, 0, 2, 2, 4, 1])
        out.append([d + 8, 0, VMAX + d, 0, 0, 4, VMAX + d, 6, VMAX - 5, 2, 0, 3 + d, 0, VMAX - 3, 3 + d, 0])
    # all short sequences over the small alphabet
    alpha = small_alphabet()
    L = 3 if tier == "quick" else 4
    for n in range(1, L + 1):
        for t in itertools.product(alpha, repeat=n):
            c = [n]
            for o in t:
                c += o
            out.append(c)
    return out


def split_ops(case):
    ops, i = [], 1
    while i < len(case):
        n = OPLEN.get(case[i], 1)
        ops.append(case[i:i + n])
        i += n
    return ops


def valid_reasm(case):
    if not case or any(v < 0 or v > U64 for v in case):
        return False
    i = 1
    while i < len(case):
        n = OPLEN.get(case[i], 0)
        if n == 0 or i + n > len(case):
            return False
        i += n
    return True


def nontrivial_reasm(case, out):
    """non-trivial: some bytes were handed out, or a write/skip was rejected, or data waited behind a gap"""
    nops = len(split_ops(case))
    recs = [out[8 * k:8 * k + 8] for k in range(nops)]
    popped = any(o[0] in (2, 3) and r and r[0] > 0 for o, r in zip(split_ops(case), recs))
    rejected = any(o[0] in (0, 1, 4, 6) and r and r[0] != 0 for o, r in zip(split_ops(case), recs))
    return popped or rejected


def hist_reasm(cases, outs):
    h = {"ops": {}, "write_len": {"0": 0, "1-8": 0, "9-4096": 0, "4097-20000": 0, ">20000": 0}, "codes": {},
         "pops": {"none": 0, "some": 0}, "offset_region": {"<4096": 0, "<65536": 0, "<262144": 0, "<1MiB": 0, "<2^32": 0, ">=2^32": 0},
         "conflicting_content_cases": 0, "max_slots_at_end": 0}
    names = {0: "write_at", 1: "write_at_fin", 2: "pop", 3: "pop_watermarked", 4: "skip", 5: "reset", 6: "write_reader_fin_beyond"}
    for c, o in zip(cases, outs):
        if o.startswith("!"):
            continue
        vals = o.split()
        ops = split_ops(c)
        if any(x[0] in (0, 1, 6) and x[3] & 3 for x in ops):
            h["conflicting_content_cases"] += 1
        for k, x in enumerate(ops):
            nm = names.get(x[0], "reset")
            h["ops"][nm] = h["ops"].get(nm, 0) + 1
            r0 = vals[8 * k] if 8 * k < len(vals) else "?"
            if x[0] in (0, 1, 6):
                ln = x[2]
                b = "0" if ln == 0 else "1-8" if ln <= 8 else "9-4096" if ln <= 4096 else "4097-20000" if ln <= 20000 else ">20000"
                h["write_len"][b] += 1
                off = x[1]
                rg = "<4096" if off < 4096 else "<65536" if off < 65536 else "<262144" if off < 262144 else "<1MiB" if off < (1 << 20) else "<2^32" if off < (1 << 32) else ">=2^32"
                h["offset_region"][rg] += 1
                h["codes"]["write:" + r0] = h["codes"].get("write:" + r0, 0) + 1
            elif x[0] == 4:
                h["codes"]["skip:" + r0] = h["codes"].get("skip:" + r0, 0) + 1
            elif x[0] in (2, 3):
                h["pops"]["none" if r0 == "0" else "some"] += 1
        if len(vals) > 8 * len(ops):
            h["max_slots_at_end"] = max(h["max_slots_at_end"], int(vals[8 * len(ops)], 16))
    return h


registry.register("C01", {
    "gen": ["C01"],
    "props_file": "props/C01.v",
    "extract_target": "extract/Ex_C01.vo",
    "harness": "h_core",
    "axioms_allowed": [],
    "components": [
        {"name": "reasm", "gen": gen_reasm, "fixed": fixed_reasm, "quick": 12000, "thorough": 200000,
         "valid": valid_reasm, "nontrivial": nontrivial_reasm, "histogram": hist_reasm},
    ],
    "rule": "cases: corpus + boundary families (writes straddling 4096/65536/81920/262144/1MiB/2MiB by -2..2, final-size "
            "rules at f-1,f,f+1, the maximum offset 2^62-1 by 0..3) + all sequences of <= 3 (quick) / <= 4 (thorough) "
            "operations over {write_at,write_at_fin} x offsets {0,1,3,4095} x lengths {1,2,4} + pop, pop_watermarked(1), "
            "skip(2), reset + seeded random sequences of <= 40 operations with offsets within +-2 / +-40 / +-300 / +-6000 of "
            "allocation boundaries, of earlier write starts and ends, of slot ends and of the consumed offset, near 2^62-1, "
            "with duplicates, overlaps, conflicting FINs, 2.5% of the cases with writes of 9000..70000 bytes and 4% with "
            "overlapping writes of different content; payload = position-keyed 64-bit mix, compared in full (length + "
            "40-bit checksum of the recomputed content); a case is non-trivial when bytes were popped or an operation was rejected",
    "assumptions": [
        "offsets and skip lengths given to the buffer are VarInts (<= 2^62-1), as the type guarantees; a reader's final offset is not below its buffered end (Reader contract)",
        "BytesMut::with_capacity/split_off/unsplit/advance behave as byte vectors (memory safety and pointer identity of the unsafe blocks are not modelled)",
    ],
    "trusted_base": [],
    "explanation": "Coq theorems C01_* about the first-write-wins specification and the slot-list model of reassembler.rs; the model is tied to the "
                   "source by the generated allocation constants and by differential execution (every counter, every popped chunk, the slot layout), "
                   "the specification judges the implementation's outputs directly (any chunking of pops accepted)",
})
