//! C05 -- wire codecs: total, exact round trip, RFC 9000 layout.
//! Each component drives the real s2n-codec / s2n-quic-core entry points and prints a canonical
//! integer rendering; the Coq reference codec prints the same for the same case.
use h_common::{main_with, Cur, V};
use s2n_codec::{DecoderBuffer, Encoder, EncoderBuffer, EncoderValue};
use s2n_quic_core::varint::VarInt;

/// case = kind :: rest
/// kind 0: decode `rest` as bytes          -> [1, value, consumed] | [0]
/// kind _: VarInt::new(rest[0]) and encode -> [1, encoding_size, n, bytes.., n', bytes'..] | [0]
fn varint(input: &[V]) -> Vec<V> {
    let mut c = Cur::new(input);
    match c.next() {
        0 => {
            let bytes: Vec<u8> = input.iter().skip(1).map(|v| *v as u8).collect();
            let buf = DecoderBuffer::new(&bytes);
            match buf.decode::<VarInt>() {
                Ok((v, rest)) => vec![1, v.as_u64() as V, (bytes.len() - rest.len()) as V],
                Err(_) => vec![0],
            }
        }
        _ => {
            let v = c.u64();
            match VarInt::new(v) {
                Err(_) => vec![0],
                Ok(v) => {
                    let size = v.encoding_size();
                    let mut out = vec![1, size as V];
                    // roomy buffer: the 8-byte store path
                    let mut big = [0xAAu8; 24];
                    let mut e = EncoderBuffer::new(&mut big);
                    e.encode(&v);
                    let n = e.len();
                    out.push(n as V);
                    out.extend(big[..n].iter().map(|b| *b as V));
                    // exact-size buffer: the copy path
                    let mut small = vec![0x55u8; size];
                    let mut e = EncoderBuffer::new(&mut small);
                    e.encode(&v);
                    let n = e.len();
                    out.push(n as V);
                    out.extend(small[..n].iter().map(|b| *b as V));
                    out
                }
            }
        }
    }
}

fn main() {
    main_with(&[("varint", varint)]);
}
