//! C05 -- wire codecs: total, exact round trip, RFC 9000 layout.
//! Each component drives the real s2n-codec / s2n-quic-core entry points and prints a canonical
//! integer rendering; the Coq reference codec prints the same for the same case.
use h_common::{main_with, Cur, V};
use s2n_codec::{DecoderBuffer, DecoderBufferMut, Encoder, EncoderBuffer, EncoderValue};
use s2n_quic_core::{
    connection::id::ConnectionInfo,
    frame::{Frame, FrameMut},
    inet::SocketAddress,
    packet::{number::PacketNumberSpace, ProtectedPacket},
    transport::parameters::{ClientTransportParameters, ServerTransportParameters},
    stream::StreamType,
    varint::VarInt,
};

/// case = kind :: rest
/// kind 0: decode `rest` as bytes          -> [1, value, consumed] | [0]
/// kind 2: placeholder, replacement -> [n, bytes..] of encode_updated | [0]
/// kind _: VarInt::new(rest[0]) and encode -> [1, encoding_size, n, bytes.., n', bytes'..] | [0]
fn varint(input: &[V]) -> Vec<V> {
    let mut c = Cur::new(input);
    match c.next() {
        0 => {
            let bytes: Vec<u8> = input.iter().skip(1).map(|v| *v as u8).collect();
            let buf = DecoderBuffer::new(&bytes);
            match buf.decode::<VarInt>() {
                Ok((v, rest)) => vec![1, v.as_u64() as V, (bytes.len() - rest.len()) as V],
                Err(_) => vec![0],
            }
        }
        2 => {
            // encode_updated: a placeholder's length, the replacement's value (packet Length field)
            let p = c.u64();
            let r = c.u64();
            match (VarInt::new(p), VarInt::new(r)) {
                (Ok(p), Ok(r)) if r <= p => {
                    let mut buf = [0x5Au8; 8];
                    let mut e = EncoderBuffer::new(&mut buf);
                    p.encode_updated(r, &mut e);
                    let n = e.len();
                    let mut out = vec![n as V];
                    out.extend(buf[..n].iter().map(|b| *b as V));
                    out
                }
                _ => vec![0],
            }
        }
        _ => {
            let v = c.u64();
            match VarInt::new(v) {
                Err(_) => vec![0],
                Ok(v) => {
                    let size = v.encoding_size();
                    let mut out = vec![1, size as V];
                    // roomy buffer: the 8-byte store path
                    let mut big = [0xAAu8; 24];
                    let mut e = EncoderBuffer::new(&mut big);
                    e.encode(&v);
                    let n = e.len();
                    out.push(n as V);
                    out.extend(big[..n].iter().map(|b| *b as V));
                    // exact-size buffer: the copy path
                    let mut small = vec![0x55u8; size];
                    let mut e = EncoderBuffer::new(&mut small);
                    e.encode(&v);
                    let n = e.len();
                    out.push(n as V);
                    out.extend(small[..n].iter().map(|b| *b as V));
                    out
                }
            }
        }
    }
}

fn push_data(out: &mut Vec<V>, d: &[u8]) {
    out.push(d.len() as V);
    out.extend(d.iter().map(|b| *b as V));
}

fn push_bytes(out: &mut Vec<V>, d: &[u8]) {
    out.extend(d.iter().map(|b| *b as V));
}

/// canonical integer rendering of a decoded frame (same layout as Frame.render in the model)
fn render(f: FrameMut) -> Vec<V> {
    let mut o: Vec<V> = vec![];
    match f {
        Frame::Padding(p) => {
            o.push(0);
            o.push(p.length as V);
        }
        Frame::Ping(_) => o.push(1),
        Frame::Ack(a) => {
            o.push(if a.ecn_counts.is_some() { 3 } else { 2 });
            o.push(a.ack_delay.as_u64() as V);
            let it = a.ack_ranges();
            o.push(it.len() as V);
            for r in it {
                o.push(r.start().as_u64() as V);
                o.push(r.end().as_u64() as V);
            }
            if let Some(e) = a.ecn_counts {
                o.push(e.ect_0_count.as_u64() as V);
                o.push(e.ect_1_count.as_u64() as V);
                o.push(e.ce_count.as_u64() as V);
            }
        }
        Frame::ResetStream(r) => {
            o.extend([4, r.stream_id.as_u64() as V, r.application_error_code.as_u64() as V, r.final_size.as_u64() as V]);
        }
        Frame::StopSending(r) => {
            o.extend([5, r.stream_id.as_u64() as V, r.application_error_code.as_u64() as V]);
        }
        Frame::Crypto(c) => {
            o.extend([6, c.offset.as_u64() as V]);
            push_data(&mut o, c.data.as_less_safe_slice());
        }
        Frame::NewToken(t) => {
            o.push(7);
            push_data(&mut o, t.token);
        }
        Frame::Stream(s) => {
            o.extend([8, s.stream_id.as_u64() as V, s.offset.as_u64() as V, s.is_last_frame as V, s.is_fin as V]);
            push_data(&mut o, s.data.as_less_safe_slice());
        }
        Frame::MaxData(m) => o.extend([16, m.maximum_data.as_u64() as V]),
        Frame::MaxStreamData(m) => o.extend([17, m.stream_id.as_u64() as V, m.maximum_stream_data.as_u64() as V]),
        Frame::MaxStreams(m) => o.extend([18, (m.stream_type == StreamType::Unidirectional) as V, m.maximum_streams.as_u64() as V]),
        Frame::DataBlocked(m) => o.extend([20, m.data_limit.as_u64() as V]),
        Frame::StreamDataBlocked(m) => o.extend([21, m.stream_id.as_u64() as V, m.stream_data_limit.as_u64() as V]),
        Frame::StreamsBlocked(m) => o.extend([22, (m.stream_type == StreamType::Unidirectional) as V, m.stream_limit.as_u64() as V]),
        Frame::NewConnectionId(n) => {
            o.extend([24, n.sequence_number.as_u64() as V, n.retire_prior_to.as_u64() as V]);
            push_data(&mut o, n.connection_id);
            push_bytes(&mut o, &n.stateless_reset_token[..]);
        }
        Frame::RetireConnectionId(r) => o.extend([25, r.sequence_number.as_u64() as V]),
        Frame::PathChallenge(p) => {
            o.push(26);
            push_bytes(&mut o, &p.data[..]);
        }
        Frame::PathResponse(p) => {
            o.push(27);
            push_bytes(&mut o, &p.data[..]);
        }
        Frame::ConnectionClose(c) => {
            match c.frame_type {
                Some(ft) => o.extend([28, c.error_code.as_u64() as V, ft.as_u64() as V]),
                None => o.extend([29, c.error_code.as_u64() as V]),
            }
            push_data(&mut o, c.reason.unwrap_or(&[]));
        }
        Frame::HandshakeDone(_) => o.push(30),
        Frame::Datagram(d) => {
            o.extend([48, d.is_last_frame as V]);
            push_data(&mut o, d.data.as_less_safe_slice());
        }
        Frame::DcStatelessResetTokens(t) => {
            o.push(0xdc0000);
            let mut bytes = vec![];
            for tok in t.into_iter() {
                bytes.extend_from_slice(tok.as_ref());
            }
            push_data(&mut o, &bytes);
        }
        Frame::MtuProbingComplete(m) => o.extend([0xdc0002, m.mtu as V]),
    }
    o
}

/// case = selector :: payload bytes.  The payload is decoded frame by frame as a packet payload
/// is (DecoderBufferMut::decode::<FrameMut>() until empty).  Per frame:
/// 1, rendering, consumed, encoding_size(), bytes written, re-encoded bytes, re-decodes-equal.
/// End marker: 2 = exhausted, 0 = decode error.
fn frames(input: &[V]) -> Vec<V> {
    let mut bytes: Vec<u8> = input.iter().skip(1).map(|v| *v as u8).collect();
    let total = bytes.len();
    let mut out = vec![];
    let mut buffer = DecoderBufferMut::new(&mut bytes);
    let mut budget = total + 1;
    loop {
        if buffer.is_empty() {
            out.push(2);
            break;
        }
        if budget == 0 {
            out.push(-8); // more frames than bytes: a decoder that makes no progress
            break;
        }
        budget -= 1;
        let before = buffer.len();
        match buffer.decode::<FrameMut>() {
            Err(_) => {
                out.push(0);
                break;
            }
            Ok((frame, rest)) => {
                out.push(1);
                let size = frame.encoding_size();
                let mut enc = vec![0xA5u8; size + 16];
                let written = {
                    let mut e = EncoderBuffer::new(&mut enc);
                    e.encode(&frame);
                    e.len()
                };
                let r = render(frame);
                out.extend(r.iter().copied());
                out.push((before - rest.len()) as V);
                out.push(size as V);
                out.push(written as V);
                enc.truncate(written);
                push_bytes(&mut out, &enc);
                // what the encoder emitted decodes back to the same value and nothing is left
                let mut again = enc.clone();
                let same = match DecoderBufferMut::new(&mut again).decode::<FrameMut>() {
                    Ok((f2, rest2)) => rest2.is_empty() && render(f2) == r,
                    Err(_) => false,
                };
                out.push(same as V);
                buffer = rest;
            }
        }
    }
    out
}

/// case = short_dcid_len :: datagram bytes.  ProtectedPacket::decode until the datagram is
/// exhausted.  Per packet: 1, kind, first byte, version, dcid, scid, token-ish, consumed.
fn packets(input: &[V]) -> Vec<V> {
    let dcid_len = input.first().copied().unwrap_or(0) as usize;
    let mut bytes: Vec<u8> = input.iter().skip(1).map(|v| *v as u8).collect();
    let copy = bytes.clone();
    let total = bytes.len();
    let remote = SocketAddress::default();
    let info = ConnectionInfo::new(&remote);
    let mut out = vec![];
    let mut buffer = DecoderBufferMut::new(&mut bytes);
    let mut budget = total + 1;
    loop {
        if buffer.is_empty() {
            out.push(2);
            break;
        }
        if budget == 0 {
            out.push(-8);
            break;
        }
        budget -= 1;
        let before = buffer.len();
        let first = copy[total - before] as V;
        match ProtectedPacket::decode(buffer, &info, &dcid_len) {
            Err(_) => {
                out.push(0);
                break;
            }
            Ok((packet, rest)) => {
                out.push(1);
                let consumed = before - rest.len();
                match &packet {
                    ProtectedPacket::Short(p) => {
                        out.extend([0, first, 0]);
                        push_data(&mut out, p.destination_connection_id());
                        out.extend([0, 0]);
                        assert_eq!(p.payload.len(), consumed, "payload covers the packet");
                    }
                    ProtectedPacket::VersionNegotiation(p) => {
                        out.extend([1, p.tag as V, 0]);
                        push_data(&mut out, p.destination_connection_id());
                        push_data(&mut out, p.source_connection_id());
                        push_data(&mut out, p.supported_versions);
                        // the iterator yields exactly the listed versions
                        let vs: Vec<u32> = p.iter().collect();
                        assert_eq!(vs.len() * 4, p.supported_versions.len(), "version iterator");
                    }
                    ProtectedPacket::Initial(p) => {
                        out.extend([2, first, p.version as V]);
                        push_data(&mut out, p.destination_connection_id());
                        push_data(&mut out, p.source_connection_id());
                        push_data(&mut out, p.token());
                        assert_eq!(p.payload.len(), consumed, "payload covers the packet");
                    }
                    ProtectedPacket::ZeroRtt(p) => {
                        out.extend([3, first, p.version as V]);
                        push_data(&mut out, p.destination_connection_id());
                        push_data(&mut out, p.source_connection_id());
                        out.push(0);
                        assert_eq!(p.payload.len(), consumed, "payload covers the packet");
                    }
                    ProtectedPacket::Handshake(p) => {
                        out.extend([4, first, p.version as V]);
                        push_data(&mut out, p.destination_connection_id());
                        push_data(&mut out, p.source_connection_id());
                        out.push(0);
                        assert_eq!(p.payload.len(), consumed, "payload covers the packet");
                    }
                    ProtectedPacket::Retry(p) => {
                        out.extend([5, p.tag as V, p.version as V]);
                        push_data(&mut out, p.destination_connection_id());
                        push_data(&mut out, p.source_connection_id());
                        push_data(&mut out, p.retry_token());
                        push_bytes(&mut out, &p.retry_integrity_tag[..]);
                    }
                }
                out.push(consumed as V);
                buffer = rest;
            }
        }
    }
    out
}

/// case = [largest acknowledged, packet number] (both < 2^62)
/// -> 1, announced length, tag bits, bytes, re-decodes-equal, expands-back | 0
fn pn(input: &[V]) -> Vec<V> {
    let mut c = Cur::new(input);
    let largest = VarInt::new(c.u64()).expect("generator keeps values below 2^62");
    let value = VarInt::new(c.u64()).expect("generator keeps values below 2^62");
    let space = PacketNumberSpace::ApplicationData;
    let largest = space.new_packet_number(largest);
    let pn = space.new_packet_number(value);
    match pn.truncate(largest) {
        None => vec![0],
        Some(t) => {
            let len = t.len();
            let mut out = vec![1, len.bytesize() as V, len.into_packet_tag_mask() as V];
            let size = t.encoding_size();
            let mut buf = [0u8; 16];
            let mut e = EncoderBuffer::new(&mut buf);
            e.encode(&t);
            let n = e.len();
            assert_eq!(n, size, "announced size");
            push_bytes(&mut out, &buf[..n]);
            // the length recovered from the tag bits reads the same truncated value back
            let len2 = space.new_packet_number_len(len.into_packet_tag_mask() | 0xfc);
            let same = match len2.decode_truncated_packet_number(DecoderBuffer::new(&buf[..n])) {
                Ok((t2, rest)) => rest.is_empty() && t2 == t && len2 == len,
                Err(_) => false,
            };
            out.push(same as V);
            out.push((t.expand(largest) == pn) as V);
            out
        }
    }
}

/// decode a transport parameter block as the TLS extension payload of a client (0) or server (1):
/// 1 = accepted (and nothing left over), 0 = decode error
fn tp_decode(side: V, bytes: &[u8]) -> V {
    let buf = DecoderBuffer::new(bytes);
    let r = if side == 0 {
        buf.decode::<ClientTransportParameters>().map(|(_, rest)| rest.is_empty())
    } else {
        buf.decode::<ServerTransportParameters>().map(|(_, rest)| rest.is_empty())
    };
    match r {
        Ok(true) => 1,
        Ok(false) => -1,
        Err(_) => 0,
    }
}

/// case = side :: block bytes (unknown ids only: pure grammar)
fn tparams(input: &[V]) -> Vec<V> {
    let bytes: Vec<u8> = input.iter().skip(1).map(|v| *v as u8).collect();
    vec![tp_decode(input.first().copied().unwrap_or(0) & 1, &bytes)]
}

/// case = side :: arbitrary bytes; only totality is judged (a panic is the violation)
fn tparams_total(input: &[V]) -> Vec<V> {
    let bytes: Vec<u8> = input.iter().skip(1).map(|v| *v as u8).collect();
    vec![tp_decode(input.first().copied().unwrap_or(0) & 1, &bytes)]
}

/// identity "AEAD" without tag, so that the real encrypt/protect/unprotect/decrypt pipeline can be
/// run on hand-built 1-RTT packets
struct NullKey;
impl s2n_quic_core::crypto::Key for NullKey {
    fn decrypt(&self, _pn: u64, _h: &[u8], _p: &mut [u8]) -> Result<(), s2n_quic_core::crypto::packet_protection::Error> {
        Ok(())
    }
    fn encrypt(
        &mut self,
        _pn: u64,
        _h: &[u8],
        p: &mut s2n_quic_core::crypto::scatter::Buffer,
    ) -> Result<(), s2n_quic_core::crypto::packet_protection::Error> {
        p.flatten();
        Ok(())
    }
    fn tag_len(&self) -> usize {
        0
    }
    fn aead_confidentiality_limit(&self) -> u64 {
        u64::MAX
    }
    fn aead_integrity_limit(&self) -> u64 {
        u64::MAX
    }
    fn cipher_suite(&self) -> s2n_quic_core::crypto::tls::CipherSuite {
        s2n_quic_core::crypto::tls::CipherSuite::Unknown
    }
}
impl s2n_quic_core::crypto::OneRttKey for NullKey {
    fn derive_next_key(&self) -> Self {
        NullKey
    }
}

/// header key with a sample-dependent mask (all five mask bytes vary with the packet)
struct XorHeaderKey;
impl XorHeaderKey {
    fn mask(s: &[u8]) -> s2n_quic_core::crypto::HeaderProtectionMask {
        let mut r = [0x5Au8, 0xC3, 0x3C, 0x96, 0x69];
        for (i, b) in s.iter().enumerate() {
            r[i % 5] ^= b.rotate_left((i % 7) as u32);
        }
        r
    }
}
impl s2n_quic_core::crypto::HeaderKey for XorHeaderKey {
    fn opening_header_protection_mask(&self, s: &[u8]) -> s2n_quic_core::crypto::HeaderProtectionMask {
        Self::mask(s)
    }
    fn opening_sample_len(&self) -> usize {
        16
    }
    fn sealing_header_protection_mask(&self, s: &[u8]) -> s2n_quic_core::crypto::HeaderProtectionMask {
        Self::mask(s)
    }
    fn sealing_sample_len(&self) -> usize {
        16
    }
}
impl s2n_quic_core::crypto::OneRttHeaderKey for XorHeaderKey {}

const SB_DCID: [u8; 8] = [0xD0, 0xD1, 0xD2, 0xD3, 0xD4, 0xD5, 0xD6, 0xD7];

/// cleartext 1-RTT packet -> real encrypt (identity) + protect -> ProtectedPacket::decode ->
/// ProtectedShort::unprotect -> EncryptedShort::decrypt.
/// 0, key phase, spin, pn length, packet number | 1 decode | 2 unprotect | 3 connection error
/// (PROTOCOL_VIOLATION: reserved bits) | 4 decrypt error
fn sb_receive(mut packet: Vec<u8>) -> Vec<V> {
    use s2n_quic_core::{connection::ProcessingError, crypto, packet::short::SpinBit, packet::KeyPhase};
    let space = PacketNumberSpace::ApplicationData;
    let hlen = 1 + SB_DCID.len();
    let n = packet.len();
    let pn_len = space.new_packet_number_len(packet[0]);
    let wire_pn_len = pn_len.bytesize();
    {
        let mut e = EncoderBuffer::new(&mut packet);
        e.set_position(n);
        let zero = space.new_packet_number(VarInt::from_u8(0));
        let (enc, _rest) = crypto::encrypt(&mut NullKey, zero, pn_len, hlen, crypto::scatter::Buffer::new(e))
            .expect("identity encryption");
        crypto::protect(&XorHeaderKey, enc).expect("sample present");
    }
    let remote = SocketAddress::default();
    let info = ConnectionInfo::new(&remote);
    let dcid_len = SB_DCID.len();
    let short = match ProtectedPacket::decode(DecoderBufferMut::new(&mut packet), &info, &dcid_len) {
        Ok((ProtectedPacket::Short(s), _)) => s,
        _ => return vec![1],
    };
    let largest = space.new_packet_number(VarInt::from_u8(0));
    let enc = match short.unprotect(&XorHeaderKey, largest) {
        Ok(e) => e,
        Err(_) => return vec![2],
    };
    let kp = enc.key_phase();
    match enc.decrypt(&NullKey) {
        Ok(clear) => {
            assert_eq!(clear.destination_connection_id(), &SB_DCID[..], "dcid");
            assert_eq!(clear.key_phase, kp, "key phase");
            vec![
                0,
                (clear.key_phase == KeyPhase::One) as V,
                (clear.spin_bit == SpinBit::One) as V,
                wire_pn_len as V,
                clear.packet_number.as_u64() as V,
            ]
        }
        Err(ProcessingError::ConnectionError(_)) => vec![3],
        Err(_) => vec![4],
    }
}

/// case = 0, first byte (low 6 bits), pn        -> hand-built packet through the receive path
/// case = 1, spin, key phase, pn length selector -> the crate's own Short encoder, then the same path
fn shortbits(input: &[V]) -> Vec<V> {
    use s2n_quic_core::packet::{
        short::{Short, SpinBit},
        KeyPhase,
    };
    let mut c = Cur::new(input);
    let kind = c.next();
    let space = PacketNumberSpace::ApplicationData;
    let payload = [0xEEu8; 24];
    if kind == 0 {
        let first = 0x40 | (c.u64() as u8 & 0x3f);
        let pn = c.u64();
        let n = (first & 3) as usize + 1;
        let mut packet = vec![first];
        packet.extend_from_slice(&SB_DCID);
        packet.extend((0..n).map(|i| (pn >> (8 * (n - 1 - i))) as u8));
        packet.extend_from_slice(&payload);
        sb_receive(packet)
    } else {
        let spin = if c.next() != 0 { SpinBit::One } else { SpinBit::Zero };
        let key_phase = if c.next() != 0 { KeyPhase::One } else { KeyPhase::Zero };
        let pn = [1u32, 200, 40_000, 10_000_000][(c.u64() % 4) as usize];
        let largest = space.new_packet_number(VarInt::from_u8(0));
        let tpn = space
            .new_packet_number(VarInt::from_u32(pn))
            .truncate(largest)
            .expect("pn above largest");
        let short = Short {
            spin_bit: spin,
            key_phase,
            destination_connection_id: &SB_DCID[..],
            packet_number: tpn,
            payload: &payload[..],
        };
        let mut buf = vec![0u8; 64];
        let written = {
            let mut e = EncoderBuffer::new(&mut buf);
            e.encode(&short);
            e.len()
        };
        buf.truncate(written);
        let mut out = vec![buf[0] as V];
        out.extend(sb_receive(buf));
        out
    }
}

/// a payload of `n` zero bytes that is never materialized unless it is encoded into a real buffer
struct Zeros(usize);

impl EncoderValue for Zeros {
    fn encode<E: Encoder>(&self, encoder: &mut E) {
        encoder.write_repeated(self.0, 0)
    }
}

/// encoding_size() of the fitted frame and, for frames up to 100000 bytes, the bytes really written
fn sizes<T: EncoderValue>(frame: &T) -> (V, V) {
    let size = frame.encoding_size();
    if size <= 100_000 {
        let mut buf = vec![0xA5u8; size + 16];
        let mut e = EncoderBuffer::new(&mut buf);
        e.encode(frame);
        (size as V, e.len() as V)
    } else {
        (size as V, -1)
    }
}

/// case = kind (0 stream / 1 crypto), stream id, offset, data length, fin, capacity
/// -> [1, payload length, is_last_frame, encoding_size(), bytes written | -1] | [0] (FitError)
fn fit(input: &[V]) -> Vec<V> {
    let mut c = Cur::new(input);
    let kind = c.next();
    let vi = |v: u64| VarInt::new(v).expect("generator keeps values below 2^62");
    let id = vi(c.u64());
    let off = vi(c.u64());
    let dlen = c.usize();
    let fin = c.next() != 0;
    let cap = c.usize();
    if kind == 0 {
        let mut frame = s2n_quic_core::frame::Stream {
            stream_id: id,
            offset: off,
            is_last_frame: false,
            is_fin: false,
            data: Zeros(dlen),
        };
        match frame.try_fit(cap) {
            Err(_) => vec![0],
            Ok(len) => {
                frame.data = Zeros(len);
                frame.is_fin = fin;
                let (size, written) = sizes(&frame);
                vec![1, len as V, frame.is_last_frame as V, size, written]
            }
        }
    } else {
        let mut frame = s2n_quic_core::frame::Crypto {
            offset: off,
            data: Zeros(dlen),
        };
        match frame.try_fit(cap) {
            Err(_) => vec![0],
            Ok(len) => {
                frame.data = Zeros(len);
                let (size, written) = sizes(&frame);
                vec![1, len as V, 0, size, written]
            }
        }
    }
}

/// packet number reconstruction through the wire bytes.
/// case = 0, largest received, tag bits, truncated value -> [expanded]
/// case = 1, largest acked, pn, largest received          -> [1, n, expanded] | [0]
fn pnx(input: &[V]) -> Vec<V> {
    let mut c = Cur::new(input);
    let kind = c.next();
    let space = PacketNumberSpace::ApplicationData;
    let vi = |v: u64| VarInt::new(v).expect("generator keeps values below 2^62");
    if kind == 0 {
        let largest = space.new_packet_number(vi(c.u64()));
        let tag = (c.u64() & 3) as u8;
        let t = c.u64();
        let n = tag as usize + 1;
        let bytes: Vec<u8> = (0..n).map(|i| (t >> (8 * (n - 1 - i))) as u8).collect();
        let len = space.new_packet_number_len(tag);
        let (tpn, rest) = len
            .decode_truncated_packet_number(DecoderBuffer::new(&bytes))
            .expect("n bytes are present");
        assert!(rest.is_empty());
        vec![tpn.expand(largest).as_u64() as V]
    } else {
        let la = space.new_packet_number(vi(c.u64()));
        let pn = space.new_packet_number(vi(c.u64()));
        let largest = space.new_packet_number(vi(c.u64()));
        match pn.truncate(la) {
            None => vec![0],
            Some(t) => {
                let mut buf = [0u8; 8];
                let mut e = EncoderBuffer::new(&mut buf);
                e.encode(&t);
                let n = e.len();
                let len = space.new_packet_number_len(t.len().into_packet_tag_mask());
                let (t2, _) = len
                    .decode_truncated_packet_number(DecoderBuffer::new(&buf[..n]))
                    .expect("the encoder's bytes decode");
                vec![1, n as V, t2.expand(largest).as_u64() as V]
            }
        }
    }
}

fn main() {
    main_with(&[
        ("varint", varint),
        ("frames", frames),
        ("packets", packets),
        ("pn", pn),
        ("tparams", tparams),
        ("tparams_total", tparams_total),
        ("pnx", pnx),
        ("fit", fit),
        ("shortbits", shortbits),
    ]);
}
