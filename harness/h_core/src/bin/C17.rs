//! C17 -- spsc channel (and AtomicWaker) driven single-threaded under a schedule taken from the case,
//! one public call sequence per scheduled step; plus a real-thread stress component.
use h_common::{main_with, Cur, V};
use s2n_quic_core::sync::{cursor, spsc, worker};
use std::{
    sync::{
        atomic::{AtomicBool, AtomicU64, AtomicUsize, Ordering},
        Arc,
    },
    task::{Context, Poll, Wake, Waker},
};

/// a waker that counts how often it is invoked
struct CountWaker(AtomicUsize);
impl Wake for CountWaker {
    fn wake(self: Arc<Self>) {
        self.0.fetch_add(1, Ordering::SeqCst);
    }
    fn wake_by_ref(self: &Arc<Self>) {
        self.0.fetch_add(1, Ordering::SeqCst);
    }
}

/// an item that records its own destruction unless the harness took it out of the channel itself
struct Item {
    v: u64,
    silent: AtomicBool,
    log: Arc<std::sync::Mutex<Vec<u64>>>,
}
impl Drop for Item {
    fn drop(&mut self) {
        if !self.silent.load(Ordering::SeqCst) {
            self.log.lock().unwrap().push(self.v);
        }
    }
}

const MAX_K: usize = 200;

/// The sender task: owns the Sender; its waker counts invocations and, in inline mode, polls the
/// sender from inside `wake()` (what a second thread scheduled at that instant would do).
struct SenderTask {
    sender: std::sync::Mutex<Option<spsc::Sender<Item>>>,
    count: AtomicUsize,
    inline: AtomicBool,
    /// (number of inline polls, last code, wake count at the last one) since the last reset
    inl: std::sync::Mutex<(V, V, V)>,
}
impl SenderTask {
    fn poll_inline(self: &Arc<Self>) {
        // the lock is free: the sender's waker is only invoked from receiver-side operations
        let Ok(mut guard) = self.sender.try_lock() else { return };
        let Some(sender) = guard.as_mut() else { return };
        let waker = Waker::from(self.clone());
        let code = match sender.poll_slice(&mut Context::from_waker(&waker)) {
            Poll::Ready(Ok(_slice)) => 0,
            Poll::Pending => 3,
            Poll::Ready(Err(_)) => 4,
        };
        let mut inl = self.inl.lock().unwrap();
        inl.0 += 1;
        inl.1 = code;
        inl.2 = self.count.load(Ordering::SeqCst) as V;
    }
}
impl Wake for SenderTask {
    fn wake(self: Arc<Self>) {
        self.count.fetch_add(1, Ordering::SeqCst);
        if self.inline.load(Ordering::SeqCst) {
            self.poll_inline();
        }
    }
}

/// case = [capacity; (op, arg)*]; see coq/model/Spsc.v `run` for the protocol
fn spsc(input: &[V]) -> Vec<V> {
    let mut c = Cur::new(input);
    let capacity = c.next().clamp(0, 128) as usize;
    let (send, recv) = spsc::channel::<Item>(capacity);
    let task = Arc::new(SenderTask {
        sender: std::sync::Mutex::new(Some(send)),
        count: AtomicUsize::new(0),
        inline: AtomicBool::new(false),
        inl: std::sync::Mutex::new((0, 0, 0)),
    });
    let mut recv = Some(recv);
    let rcount = Arc::new(CountWaker(AtomicUsize::new(0)));
    let rwaker = Waker::from(rcount.clone());
    let swaker = Waker::from(task.clone());
    let log = Arc::new(std::sync::Mutex::new(Vec::new()));
    let mut next: u64 = 1;
    let mut out: Vec<V> = vec![];

    while !c.done() {
        let op = c.next();
        let arg = c.next();
        let k = (arg.clamp(0, MAX_K as V)) as usize;
        let mut code: V = 0;
        let mut vals: Vec<V> = vec![];
        let inline_now = task.inline.load(Ordering::SeqCst);
        *task.inl.lock().unwrap() = (0, 0, 0);
        match op {
            0 | 1 => {
                let mut guard = task.sender.lock().unwrap();
                if let Some(s) = guard.as_mut() {
                    let slice = if op == 0 {
                        match s.try_slice() {
                            Ok(Some(sl)) => Some(sl),
                            Ok(None) => {
                                code = 3;
                                None
                            }
                            Err(_) => {
                                code = 4;
                                None
                            }
                        }
                    } else {
                        match s.poll_slice(&mut Context::from_waker(&swaker)) {
                            Poll::Ready(Ok(sl)) => Some(sl),
                            Poll::Pending => {
                                code = 3;
                                None
                            }
                            Poll::Ready(Err(_)) => {
                                code = 4;
                                None
                            }
                        }
                    };
                    if let Some(mut sl) = slice {
                        for _ in 0..k {
                            let item = Item { v: next, silent: AtomicBool::new(false), log: log.clone() };
                            match sl.push(item) {
                                Ok(()) => {
                                    vals.push(next as V);
                                    next += 1;
                                }
                                Err(spsc::PushError::Full(item)) => {
                                    item.silent.store(true, Ordering::SeqCst);
                                    code = 1;
                                    break;
                                }
                                Err(spsc::PushError::Closed) => {
                                    code = 2;
                                    break;
                                }
                            }
                        }
                    }
                } else {
                    code = 9;
                }
            }
            4 => {
                let taken = task.sender.lock().unwrap().take();
                if taken.is_none() {
                    code = 9;
                }
                drop(taken);
            }
            2 | 3 => {
                if let Some(r) = recv.as_mut() {
                    let slice = if op == 2 {
                        match r.try_slice() {
                            Ok(Some(sl)) => Some(sl),
                            Ok(None) => {
                                code = 3;
                                None
                            }
                            Err(_) => {
                                code = 4;
                                None
                            }
                        }
                    } else {
                        match r.poll_slice(&mut Context::from_waker(&rwaker)) {
                            Poll::Ready(Ok(sl)) => Some(sl),
                            Poll::Pending => {
                                code = 3;
                                None
                            }
                            Poll::Ready(Err(_)) => {
                                code = 4;
                                None
                            }
                        }
                    };
                    if let Some(mut sl) = slice {
                        for _ in 0..k {
                            match sl.pop() {
                                Some(item) => {
                                    item.silent.store(true, Ordering::SeqCst);
                                    vals.push(item.v as V);
                                }
                                None => {
                                    code = 1;
                                    break;
                                }
                            }
                        }
                    }
                } else {
                    code = 9;
                }
            }
            5 => {
                if recv.take().is_none() {
                    code = 9;
                }
            }
            _ => {
                // op 6: switch the sender task's waker to inline polling / back to counting
                task.inline.store(arg != 0, Ordering::SeqCst);
            }
        }
        out.push(code);
        out.push(vals.len() as V);
        out.extend(vals);
        out.push(rcount.0.load(Ordering::SeqCst) as V);
        out.push(task.count.load(Ordering::SeqCst) as V);
        if inline_now && matches!(op, 2 | 3 | 5) {
            let inl = *task.inl.lock().unwrap();
            out.push(inl.0);
            out.push(inl.1);
            out.push(inl.2);
        }
    }
    task.inline.store(false, Ordering::SeqCst);
    let send = task.sender.lock().unwrap().take();
    drop(send);
    drop(recv);
    // items that never entered the channel (push on a closed channel drops its argument) carry a
    // sequence number that was not consumed
    let freed: Vec<u64> = log.lock().unwrap().iter().copied().filter(|v| *v < next).collect();
    out.push(-1);
    out.push(freed.len() as V);
    out.extend(freed.iter().map(|v| *v as V));
    out.push(rcount.0.load(Ordering::SeqCst) as V);
    out.push(task.count.load(Ordering::SeqCst) as V);
    out
}

/// real threads (supporting evidence only): input = [capacity, n, seed, mode]
/// mode bit 0: the consumer parks on its waker (thread::park based) instead of spinning;
/// mode bit 1: the producer does. The producer pushes 0..n in random batches and drops its side.
/// output = [received count, 1 if received in order without gaps, 1 if no hang (watchdog 20 s)]
fn spsc_mt(input: &[V]) -> Vec<V> {
    let mut c = Cur::new(input);
    let capacity = c.next().clamp(0, 1 << 16) as usize;
    let n = c.next().clamp(0, 5_000_000) as u64;
    let seed = c.u64();
    let mode = c.next();
    let (mut send, mut recv) = spsc::channel::<u64>(capacity);
    let received = Arc::new(AtomicU64::new(0));
    let in_order = Arc::new(AtomicBool::new(true));
    let finished = Arc::new(AtomicUsize::new(0));

    struct ThreadWaker(std::thread::Thread);
    impl Wake for ThreadWaker {
        fn wake(self: Arc<Self>) {
            self.0.unpark();
        }
    }
    fn rng(state: &mut u64) -> u64 {
        // xorshift64*
        *state ^= *state >> 12;
        *state ^= *state << 25;
        *state ^= *state >> 27;
        state.wrapping_mul(0x2545F4914F6CDD1D)
    }

    let fin = finished.clone();
    let park_tx = mode & 2 != 0;
    let producer = std::thread::spawn(move || {
        let waker = Waker::from(Arc::new(ThreadWaker(std::thread::current())));
        let mut st = seed | 1;
        let mut value = 0u64;
        'outer: while value < n {
            let batch = 1 + rng(&mut st) % 17;
            let slice = if park_tx {
                match send.poll_slice(&mut Context::from_waker(&waker)) {
                    Poll::Ready(Ok(sl)) => Some(sl),
                    Poll::Ready(Err(_)) => break 'outer,
                    Poll::Pending => {
                        // a lost wake-up shows as a hang here (bounded by the watchdog via timeout)
                        std::thread::park_timeout(std::time::Duration::from_secs(30));
                        None
                    }
                }
            } else {
                match send.try_slice() {
                    Ok(Some(sl)) => Some(sl),
                    Ok(None) => {
                        std::hint::spin_loop();
                        None
                    }
                    Err(_) => break 'outer,
                }
            };
            if let Some(mut sl) = slice {
                for _ in 0..batch {
                    if value >= n || sl.push(value).is_err() {
                        break;
                    }
                    value += 1;
                }
            }
        }
        drop(send);
        fin.fetch_add(1, Ordering::SeqCst);
    });

    let fin = finished.clone();
    let rec = received.clone();
    let ord = in_order.clone();
    let park_rx = mode & 1 != 0;
    let consumer = std::thread::spawn(move || {
        let waker = Waker::from(Arc::new(ThreadWaker(std::thread::current())));
        let mut st = seed.wrapping_mul(31) | 1;
        let mut expect = 0u64;
        loop {
            let batch = 1 + rng(&mut st) % 23;
            let slice = if park_rx {
                match recv.poll_slice(&mut Context::from_waker(&waker)) {
                    Poll::Ready(Ok(sl)) => Some(sl),
                    Poll::Ready(Err(_)) => break,
                    Poll::Pending => {
                        std::thread::park_timeout(std::time::Duration::from_secs(30));
                        None
                    }
                }
            } else {
                match recv.try_slice() {
                    Ok(Some(sl)) => Some(sl),
                    Ok(None) => {
                        std::hint::spin_loop();
                        None
                    }
                    Err(_) => break,
                }
            };
            if let Some(mut sl) = slice {
                for _ in 0..batch {
                    match sl.pop() {
                        Some(v) => {
                            if v != expect {
                                ord.store(false, Ordering::SeqCst);
                            }
                            expect = v + 1;
                            rec.fetch_add(1, Ordering::SeqCst);
                        }
                        None => break,
                    }
                }
            }
        }
        drop(recv);
        fin.fetch_add(1, Ordering::SeqCst);
    });

    // watchdog: a park_timeout of 30 s that expires means a wake-up was lost; we give up after 20 s
    let t0 = std::time::Instant::now();
    let mut no_hang = 1;
    while finished.load(Ordering::SeqCst) < 2 {
        if t0.elapsed() > std::time::Duration::from_secs(20) {
            no_hang = 0;
            break;
        }
        std::thread::sleep(std::time::Duration::from_micros(200));
    }
    if no_hang == 1 {
        producer.join().unwrap();
        consumer.join().unwrap();
    }
    vec![
        received.load(Ordering::SeqCst) as V,
        in_order.load(Ordering::SeqCst) as V,
        no_hang,
    ]
}

/// sync/cursor.rs: case = [log2 size; (op, arg)*]; see coq/model/CursorRing.v
fn cursor_ring(input: &[V]) -> Vec<V> {
    use std::ptr::NonNull;
    use std::sync::atomic::AtomicU32;
    let mut c = Cur::new(input);
    let k = c.next().clamp(0, 10) as u32;
    let size = 1u32 << k;
    let prod = Box::new(AtomicU32::new(0));
    let cons = Box::new(AtomicU32::new(0));
    let mut data = vec![0u64; size as usize];
    let builder = || cursor::Builder::<u64> {
        producer: NonNull::from(&*prod),
        consumer: NonNull::from(&*cons),
        data: NonNull::new(data.as_ptr() as *mut u64).unwrap(),
        size,
    };
    let mut p = unsafe { builder().build_producer() };
    let mut q = unsafe { builder().build_consumer() };
    let mut next: u64 = 1;
    let mut out = vec![];
    while !c.done() {
        let op = c.next();
        let arg = c.next().clamp(0, 100000) as u32;
        match op {
            0 => out.push(p.acquire_producer(arg) as V),
            1 => {
                let (a, b) = unsafe { p.producer_data() };
                let avail = (a.len() + b.len()) as u32;
                let n = arg.min(avail);
                for slot in a.iter_mut().chain(b.iter_mut()).take(n as usize) {
                    *slot = next;
                    next += 1;
                }
                p.release_producer(n);
                out.push(n as V);
            }
            2 => out.push(q.acquire_consumer(arg) as V),
            _ => {
                let (a, b) = unsafe { q.consumer_data() };
                let avail = (a.len() + b.len()) as u32;
                let n = arg.min(avail);
                let vals: Vec<V> = a.iter().chain(b.iter()).take(n as usize).map(|v| *v as V).collect();
                q.release_consumer(n);
                out.push(n as V);
                out.extend(vals);
            }
        }
    }
    drop(p);
    drop(q);
    let _keep = data.len();
    out
}

/// sync/worker.rs: case = (op, arg)*; see coq/model/Worker.v
fn worker_chan(input: &[V]) -> Vec<V> {
    let mut c = Cur::new(input);
    let (send, mut recv) = worker::channel();
    let mut send = Some(send);
    let count = Arc::new(CountWaker(AtomicUsize::new(0)));
    let waker = Waker::from(count.clone());
    let mut credits: usize = 0;
    let mut out = vec![];
    while !c.done() {
        let op = c.next();
        let arg = c.next().clamp(0, 1_000_000) as usize;
        match op {
            0 => match send.as_ref() {
                Some(s) => {
                    s.submit(arg);
                    out.push(0);
                }
                None => out.push(9),
            },
            1 => match recv.poll_acquire(&mut Context::from_waker(&waker)) {
                Poll::Pending => {
                    out.push(0);
                    out.push(credits as V);
                }
                Poll::Ready(Some(n)) => {
                    credits = n;
                    out.push(1);
                    out.push(n as V);
                }
                Poll::Ready(None) => {
                    out.push(2);
                    out.push(credits as V);
                }
            },
            2 => {
                let n = arg.min(credits);
                recv.finish(n);
                credits -= n;
                out.push(credits as V);
            }
            _ => {
                if send.take().is_some() {
                    out.push(0);
                } else {
                    out.push(9);
                }
            }
        }
        out.push(count.0.load(Ordering::SeqCst) as V);
    }
    out
}

/// demonstration for the worker Clone observation (not part of the check): clone the Sender, drop the
/// clone, poll (the original Sender is still alive), submit through the original, poll again.
/// output: code of poll 1 (0 Pending, 1 Some, 2 None), code and credits of poll 2
fn worker_clone(_input: &[V]) -> Vec<V> {
    let (send, mut recv) = worker::channel();
    let count = Arc::new(CountWaker(AtomicUsize::new(0)));
    let waker = Waker::from(count.clone());
    let code = |p: Poll<Option<usize>>| -> (V, V) {
        match p {
            Poll::Pending => (0, 0),
            Poll::Ready(Some(n)) => (1, n as V),
            Poll::Ready(None) => (2, 0),
        }
    };
    let clone = send.clone();
    drop(clone);
    let a = code(recv.poll_acquire(&mut Context::from_waker(&waker)));
    send.submit(3);
    let b = code(recv.poll_acquire(&mut Context::from_waker(&waker)));
    drop(send);
    let c = code(recv.poll_acquire(&mut Context::from_waker(&waker)));
    vec![a.0, b.0, b.1, c.0, c.1]
}

/// platform socket ring + rx socket task (socket/ring.rs, socket/task/rx.rs) with a scripted socket:
/// case = [log2 entries; (op, a, b)*]; see coq/model/RxRing.v
fn rx_ring(input: &[V]) -> Vec<V> {
    use core::future::Future;
    use s2n_quic_core::task::cooldown::Cooldown;
    use s2n_quic_platform::{
        message::simple::Message,
        socket::{ring, stats, task::rx},
        syscall::SocketEvents as _,
    };
    use std::pin::Pin;

    /// each recv call delivers the next scripted number of messages (bounded by the entries it is
    /// given); 0 or an exhausted script means the socket would block
    struct ScriptSocket(std::collections::VecDeque<usize>, Arc<AtomicUsize>);
    impl rx::Socket<Message> for ScriptSocket {
        type Error = ();
        fn recv(
            &mut self,
            _cx: &mut Context,
            entries: &mut [Message],
            events: &mut rx::Events,
            _stats: &stats::Sender,
        ) -> Result<(), ()> {
            match SCRIPT.with(|s| s.borrow_mut().pop_front()) {
                Some(v) if v > 0 => {
                    let n = v.min(entries.len());
                    self.1.fetch_add(n, Ordering::SeqCst);
                    let _ = events.on_complete(n);
                }
                _ => events.blocked(),
            }
            Ok(())
        }
    }

    let mut c = Cur::new(input);
    let k = c.next().clamp(0, 6) as u32;
    let entries = 1u32 << k;
    let (producer, consumer) = ring::pair::<Message>(entries, 32);
    let mut consumer = Some(consumer);
    let (stats_tx, _stats_rx) = stats::channel();
    let delivered = Arc::new(AtomicUsize::new(0));
    let mut task = rx::Receiver::new(
        producer,
        ScriptSocket(Default::default(), delivered.clone()),
        None,
        Cooldown::default(),
        stats_tx,
    );
    // the script is handed to the socket through a second handle: Receiver owns the socket, so the
    // harness keeps the script in a shared queue instead
    let ccount = Arc::new(CountWaker(AtomicUsize::new(0)));
    let tcount = Arc::new(CountWaker(AtomicUsize::new(0)));
    let cwaker = Waker::from(ccount.clone());
    let twaker = Waker::from(tcount.clone());
    let mut acquired: u32 = 0;
    let mut out = vec![];
    while !c.done() {
        let op = c.next();
        let a = c.next().clamp(0, 100000) as usize;
        let b = c.next().clamp(0, 100000) as usize;
        match op {
            0 => {
                SCRIPT.with(|s| {
                    let mut s = s.borrow_mut();
                    s.clear();
                    s.push_back(a);
                    s.push_back(b);
                });
                let before = delivered.load(Ordering::SeqCst);
                let r = Pin::new(&mut task).poll(&mut Context::from_waker(&twaker));
                out.push(match r {
                    Poll::Pending => 0,
                    Poll::Ready(None) => 1,
                    Poll::Ready(Some(())) => 2,
                });
                out.push((delivered.load(Ordering::SeqCst) - before) as V);
            }
            1 => match consumer.as_mut() {
                Some(cons) => match cons.poll_acquire((a.max(1)) as u32, &mut Context::from_waker(&cwaker)) {
                    Poll::Ready(n) => {
                        acquired = n;
                        out.push(1);
                        out.push(n as V);
                    }
                    Poll::Pending => {
                        out.push(0);
                        out.push(0);
                    }
                },
                None => {
                    out.push(9);
                    out.push(0);
                }
            },
            2 => match consumer.as_mut() {
                Some(cons) => {
                    let n = (a as u32).min(acquired);
                    cons.release(n);
                    acquired -= n;
                    out.push(0);
                    out.push(n as V);
                }
                None => {
                    out.push(9);
                    out.push(0);
                }
            },
            _ => {
                if consumer.take().is_some() {
                    out.push(0);
                } else {
                    out.push(9);
                }
                out.push(0);
            }
        }
        out.push(ccount.0.load(Ordering::SeqCst) as V);
        out.push(tcount.0.load(Ordering::SeqCst) as V);
    }
    out
}

/// platform tx queue over 1..3 socket rings (socket/io/tx.rs, socket/ring.rs):
/// case = [rings; log2 entries; (op, a, b)*]; see coq/model/TxRings.v
fn tx_rings(input: &[V]) -> Vec<V> {
    use s2n_quic_core::{
        inet::SocketAddress,
        io::tx::{Queue as _, Tx as _},
        path::{Handle as _, MaxMtu, RemoteAddress},
    };
    use s2n_quic_platform::{
        features::Gso,
        message::{simple::Message, Message as _},
        socket::{io::tx::Tx, ring},
    };
    let mut c = Cur::new(input);
    let nr = c.next().clamp(0, 2) as usize + 1;
    let k = c.next().clamp(0, 4) as u32;
    let entries = 1u32 << k;
    let payload_len = 128u32;
    let mut producers = vec![];
    let mut consumers = vec![];
    for _ in 0..nr {
        let (p, cns) = ring::pair::<Message>(entries, payload_len);
        producers.push(p);
        consumers.push(cns);
    }
    let gso = Gso::default();
    gso.disable();
    let max_mtu = MaxMtu::try_from(payload_len as u16).unwrap_or_default();
    let mut tx = Tx::new(producers, gso, max_mtu);
    let counts: Vec<Arc<CountWaker>> = (0..3).map(|_| Arc::new(CountWaker(AtomicUsize::new(0)))).collect();
    let wakers: Vec<Waker> = counts.iter().map(|c| Waker::from(c.clone())).collect();
    let ecount = Arc::new(CountWaker(AtomicUsize::new(0)));
    let ewaker = Waker::from(ecount.clone());
    let mut acquired = vec![0u32; nr];
    let mut out = vec![];
    while !c.done() {
        let op = c.next();
        let a = c.next().clamp(0, 64) as usize;
        let b = c.next().clamp(0, 100000) as u32;
        let i = a % nr;
        match op {
            0 => {
                let mut pushed = 0;
                tx.queue(|queue| {
                    for idx in 0..a {
                        let mut addr = SocketAddress::default();
                        addr.set_port(idx as u16 + 1);
                        let handle = <Message as s2n_quic_platform::message::Message>::Handle::from_remote_address(
                            RemoteAddress::from(addr),
                        );
                        let payload = [idx as u8; 4];
                        if queue.push((handle, &payload[..])).is_err() {
                            break;
                        }
                        pushed += 1;
                    }
                });
                out.push(pushed as V);
                for j in 0..3 {
                    if j < nr {
                        acquired[j] = consumers[j].acquire(u32::MAX);
                        out.push(acquired[j] as V);
                    } else {
                        out.push(0);
                    }
                }
            }
            1 => match consumers[i].poll_acquire(u32::MAX, &mut Context::from_waker(&wakers[i])) {
                Poll::Ready(n) => {
                    acquired[i] = n;
                    out.push(1);
                    out.push(n as V);
                }
                Poll::Pending => {
                    out.push(0);
                    out.push(0);
                }
            },
            2 => {
                let n = b.min(acquired[i]);
                consumers[i].release(n);
                acquired[i] -= n;
                out.push(0);
                out.push(n as V);
            }
            _ => {
                out.push(match tx.poll_ready(&mut Context::from_waker(&ewaker)) {
                    Poll::Pending => 0,
                    Poll::Ready(Ok(())) => 1,
                    Poll::Ready(Err(())) => 2,
                });
                out.push(0);
            }
        }
        for j in 0..3 {
            out.push(counts[j].0.load(Ordering::SeqCst) as V);
        }
        out.push(ecount.0.load(Ordering::SeqCst) as V);
    }
    out
}

thread_local! {
    static SCRIPT: std::cell::RefCell<std::collections::VecDeque<usize>> = Default::default();
}

fn main() {
    main_with(&[("spsc", spsc), ("spsc_mt", spsc_mt), ("cursor", cursor_ring), ("worker", worker_chan), ("worker_clone", worker_clone), ("rxring", rx_ring), ("txrings", tx_rings)]);
}
