//! C06: drives the real packet protection functions of s2n_quic_core::crypto
//! (encrypt / protect / unprotect / decrypt), the real SlidingWindow and the real cipher suites of
//! s2n-quic-crypto through their public API.
use h_common::{main_with, V};
use s2n_codec::{Encoder, EncoderBuffer};
use s2n_quic_core::{
    crypto::{self, packet_protection, scatter, HeaderKey, HeaderProtectionMask, Key, ProtectedPayload},
    packet::number::{PacketNumber, PacketNumberSpace, TruncatedPacketNumber},
    varint::VarInt,
};

fn space(v: V) -> PacketNumberSpace {
    match v {
        0 => PacketNumberSpace::Initial,
        1 => PacketNumberSpace::Handshake,
        _ => PacketNumberSpace::ApplicationData,
    }
}

fn bytes(v: &[V]) -> Vec<u8> {
    v.iter().map(|b| *b as u8).collect()
}

fn tpn_value(t: TruncatedPacketNumber) -> V {
    let mut b = [0u8; 8];
    let mut e = EncoderBuffer::new(&mut b);
    e.encode(&t);
    let n = e.len();
    b[..n].iter().fold(0 as V, |a, x| a * 256 + *x as V)
}

/// identity "AEAD" without tag: lets the harness obtain an `EncryptedPayload` for arbitrary bytes
struct NullKey;
impl Key for NullKey {
    fn decrypt(&self, _pn: u64, _h: &[u8], _p: &mut [u8]) -> Result<(), packet_protection::Error> {
        Ok(())
    }
    fn encrypt(&mut self, _pn: u64, _h: &[u8], p: &mut scatter::Buffer) -> Result<(), packet_protection::Error> {
        p.flatten();
        Ok(())
    }
    fn tag_len(&self) -> usize {
        0
    }
    fn aead_confidentiality_limit(&self) -> u64 {
        u64::MAX
    }
    fn aead_integrity_limit(&self) -> u64 {
        u64::MAX
    }
    fn cipher_suite(&self) -> crypto::tls::CipherSuite {
        crypto::tls::CipherSuite::Unknown
    }
}

/// header key whose mask depends on the 5 bytes of the case and on all 16 sample bytes:
/// mask[i] = m[i] ^ s[i] ^ s[i+5] ^ s[i+10] (^ s[15] for i = 0)
struct MaskKey {
    m: [u8; 5],
}
impl MaskKey {
    fn mask(&self, s: &[u8]) -> HeaderProtectionMask {
        assert_eq!(s.len(), 16, "sample length");
        let mut r = [0u8; 5];
        for i in 0..5 {
            r[i] = self.m[i] ^ s[i] ^ s[i + 5] ^ s[i + 10] ^ if i == 0 { s[15] } else { 0 };
        }
        r
    }
}
impl HeaderKey for MaskKey {
    fn opening_header_protection_mask(&self, s: &[u8]) -> HeaderProtectionMask {
        self.mask(s)
    }
    fn opening_sample_len(&self) -> usize {
        16
    }
    fn sealing_header_protection_mask(&self, s: &[u8]) -> HeaderProtectionMask {
        self.mask(s)
    }
    fn sealing_sample_len(&self) -> usize {
        16
    }
}

/// the real `encrypt` (with a key that leaves the bytes alone) followed by the real `protect`;
/// the packet number length is the one named by the first byte
fn do_protect<K: HeaderKey>(hk: &K, sp: PacketNumberSpace, hlen: usize, buf: &mut [u8]) -> bool {
    let n = buf.len();
    if n == 0 {
        return false;
    }
    let pn_len = sp.new_packet_number_len(buf[0]);
    if n <= hlen + pn_len.bytesize() {
        // `encrypt` requires a non-empty body; such a packet has no room for the sample anyway
        return false;
    }
    let mut e = EncoderBuffer::new(buf);
    e.set_position(n);
    let pn = sp.new_packet_number(VarInt::from_u8(0));
    let (enc, _rest) = match crypto::encrypt(&mut NullKey, pn, pn_len, hlen, scatter::Buffer::new(e)) {
        Ok(x) => x,
        Err(_) => return false,
    };
    crypto::protect(hk, enc).is_ok()
}

/// hp: case = space, hlen, m0..m4, bytes...
fn hp(input: &[V]) -> Vec<V> {
    let sp = space(input.first().copied().unwrap_or(0));
    let hlen = input.get(1).copied().unwrap_or(0) as usize;
    let mut m = [0u8; 5];
    for i in 0..5 {
        m[i] = input.get(2 + i).copied().unwrap_or(0) as u8;
    }
    let raw = bytes(input.get(7..).unwrap_or(&[]));
    let hk = MaskKey { m };
    let mut out = vec![];

    let unprotect = |buf: &mut Vec<u8>, out: &mut Vec<V>| -> bool {
        if buf.len() < hlen {
            out.push(1);
            return false;
        }
        let r = crypto::unprotect(&hk, sp, ProtectedPayload::new(hlen, &mut buf[..]));
        match r {
            Ok((tpn, enc)) => {
                let k = tpn.len().bytesize();
                let v = tpn_value(tpn);
                drop(enc);
                out.push(0);
                out.push(k as V);
                out.push(v);
                out.extend(buf.iter().map(|b| *b as V));
                true
            }
            Err(_) => {
                out.push(1);
                false
            }
        }
    };

    // stage 1 / 2
    let mut b1 = raw.clone();
    if do_protect(&hk, sp, hlen, &mut b1) {
        out.push(0);
        out.extend(b1.iter().map(|b| *b as V));
        unprotect(&mut b1, &mut out);
    } else {
        out.push(1);
        out.push(1);
    }
    // stage 3 / 4
    let mut b3 = raw.clone();
    if unprotect(&mut b3, &mut out) {
        if do_protect(&hk, sp, hlen, &mut b3) {
            out.push(0);
            out.extend(b3.iter().map(|b| *b as V));
        } else {
            out.push(1);
        }
    } else {
        out.push(1);
    }
    out
}

// ------------------------------------------------------------------------------------------------
// nonce: the real cipher suites of s2n-quic-crypto
use aws_lc_rs::cipher as blk;
use s2n_quic_core::crypto::label;
use s2n_quic_crypto::{aws_lc_aead as aead, hkdf, one_rtt::OneRttKey, SecretPair};

struct Len(usize);
impl hkdf::KeyType for Len {
    fn len(&self) -> usize {
        self.0
    }
}

struct Suite {
    alg: &'static aead::Algorithm,
    hash: hkdf::Algorithm,
    key_label: &'static [u8],
    key_len: usize,
    aes: Option<&'static blk::Algorithm>,
}

fn suite(v: V) -> Suite {
    match v {
        0 => Suite { alg: &aead::AES_128_GCM, hash: hkdf::HKDF_SHA256, key_label: &label::QUIC_KEY_16, key_len: 16, aes: Some(&blk::AES_128) },
        1 => Suite { alg: &aead::AES_256_GCM, hash: hkdf::HKDF_SHA384, key_label: &label::QUIC_KEY_32, key_len: 32, aes: Some(&blk::AES_256) },
        _ => Suite { alg: &aead::CHACHA20_POLY1305, hash: hkdf::HKDF_SHA256, key_label: &label::QUIC_KEY_32, key_len: 32, aes: None },
    }
}

const NONCE_HLEN: usize = 1;
const NONCE_BODY: usize = 32;

/// seals a packet (first byte 0x43, 4 byte pn, 32 zero bytes) with the real 1-RTT key through the real
/// `crypto::encrypt`; returns (aad, ciphertext||tag)
fn seal_zero(key: &mut OneRttKey, p: u64) -> (Vec<u8>, Vec<u8>) {
    let sp = PacketNumberSpace::ApplicationData;
    let pn = sp.new_packet_number(VarInt::new(p).expect("generator keeps packet numbers below 2^62"));
    let pn_len = sp.new_packet_number_len(0x43);
    let used = NONCE_HLEN + 4 + NONCE_BODY;
    let mut buf = vec![0u8; used + key.tag_len()];
    buf[0] = 0x43;
    buf[1..5].copy_from_slice(&(p as u32).to_be_bytes());
    let mut e = EncoderBuffer::new(&mut buf);
    e.set_position(used);
    let r = crypto::encrypt(key, pn, pn_len, NONCE_HLEN, scatter::Buffer::new(e));
    assert!(r.is_ok(), "encrypt failed");
    drop(r);
    (buf[..5].to_vec(), buf[5..].to_vec())
}

/// nonce: case = suite, p, q, iv(12), candidate(12), secret bytes
fn nonce(input: &[V]) -> Vec<V> {
    let su = suite(input.first().copied().unwrap_or(0));
    let p = input.get(1).copied().unwrap_or(0) as u64;
    let q = input.get(2).copied().unwrap_or(0) as u64;
    let cand = bytes(input.get(15..27).unwrap_or(&[]));
    let secret = bytes(input.get(27..).unwrap_or(&[]));
    let prk = hkdf::Prk::new_less_safe(su.hash, &secret);
    let mut out = vec![];

    // the iv and the key the suite derives (same library calls, labels of s2n_quic_core::crypto::label)
    let mut iv = [0u8; 12];
    prk.expand(&[&label::QUIC_IV_12], Len(12)).unwrap().fill(&mut iv).unwrap();
    out.extend(iv.iter().map(|b| *b as V));
    let mut k = vec![0u8; su.key_len];
    prk.expand(&[su.key_label], Len(su.key_len)).unwrap().fill(&mut k).unwrap();

    let (mut key, _hk) = OneRttKey::new_client(su.alg, SecretPair { server: prk.clone(), client: prk.clone() }).expect("suite");
    let (aad_p, ct_p) = seal_zero(&mut key, p);
    let (_aad_q, ct_q) = seal_zero(&mut key, q);

    if let Some(aes) = su.aes {
        // GCM: ciphertext block 0 = plaintext (zero) ^ AES_K(nonce || 00000002); invert the block cipher
        out.push(1);
        for ct in [&ct_p, &ct_q] {
            let dk = blk::DecryptingKey::ecb(blk::UnboundCipherKey::new(aes, &k).unwrap()).unwrap();
            let mut block = [0u8; 16];
            block.copy_from_slice(&ct[..16]);
            dk.decrypt(&mut block, blk::DecryptionContext::None).unwrap();
            out.extend(block[..12].iter().map(|b| *b as V));
            out.push(u32::from_be_bytes([block[12], block[13], block[14], block[15]]) as V);
        }
    } else {
        out.push(0);
    }

    // does the candidate nonce open the packet sealed under p (raw AEAD, key derived above)?
    let raw = aead::LessSafeKey::new(aead::UnboundKey::new(su.alg, &k).unwrap());
    let mut c = ct_p.clone();
    let mut n = [0u8; 12];
    if cand.len() == 12 {
        n.copy_from_slice(&cand);
    }
    let ok = cand.len() == 12
        && raw.open_in_place(aead::Nonce::assume_unique_for_key(n), aead::Aad::from(&aad_p[..]), &mut c).is_ok();
    out.push(ok as V);

    // does the packet sealed under p open under q with the real key?
    let mut c = ct_p.clone();
    let mut aad_q = aad_p.clone();
    aad_q[1..5].copy_from_slice(&(p as u32).to_be_bytes());
    out.push(Key::decrypt(&key, q, &aad_q, &mut c).is_ok() as V);
    out
}

/// consts: case = suite; output = tag length, header protection sample length, NONCE_LEN
fn consts(input: &[V]) -> Vec<V> {
    let su = suite(input.first().copied().unwrap_or(0));
    let prk = hkdf::Prk::new_less_safe(su.hash, &[7u8; 32]);
    let (key, hk) = OneRttKey::new_client(su.alg, SecretPair { server: prk.clone(), client: prk }).expect("suite");
    vec![
        key.tag_len() as V,
        hk.opening_sample_len() as V,
        hk.sealing_sample_len() as V,
        aead::NONCE_LEN as V,
        crypto::HEADER_PROTECTION_MASK_LEN as V,
    ]
}

// ------------------------------------------------------------------------------------------------
// rxpipe: unprotect -> expand -> decrypt -> SlidingWindow with a keyed-checksum "AEAD"
use s2n_quic_core::packet::number::{SlidingWindow, SlidingWindowError};

fn splitmix(mut z: u64) -> u64 {
    z = z.wrapping_add(0x9e37_79b9_7f4a_7c15);
    z = (z ^ (z >> 30)).wrapping_mul(0xbf58_476d_1ce4_e5b9);
    z = (z ^ (z >> 27)).wrapping_mul(0x94d0_49bb_1331_11eb);
    z ^ (z >> 31)
}

const P61: u128 = (1u128 << 61) - 1;

/// stream cipher + two polynomial MACs over GF(2^61 - 1): not cryptography, but every single-byte
/// change of header, ciphertext or tag is rejected with certainty and any other change with
/// probability 1 - 2^-122
struct SumKey {
    seed: u64,
    gen: u64,
    integ: u64,
}
impl s2n_quic_core::crypto::OneRttKey for SumKey {
    fn derive_next_key(&self) -> Self {
        SumKey { seed: splitmix(self.seed ^ 0x6b75), gen: self.gen + 1, integ: self.integ }
    }
}
impl s2n_quic_core::crypto::OneRttHeaderKey for SumHeaderKey {}
impl SumKey {
    fn ks(&self, pn: u64, i: usize) -> u8 {
        (splitmix(self.seed ^ splitmix(pn) ^ ((i / 8) as u64).wrapping_mul(0xa076_1d64_78bd_642f)) >> (8 * (i % 8))) as u8
    }
    fn mac(&self, pn: u64, header: &[u8], ct: &[u8]) -> [u8; 16] {
        let mut tag = [0u8; 16];
        for half in 0..2u64 {
            let r = 2 + (splitmix(self.seed ^ (0x51 + half)) as u128) % (P61 - 2);
            let mut h: u128 = 0;
            let mut x: u128 = r;
            let mut feed = |b: u128| {
                h = (h + (b + 1) * x) % P61;
                x = (x * r) % P61;
            };
            feed(header.len() as u128);
            for b in pn.to_be_bytes() {
                feed(b as u128);
            }
            for b in header.iter().chain(ct.iter()) {
                feed(*b as u128);
            }
            tag[(half as usize) * 8..][..8].copy_from_slice(&(h as u64).to_le_bytes());
        }
        tag
    }
}
impl Key for SumKey {
    fn decrypt(&self, pn: u64, header: &[u8], payload: &mut [u8]) -> Result<(), packet_protection::Error> {
        let n = payload.len().checked_sub(16).ok_or(packet_protection::Error::DECRYPT_ERROR)?;
        let (ct, tag) = payload.split_at_mut(n);
        if self.mac(pn, header, ct) != *tag {
            return Err(packet_protection::Error::DECRYPT_ERROR);
        }
        for (i, b) in ct.iter_mut().enumerate() {
            *b ^= self.ks(pn, i);
        }
        Ok(())
    }
    fn encrypt(&mut self, pn: u64, header: &[u8], payload: &mut scatter::Buffer) -> Result<(), packet_protection::Error> {
        let payload = payload.flatten();
        // written part = plaintext; the space reserved for the tag follows it
        let (pt, rest) = payload.split_mut();
        for (i, b) in pt.iter_mut().enumerate() {
            *b ^= self.ks(pn, i);
        }
        let tag = self.mac(pn, header, pt);
        rest[..16].copy_from_slice(&tag);
        Ok(())
    }
    fn tag_len(&self) -> usize {
        16
    }
    fn aead_confidentiality_limit(&self) -> u64 {
        u64::MAX
    }
    fn aead_integrity_limit(&self) -> u64 {
        self.integ
    }
    fn cipher_suite(&self) -> crypto::tls::CipherSuite {
        crypto::tls::CipherSuite::Unknown
    }
}

/// header protection PRF keyed by the seed
struct SumHeaderKey {
    seed: u64,
}
impl SumHeaderKey {
    fn mask(&self, s: &[u8]) -> HeaderProtectionMask {
        let mut a = self.seed ^ 0x6870;
        for c in s.chunks(8) {
            let mut w = [0u8; 8];
            w[..c.len()].copy_from_slice(c);
            a = splitmix(a ^ u64::from_le_bytes(w));
        }
        let b = a.to_le_bytes();
        [b[0], b[1], b[2], b[3], b[4]]
    }
}
impl HeaderKey for SumHeaderKey {
    fn opening_header_protection_mask(&self, s: &[u8]) -> HeaderProtectionMask {
        self.mask(s)
    }
    fn opening_sample_len(&self) -> usize {
        16
    }
    fn sealing_header_protection_mask(&self, s: &[u8]) -> HeaderProtectionMask {
        self.mask(s)
    }
    fn sealing_sample_len(&self) -> usize {
        16
    }
}

struct Receiver {
    ks: s2n_quic_core::crypto::application::KeySet<SumKey>,
    hk: SumHeaderKey,
    dcid_len: usize,
    window: SlidingWindow,
    largest: PacketNumber,
    closed: bool,
}

impl Receiver {
    /// the steps of s2n-quic-transport: ProtectedPacket::decode (endpoint), then
    /// space/application.rs validate_and_decrypt_packet: ProtectedShort::unprotect (header protection,
    /// packet number expansion), KeySet::decrypt_packet (key phase selection, failure counter,
    /// AEAD_LIMIT_REACHED), then the duplicate check, and only then the decryption result; on success
    /// the frames would be processed and the packet number inserted (on_processed_packet)
    fn rx(&mut self, dg: &[u8]) -> (V, Option<(u64, Vec<u8>)>) {
        use s2n_codec::DecoderBufferMut;
        use s2n_quic_core::{
            connection::{id::ConnectionInfo, ProcessingError},
            inet::SocketAddress,
            packet::ProtectedPacket,
            transport,
        };
        if self.closed {
            return (5, None);
        }
        let mut buf = dg.to_vec();
        let addr = SocketAddress::default();
        let info = ConnectionInfo::new(&addr);
        let packet = match ProtectedPacket::decode(DecoderBufferMut::new(&mut buf), &info, &self.dcid_len) {
            Ok((p, _rest)) => p,
            Err(_) => return (1, None),
        };
        let short = match packet {
            ProtectedPacket::Short(s) => s,
            _ => return (1, None),
        };
        let enc = match short.unprotect(&self.hk, self.largest) {
            Ok(e) => e,
            Err(_) => return (1, None),
        };
        let pn = enc.packet_number;
        let pto = unsafe { s2n_quic_core::time::Timestamp::from_duration(std::time::Duration::from_secs(1)) };
        let decrypted = self.ks.decrypt_packet(enc, self.largest, pto);
        // a connection error of decrypt_packet closes the connection, from the duplicate branch as well
        let conn_err = |e: &ProcessingError| -> Option<V> {
            match e {
                ProcessingError::ConnectionError(s2n_quic_core::connection::Error::Transport { code, .. })
                    if code.as_u64() == transport::Error::AEAD_LIMIT_REACHED.code.as_u64() =>
                {
                    Some(6)
                }
                ProcessingError::ConnectionError(_) => Some(8),
                _ => None,
            }
        };
        let dup = match self.window.check(pn) {
            Err(SlidingWindowError::Duplicate) => Some(3),
            Err(SlidingWindowError::TooOld) => Some(4),
            Ok(()) => None,
        };
        if let Some(code) = dup {
            // if self.is_duplicate(..) { if let Err(err @ ConnectionError(_)) = decrypted { return Err(err) } return Err(Other) }
            if let Err(e) = &decrypted {
                if let Some(c) = conn_err(e) {
                    self.closed = true;
                    return (c, None);
                }
            }
            return (code, None);
        }
        match decrypted {
            Ok((clear, _generation)) => {
                let p = clear.payload.into_less_safe_slice().to_vec();
                self.window.insert(pn).expect("packet number was already checked");
                if pn > self.largest {
                    self.largest = pn;
                }
                (0, Some((pn.as_u64(), p)))
            }
            Err(ProcessingError::DecryptError) => (2, None),
            Err(e) => match conn_err(&e) {
                Some(c) => {
                    // the connection closes; nothing is processed afterwards
                    self.closed = true;
                    (c, None)
                }
                None => (7, None),
            },
        }
    }
}

/// rxpipe: case = seed, dcid_len, integrity_limit, ops (see coq/model/RxPipeline.v)
fn rxpipe(input: &[V]) -> Vec<V> {
    let sp = PacketNumberSpace::ApplicationData;
    let seed = input.first().copied().unwrap_or(0) as u64;
    let dcid_len = (input.get(1).copied().unwrap_or(0) as usize).min(20);
    let hlen = 1 + dcid_len;
    let integ = input.get(2).copied().unwrap_or(0) as u64;
    let mut sealer = SumKey { seed, gen: 0, integ };
    let hk = SumHeaderKey { seed };
    let mut rcv = Receiver {
        ks: s2n_quic_core::crypto::application::KeySet::new(
            SumKey { seed, gen: 0, integ },
            s2n_quic_core::crypto::application::limited::Limits::default(),
        ),
        hk: SumHeaderKey { seed },
        dcid_len,
        window: SlidingWindow::default(),
        largest: sp.new_packet_number(VarInt::from_u8(0)),
        closed: false,
    };
    let mut sealed: Vec<Vec<u8>> = vec![];
    let mut out = vec![];
    let mut i = 3usize;
    let get = |i: usize| input.get(i).copied();
    let emit = |out: &mut Vec<V>, genuine: bool, r: (V, Option<(u64, Vec<u8>)>)| match r {
        (0, Some((pn, p))) => {
            out.push(0);
            out.push(pn as V);
            out.push(p.len() as V);
            out.extend(p.iter().map(|b| *b as V));
        }
        (code, _) => out.push(if genuine || code == 5 || code == 6 || code == 8 { code } else { 1 }),
    };
    while i < input.len() {
        match input[i] {
            0 => {
                let (Some(pn), Some(n), Some(plen)) = (get(i + 1), get(i + 2), get(i + 3)) else { break };
                let n = (n as usize).clamp(1, 4);
                let plen = plen as usize;
                let pay = bytes(input.get(i + 4..(i + 4 + plen).min(input.len())).unwrap_or(&[]));
                i += 4 + plen;
                let pnv = sp.new_packet_number(VarInt::new(pn as u64).expect("generator keeps packet numbers below 2^62"));
                let tag = 0x40u8 | (n as u8 - 1);
                let pn_len = sp.new_packet_number_len(tag);
                let used = hlen + n + pay.len();
                let mut buf = vec![0u8; used + 16];
                buf[0] = tag;
                for d in 0..dcid_len {
                    buf[1 + d] = (seed as u8).wrapping_add(3 + 7 * d as u8);
                }
                let be = (pn as u64).to_be_bytes();
                buf[hlen..hlen + n].copy_from_slice(&be[8 - n..]);
                buf[hlen + n..used].copy_from_slice(&pay);
                let mut e = EncoderBuffer::new(&mut buf);
                e.set_position(used);
                let (enc, _) = crypto::encrypt(&mut sealer, pnv, pn_len, hlen, scatter::Buffer::new(e)).expect("encrypt");
                crypto::protect(&hk, enc).expect("protect");
                sealed.push(buf);
            }
            1 => {
                let Some(k) = get(i + 1) else { break };
                i += 2;
                match sealed.get(k as usize) {
                    Some(d) => {
                        let d = d.clone();
                        emit(&mut out, true, rcv.rx(&d))
                    }
                    None => out.push(9),
                }
            }
            2 => {
                let (Some(k), Some(pos), Some(x)) = (get(i + 1), get(i + 2), get(i + 3)) else { break };
                i += 4;
                match sealed.get(k as usize) {
                    Some(d) => {
                        let mut d = d.clone();
                        let n = d.len();
                        d[pos as usize % n] ^= x as u8;
                        emit(&mut out, false, rcv.rx(&d))
                    }
                    None => out.push(9),
                }
            }
            3 => {
                let (Some(k), Some(newlen)) = (get(i + 1), get(i + 2)) else { break };
                i += 3;
                match sealed.get(k as usize) {
                    Some(d) => {
                        let d = d[..(newlen as usize).min(d.len())].to_vec();
                        emit(&mut out, false, rcv.rx(&d))
                    }
                    None => out.push(9),
                }
            }
            4 => {
                let (Some(k), Some(j), Some(cut), Some(cut2)) = (get(i + 1), get(i + 2), get(i + 3), get(i + 4)) else { break };
                i += 5;
                match (sealed.get(k as usize), sealed.get(j as usize)) {
                    (Some(a), Some(b)) => {
                        let mut d = a[..(cut as usize).min(a.len())].to_vec();
                        d.extend_from_slice(&b[(cut2 as usize).min(b.len())..]);
                        emit(&mut out, false, rcv.rx(&d))
                    }
                    _ => out.push(9),
                }
            }
            5 => {
                let Some(len) = get(i + 1) else { break };
                let len = len as usize;
                let d = bytes(input.get(i + 2..(i + 2 + len).min(input.len())).unwrap_or(&[]));
                i += 2 + len;
                emit(&mut out, false, rcv.rx(&d))
            }
            _ => break,
        }
    }
    out
}

/// reset: case = ntok, ntok*16 token bytes, datagram bytes; output = index+1 of the matched token or 0.
/// The last 16 bytes are decoded and compared exactly as close_on_matching_stateless_reset does
/// (DecoderBuffer::skip + decode::<Token>, HashMap keyed by Token, whose equality is constant time)
fn reset(input: &[V]) -> Vec<V> {
    use s2n_codec::DecoderBuffer;
    use s2n_quic_core::stateless_reset::{token::LEN, Token};
    let k = input.first().copied().unwrap_or(0) as usize;
    let body = bytes(input.get(1..).unwrap_or(&[]));
    let mut map: std::collections::HashMap<Token, usize> = std::collections::HashMap::new();
    let mut toks = vec![];
    for t in 0..k {
        let mut b = [0u8; LEN];
        for (x, y) in b.iter_mut().zip(body.iter().skip(t * LEN)) {
            *x = *y;
        }
        let tok = Token::from(b);
        toks.push(tok);
        map.entry(tok).or_insert(t + 1);
    }
    let payload = &body[(k * LEN).min(body.len())..];
    let mut f = || -> Option<usize> {
        let idx = payload.len().checked_sub(LEN)?;
        let buffer = DecoderBuffer::new(payload).skip(idx).ok()?;
        let (token, _) = buffer.decode::<Token>().ok()?;
        // the hash map lookup, cross-checked with a linear scan using Token's constant-time equality
        let hit = map.remove(&token);
        let lin = toks.iter().position(|t| *t == token).map(|p| p + 1);
        assert_eq!(hit, lin, "map and constant-time comparison disagree");
        hit
    };
    vec![f().unwrap_or(0) as V]
}

#[allow(dead_code)]
fn unused(_: PacketNumber) {}

fn main() {
    main_with(&[("hp", hp), ("nonce", nonce), ("consts", consts), ("rxpipe", rxpipe), ("reset", reset)]);
}
