//! C15: the real `KeySet<K>` driven with an ideal-AEAD key type: a key *is* its generation number,
//! a "ciphertext" carries the generation it was sealed under in its 8 byte tag, and `decrypt`
//! succeeds iff the key tried has that generation (a forged packet carries a generation that no
//! endpoint ever derives).  Packets are real short-header packets: they go through
//! `ProtectedPacket::decode`, `unprotect` and `KeySet::decrypt_packet`.
use h_common::{main_with, Cur, V};
use s2n_codec::{DecoderBufferMut, EncoderBuffer};
use s2n_quic_core::{
    connection::{id::ConnectionInfo, ProcessingError},
    crypto::{
        application::{limited::Limits, KeySet},
        packet_protection, scatter,
        testing::HeaderKey,
        tls::CipherSuite,
        Key, OneRttKey, ProtectedPayload,
    },
    inet::SocketAddress,
    packet::{encoding::PacketEncodingError, number::PacketNumberSpace, ProtectedPacket},
    time::Timestamp,
    transport,
    varint::VarInt,
};
use std::{
    sync::{
        atomic::{AtomicU64, Ordering},
        Arc,
    },
    time::Duration,
};

const FORGED: u64 = 1 << 48;
const DCID_LEN: usize = 4;
/// packet numbers are kept below 2^30 and durations below 2^32 so that every case is executable
const PN_MASK: u64 = (1 << 30) - 1;
const DUR_MASK: u64 = (1 << 32) - 1;

#[derive(Debug)]
struct GKey {
    gen: u64,
    conf: u64,
    integ: u64,
    derives: Arc<AtomicU64>,
}

impl Key for GKey {
    fn decrypt(&self, _pn: u64, _header: &[u8], payload: &mut [u8]) -> Result<(), packet_protection::Error> {
        let n = payload.len();
        if n < 8 {
            return Err(packet_protection::Error::DECRYPT_ERROR);
        }
        let mut t = [0u8; 8];
        t.copy_from_slice(&payload[n - 8..]);
        if u64::from_be_bytes(t) == self.gen {
            Ok(())
        } else {
            Err(packet_protection::Error::DECRYPT_ERROR)
        }
    }
    fn encrypt(&mut self, _pn: u64, _header: &[u8], payload: &mut scatter::Buffer) -> Result<(), packet_protection::Error> {
        payload.flatten();
        Ok(())
    }
    fn tag_len(&self) -> usize {
        8
    }
    fn aead_confidentiality_limit(&self) -> u64 {
        self.conf
    }
    fn aead_integrity_limit(&self) -> u64 {
        self.integ
    }
    fn cipher_suite(&self) -> CipherSuite {
        CipherSuite::Unknown
    }
}

impl OneRttKey for GKey {
    fn derive_next_key(&self) -> Self {
        self.derives.fetch_add(1, Ordering::SeqCst);
        GKey { gen: self.gen + 1, conf: self.conf, integ: self.integ, derives: self.derives.clone() }
    }
}

fn ts(us: u64) -> Timestamp {
    // microseconds since the epoch of the virtual clock (0 is rounded up to 1 by the type)
    unsafe { Timestamp::from_duration(Duration::from_micros(us)) }
}

struct Endpoint {
    ks: KeySet<GKey>,
    derives: Arc<AtomicU64>,
}

impl Endpoint {
    fn new(conf: u64, integ: u64, window: u64) -> Self {
        let derives = Arc::new(AtomicU64::new(0));
        let key = GKey { gen: 0, conf, integ, derives: derives.clone() };
        let mut limits = Limits::default();
        limits.key_update_window = window;
        let ks = KeySet::new(key, limits);
        // KeySet::new derives the first "next" key: not counted as an observable derivation
        derives.store(0, Ordering::SeqCst);
        Endpoint { ks, derives }
    }

    /// (code, phase, generation): code 0 = sealed, 1 = AeadLimitReached, 2 = other error
    fn encrypt(&mut self) -> (V, V, V) {
        let mut enc = [0u8; 64];
        let mut dec = [0u8; 64];
        let phase_before = self.ks.encryption_phase() as u8;
        let mut used: Option<(u8, u64)> = None;
        let buffer = EncoderBuffer::new(&mut enc);
        let r = self.ks.encrypt_packet(buffer, |buffer, key, phase| {
            used = Some((phase as u8, key.gen));
            Ok((ProtectedPayload::new(0, &mut dec), buffer))
        });
        match r {
            Ok(_) => {
                let (p, g) = used.expect("closure ran");
                (0, p as V, g as V)
            }
            Err(PacketEncodingError::AeadLimitReached(_)) => (1, phase_before as V, 0),
            Err(_) => (2, phase_before as V, 0),
        }
    }

    /// (code, generation reported): code 0 = ok, 1 = ok and the phase was rotated,
    /// 2 = decrypt error, 3 = AEAD_LIMIT_REACHED, 4 = any other error
    fn decrypt(&mut self, gen: u64, phase: u8, pn: u64, la: u64, pto: u64) -> (V, V) {
        let mut bytes = Vec::with_capacity(32);
        bytes.push(0x40u8 | ((phase & 1) << 2) | 0x03);
        bytes.extend_from_slice(&[0xc1; DCID_LEN]);
        bytes.extend_from_slice(&(pn as u32).to_be_bytes());
        bytes.push(0x01);
        bytes.extend_from_slice(&gen.to_be_bytes());
        let addr = SocketAddress::default();
        let info = ConnectionInfo::new(&addr);
        let (packet, _rest) = ProtectedPacket::decode(DecoderBufferMut::new(&mut bytes), &info, &DCID_LEN).expect("decodes");
        let short = match packet {
            ProtectedPacket::Short(s) => s,
            _ => panic!("not a short packet"),
        };
        let la = PacketNumberSpace::ApplicationData.new_packet_number(VarInt::new(la).expect("la"));
        let enc = short.unprotect(&HeaderKey::default(), la).expect("unprotect");
        assert_eq!(enc.packet_number.as_u64(), pn, "packet number expansion");
        match self.ks.decrypt_packet(enc, la, ts(pto)) {
            Ok((_, None)) => (0, 0),
            Ok((_, Some(g))) => (1, g as V),
            Err(ProcessingError::DecryptError) => (2, 0),
            Err(ProcessingError::ConnectionError(e)) => {
                let limit = transport::Error::AEAD_LIMIT_REACHED.code.as_u64();
                match e {
                    s2n_quic_core::connection::Error::Transport { code, .. } if code.as_u64() == limit => (3, 0),
                    _ => (4, 0),
                }
            }
            Err(_) => (4, 0),
        }
    }

    fn state(&mut self, out: &mut Vec<V>, full: bool) {
        out.push(self.ks.key_phase() as u8 as V);
        out.push(self.ks.active_key_mut().key_mut().gen as V);
        if full {
            out.push(self.ks.active_key().encrypted_packets() as V);
            out.push(self.ks.encryption_phase() as u8 as V);
        }
        out.push(self.ks.key_update_in_progress() as V);
        if full {
            out.push(self.derives.load(Ordering::SeqCst) as V);
        }
    }
}

/// single endpoint.  input: conf_limit integ_limit window, then ops
///   0                    encrypt                         -> code phase gen
///   1 g p pn la pto      decrypt packet sealed under g   -> code reported_generation
///   _ now                on_timeout(now)                 ->
/// each followed by: key_phase active_gen active_encrypted encryption_phase armed derive_count
fn ks(input: &[V]) -> Vec<V> {
    let mut c = Cur::new(input);
    let (conf, integ, window) = (c.u64(), c.u64(), c.u64());
    let mut e = Endpoint::new(conf, integ, window);
    let mut out = vec![];
    while !c.done() {
        match c.next() {
            0 => {
                let (code, p, g) = e.encrypt();
                out.extend_from_slice(&[code, p, g]);
            }
            1 => {
                let (g, p, pn, la, pto) = (c.u64(), c.u64(), c.u64() & PN_MASK, c.u64() & PN_MASK, c.u64());
                let (code, rg) = e.decrypt(g, (p & 1) as u8, pn, la, pto);
                out.extend_from_slice(&[code, rg]);
            }
            _ => {
                let now = c.u64();
                e.ks.on_timeout(ts(now));
            }
        }
        e.state(&mut out, true);
    }
    out
}

/// two endpoints exchanging packets through a network that may drop, duplicate and reorder.
/// input: conf_limit integ_limit window pto, then ops
///   0 e        endpoint e seals its next packet number         -> code phase gen
///   1 e i      deliver to e packet i (mod #sent) of its peer    -> code reported_generation  (5 0 if nothing was sent)
///   2 dt       time advances by dt, timers of both run         ->
///   _ e p pn   a forged packet with phase bit p reaches e      -> code reported_generation
/// each followed by, for A then B: key_phase active_gen armed
fn duo(input: &[V]) -> Vec<V> {
    let mut c = Cur::new(input);
    let (conf, integ, window, pto) = (c.u64(), c.u64(), c.u64(), c.u64() & DUR_MASK);
    let mut eps = [Endpoint::new(conf, integ, window), Endpoint::new(conf, integ, window)];
    // packets sealed by each endpoint: (generation, phase), the index is the packet number
    let mut sent: [Vec<(u64, u8)>; 2] = [vec![], vec![]];
    let mut largest: [u64; 2] = [0, 0];
    let mut now: u64 = 1;
    let mut out = vec![];
    while !c.done() {
        match c.next() {
            0 => {
                let e = (c.u64() & 1) as usize;
                let (code, p, g) = eps[e].encrypt();
                if code == 0 {
                    sent[e].push((g as u64, p as u8));
                }
                out.extend_from_slice(&[code, p, g]);
            }
            1 => {
                let e = (c.u64() & 1) as usize;
                let i = c.u64();
                let peer = &sent[1 - e];
                if peer.is_empty() {
                    out.extend_from_slice(&[5, 0]);
                } else {
                    let pn = i % peer.len() as u64;
                    let (g, p) = peer[pn as usize];
                    let (code, rg) = eps[e].decrypt(g, p, pn, largest[e], now + pto);
                    if code <= 1 {
                        largest[e] = largest[e].max(pn);
                    }
                    out.extend_from_slice(&[code, rg]);
                }
            }
            2 => {
                let dt = c.u64() & DUR_MASK;
                now += dt;
                eps[0].ks.on_timeout(ts(now));
                eps[1].ks.on_timeout(ts(now));
            }
            _ => {
                let e = (c.u64() & 1) as usize;
                let p = c.u64();
                let pn = c.u64() & PN_MASK;
                let (code, rg) = eps[e].decrypt(FORGED, (p & 1) as u8, pn, largest[e], now + pto);
                out.extend_from_slice(&[code, rg]);
            }
        }
        eps[0].state(&mut out, false);
        eps[1].state(&mut out, false);
    }
    out
}

/// many complete peer-driven key updates on a fresh endpoint.
/// input: conf_limit integ_limit window n   (n is taken modulo 2^17)
/// each cycle i = 1..n: a genuine packet of generation i (phase bit i mod 2) is opened, then the
/// derivation timer fires.  output: panicked(0/1) cycles_completed packets_opened
/// last_reported_generation key_phase active_gen armed derive_count
fn rot(input: &[V]) -> Vec<V> {
    let mut c = Cur::new(input);
    let (conf, integ, window) = (c.u64(), c.u64(), c.u64());
    let n = c.u64() & ((1 << 17) - 1);
    let mut e = Endpoint::new(conf, integ, window);
    let (mut done, mut opened, mut last, mut panicked) = (0u64, 0u64, 0 as V, 0 as V);
    for i in 1..=n {
        let r = std::panic::catch_unwind(std::panic::AssertUnwindSafe(|| {
            let r = e.decrypt(i, (i & 1) as u8, 1, 0, 1);
            e.ks.on_timeout(ts(1));
            r
        }));
        match r {
            Ok((code, g)) => {
                done += 1;
                if code <= 1 {
                    opened += 1;
                }
                if code == 1 {
                    last = g;
                }
            }
            Err(_) => {
                panicked = 1;
                break;
            }
        }
    }
    let mut out = vec![panicked, done as V, opened as V, last];
    e.state(&mut out, false);
    out.push(e.derives.load(Ordering::SeqCst) as V);
    out
}

fn main() {
    main_with(&[("ks", ks), ("duo", duo), ("rot", rot)]);
}
