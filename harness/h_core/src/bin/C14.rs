//! C14 -- transport parameters validated and applied exactly as RFC 9000 specifies.
//!
//! component `tp`: case = role :: block bytes
//!   role 0: the block is a client's parameters (decoded by a server as `ClientTransportParameters`)
//!   role _: the block is a server's parameters (decoded by a client as `ServerTransportParameters`)
//! output: `[0, kind]` on rejection (kind 1 = UnexpectedEof, 2 = UnexpectedBytes,
//!   3 = LengthCapacityExceeded, 4 = InvariantViolation), otherwise `1` followed by every field of the
//!   decoded record in canonical integers and then what the public derivations
//!   (`flow_control_limits`, `ack_settings`, `datagram_limits`, `zero_rtt_parameters`,
//!   `Limits::load_peer`) make of it.
use h_common::{main_with, V};
use s2n_codec::{DecoderBuffer, DecoderError};
use s2n_quic_core::{
    connection::limits::Limits,
    transport::parameters::{
        ClientTransportParameters, MigrationSupport, MtuProbingCompleteSupport, PreferredAddress,
        ServerTransportParameters, TransportParameters,
    },
};

const CK_MOD: u128 = 2305843009213693951; // 2^61 - 1

/// checksum of a byte string: h <- (h * 257 + b + 1) mod (2^61 - 1), starting from 0
fn ck(bytes: &[u8]) -> V {
    let mut h: u128 = 0;
    for b in bytes {
        h = (h * 257 + (*b as u128) + 1) % CK_MOD;
    }
    h as V
}

fn be(bytes: &[u8]) -> V {
    let mut h: V = 0;
    for b in bytes {
        h = h * 256 + (*b as V);
    }
    h
}

fn err_kind(e: DecoderError) -> V {
    match e {
        DecoderError::UnexpectedEof(_) => 1,
        DecoderError::UnexpectedBytes(_) => 2,
        DecoderError::LengthCapacityExceeded => 3,
        DecoderError::InvariantViolation(_) => 4,
    }
}

/// the role-independent fields
fn common<A, B, C, D>(p: &TransportParameters<A, B, C, D>, out: &mut Vec<V>) {
    out.push(p.max_idle_timeout.as_u64() as V);
    out.push(p.max_udp_payload_size.as_u64() as V);
    out.push(p.initial_max_data.as_u64() as V);
    out.push(p.initial_max_stream_data_bidi_local.as_u64() as V);
    out.push(p.initial_max_stream_data_bidi_remote.as_u64() as V);
    out.push(p.initial_max_stream_data_uni.as_u64() as V);
    out.push(p.initial_max_streams_bidi.as_u64() as V);
    out.push(p.initial_max_streams_uni.as_u64() as V);
    out.push(p.max_datagram_frame_size.as_u64() as V);
    out.push(*p.ack_delay_exponent as V);
    out.push(p.max_ack_delay.as_u64() as V);
    out.push(match p.migration_support {
        MigrationSupport::Enabled => 0,
        MigrationSupport::Disabled => 1,
    });
    out.push(p.active_connection_id_limit.as_u64() as V);
}

fn opt_cid(v: Option<&[u8]>, out: &mut Vec<V>) {
    match v {
        None => out.extend([0, 0, 0]),
        Some(b) => out.extend([1, b.len() as V, ck(b)]),
    }
}

fn preferred(v: Option<&PreferredAddress>, out: &mut Vec<V>) {
    match v {
        None => out.extend([0; 10]),
        Some(pa) => {
            out.push(1);
            match pa.ipv4_address.as_ref() {
                None => out.extend([0, 0, 0]),
                Some(a) => out.extend([1, be(a.ip().as_bytes()), a.port() as V]),
            }
            match pa.ipv6_address.as_ref() {
                None => out.extend([0, 0, 0]),
                Some(a) => out.extend([1, ck(a.ip().as_bytes()), a.port() as V]),
            }
            out.push(pa.connection_id.len() as V);
            out.push(ck(pa.connection_id.as_bytes()));
            out.push(ck(pa.stateless_reset_token.as_ref()));
        }
    }
}

fn tail<A, B, C, D>(p: &TransportParameters<A, B, C, D>, out: &mut Vec<V>) {
    let vs: Vec<u32> = (&p.dc_supported_versions).into_iter().copied().collect();
    out.push(vs.len() as V);
    for i in 0..4 {
        out.push(vs.get(i).copied().unwrap_or(0) as V);
    }
    out.push(match p.mtu_probing_complete_support {
        MtuProbingCompleteSupport::Enabled => 1,
        MtuProbingCompleteSupport::Disabled => 0,
    });
    // derived values
    let f = p.flow_control_limits();
    out.push(f.max_data.as_u64() as V);
    out.push(f.stream_limits.max_data_bidi_local.as_u64() as V);
    out.push(f.stream_limits.max_data_bidi_remote.as_u64() as V);
    out.push(f.stream_limits.max_data_uni.as_u64() as V);
    out.push(f.max_open_remote_bidirectional_streams.as_u64() as V);
    out.push(f.max_open_remote_unidirectional_streams.as_u64() as V);
    let a = p.ack_settings();
    out.push(a.max_ack_delay.as_micros() as V);
    out.push(a.ack_delay_exponent as V);
    out.push(p.datagram_limits().max_datagram_payload as V);
    let z = p.zero_rtt_parameters();
    out.push(z.active_connection_id_limit.as_u64() as V);
    out.push(z.max_datagram_frame_size.as_u64() as V);
    // Limits::load_peer on the library's default limits: the idle timeout the connection runs with
    let mut l = Limits::new();
    let before = l.max_idle_timeout().map(|d| d.as_millis() as V).unwrap_or(0);
    l.load_peer(p);
    out.push(before);
    out.push(l.max_idle_timeout().map(|d| d.as_millis() as V).unwrap_or(0));
}

fn tp(input: &[V]) -> Vec<V> {
    let role = input.first().copied().unwrap_or(0);
    let bytes: Vec<u8> = input.iter().skip(1).map(|v| *v as u8).collect();
    let buf = DecoderBuffer::new(&bytes);
    let mut out = vec![];
    if role == 0 {
        match buf.decode::<ClientTransportParameters>() {
            Err(e) => return vec![0, err_kind(e)],
            Ok((p, rest)) => {
                out.push(1);
                assert!(rest.is_empty());
                common(&p, &mut out);
                opt_cid(None, &mut out);
                opt_cid(None, &mut out); // stateless reset token slot: flag, 16, checksum
                preferred(None, &mut out);
                opt_cid(
                    p.initial_source_connection_id.as_ref().map(|c| c.as_bytes()),
                    &mut out,
                );
                opt_cid(None, &mut out);
                tail(&p, &mut out);
            }
        }
    } else {
        match buf.decode::<ServerTransportParameters>() {
            Err(e) => return vec![0, err_kind(e)],
            Ok((p, rest)) => {
                out.push(1);
                assert!(rest.is_empty());
                common(&p, &mut out);
                opt_cid(
                    p.original_destination_connection_id.as_ref().map(|c| c.as_bytes()),
                    &mut out,
                );
                opt_cid(p.stateless_reset_token.as_ref().map(|t| t.as_ref()), &mut out);
                preferred(p.preferred_address.as_ref(), &mut out);
                opt_cid(
                    p.initial_source_connection_id.as_ref().map(|c| c.as_bytes()),
                    &mut out,
                );
                opt_cid(
                    p.retry_source_connection_id.as_ref().map(|c| c.as_bytes()),
                    &mut out,
                );
                tail(&p, &mut out);
            }
        }
    }
    out
}

fn main() {
    main_with(&[("tp", tp)]);
}
