//! C16 (range sets part): drives the real SlidingWindow / IntervalSet / ack::Ranges / packet number Map
//! of s2n_quic_core through their public API and prints every observable, including the full
//! contents after each operation.
use h_common::{main_with, Cur, V};
use s2n_quic_core::{
    ack,
    interval_set::{IntervalSet, IntervalSetError},
    packet::number::{
        Map, PacketNumber, PacketNumberRange, PacketNumberSpace, SlidingWindow, SlidingWindowError,
    },
    varint::VarInt,
};

const VMAX: u64 = (1 << 62) - 1;

fn pn(v: u64) -> PacketNumber {
    PacketNumberSpace::ApplicationData
        .new_packet_number(VarInt::new(v).expect("generator keeps packet numbers below 2^62"))
}

fn sw_code<T>(r: &Result<T, SlidingWindowError>) -> V {
    match r {
        Ok(_) => 0,
        Err(SlidingWindowError::Duplicate) => 1,
        Err(SlidingWindowError::TooOld) => 2,
    }
}

/// sw: pairs [op, pn]; op 0 = insert_with_evicted, 1 = check, other = insert.
/// output per op: code; for op 0 with Ok: n, evicted...; then the dump over
/// [hi-130, min(hi+1, 2^62-1)] (hi = largest pn named so far): number of Duplicate answers,
/// those packet numbers, number of TooOld answers.
fn sw(input: &[V]) -> Vec<V> {
    let mut w = SlidingWindow::default();
    let mut out = vec![];
    let mut hi = 0u64;
    let mut c = Cur::new(input);
    while c.i + 1 < input.len() {
        let op = c.next();
        let v = c.u64();
        hi = hi.max(v);
        match op {
            0 => {
                let r = w.insert_with_evicted(pn(v));
                out.push(sw_code(&r));
                if let Ok(ev) = r {
                    let l: Vec<V> = ev.map(|p| p.as_u64() as V).collect();
                    out.push(l.len() as V);
                    out.extend(l);
                }
            }
            1 => out.push(sw_code(&w.check(pn(v)))),
            _ => out.push(sw_code(&w.insert(pn(v)))),
        }
        let lo = hi.saturating_sub(130);
        let top = (hi + 1).min(VMAX);
        let mut dups = vec![];
        let mut olds = 0;
        for x in lo..=top {
            match w.check(pn(x)) {
                Ok(()) => {}
                Err(SlidingWindowError::Duplicate) => dups.push(x as V),
                Err(SlidingWindowError::TooOld) => olds += 1,
            }
        }
        out.push(dups.len() as V);
        out.extend(dups);
        out.push(olds);
    }
    out
}

fn is_code(r: Result<(), IntervalSetError>) -> V {
    match r {
        Ok(()) => 0,
        Err(IntervalSetError::LimitExceeded) => 1,
        Err(IntervalSetError::InvalidInterval) => 2,
    }
}

fn iset_dump(a: &IntervalSet<u64>, out: &mut Vec<V>) {
    out.push(a.interval_len() as V);
    for i in a.intervals() {
        out.push(i.start_inclusive() as V);
        out.push(i.end_inclusive() as V);
    }
    out.push(a.min_value().map_or(-1, |v| v as V));
    out.push(a.max_value().map_or(-1, |v| v as V));
}

/// iset: IntervalSet<u64>; triples [op, a, b] (see coq/model/IntervalSet.v for the op table);
/// output per op: result, then the dump of the first set
fn iset(input: &[V]) -> Vec<V> {
    let mut a = IntervalSet::<u64>::new();
    let mut b = IntervalSet::<u64>::new();
    let mut out = vec![];
    let mut c = Cur::new(input);
    while c.i + 2 < input.len() {
        let op = c.next();
        let x = c.u64();
        let y = c.u64();
        match op {
            0 => out.push(is_code(a.insert(x..=y))),
            1 => out.push(is_code(a.remove(x..=y))),
            2 => out.push(a.contains(&x) as V),
            3 => match a.pop_min() {
                Some(i) => {
                    out.push(1);
                    out.push(i.start_inclusive() as V);
                    out.push(i.end_inclusive() as V);
                }
                None => out.push(0),
            },
            4 => out.push(is_code(a.insert_front(x..=y))),
            5 => match core::num::NonZeroUsize::new(x as usize) {
                Some(l) => a.set_limit(l),
                None => a.remove_limit(),
            },
            6 => out.push(is_code(b.insert(x..=y))),
            _ => match x {
                0 => out.push(is_code(a.union(&b))),
                1 => out.push(is_code(a.difference(&b))),
                2 => out.push(is_code(a.intersection(&b))),
                _ => b.clear(),
            },
        }
        iset_dump(&a, &mut out);
    }
    out
}

fn ack_dump(a: &ack::Ranges, out: &mut Vec<V>) {
    out.push(a.interval_len() as V);
    for i in a.intervals() {
        out.push(i.start_inclusive().as_u64() as V);
        out.push(i.end_inclusive().as_u64() as V);
    }
    out.push(a.min_value().map_or(-1, |v| v.as_u64() as V));
    out.push(a.max_value().map_or(-1, |v| v.as_u64() as V));
    out.push(a.spread() as V);
}

fn ack_res(r: Result<(), ack::ranges::Error>, out: &mut Vec<V>) {
    match r {
        Ok(()) => out.push(0),
        Err(ack::ranges::Error::RangeInsertionFailed { min, max }) => {
            out.extend([1, min.as_u64() as V, max.as_u64() as V])
        }
        Err(ack::ranges::Error::LowestRangeDropped { min, max }) => {
            out.extend([2, min.as_u64() as V, max.as_u64() as V])
        }
    }
}

/// ack: ack::Ranges; case = limit, then triples [op, a, b] (op table in coq/model/AckRanges.v)
fn ack(input: &[V]) -> Vec<V> {
    let mut out = vec![];
    if input.is_empty() {
        return out;
    }
    let mut c = Cur::new(input);
    let limit = (c.u64() as usize).max(1);
    let mut a = ack::Ranges::new(limit);
    while c.i + 2 < input.len() {
        let op = c.next();
        let x = c.u64();
        let y = c.u64();
        match op {
            0 => {
                if y < x {
                    out.push(-1)
                } else {
                    ack_res(
                        a.insert_packet_number_range(PacketNumberRange::new(pn(x), pn(y))),
                        &mut out,
                    )
                }
            }
            1 => ack_res(a.insert_packet_number(pn(x)), &mut out),
            2 => out.push(a.contains(&pn(x)) as V),
            3 => out.push(is_code(a.remove(pn(x)..=pn(y)))),
            _ => match a.pop_min() {
                Some(i) => out.extend([
                    1,
                    i.start_inclusive().as_u64() as V,
                    i.end_inclusive().as_u64() as V,
                ]),
                None => out.push(0),
            },
        }
        ack_dump(&a, &mut out);
    }
    out
}

fn opt_v(o: Option<u64>, out: &mut Vec<V>) {
    match o {
        Some(v) => out.extend([1, v as V]),
        None => out.push(0),
    }
}

/// pnmap: packet number Map<u64>; triples [op, a, b] (op table in coq/model/PnMap.v)
fn pnmap(input: &[V]) -> Vec<V> {
    let mut m: Map<u64> = Map::default();
    let mut out = vec![];
    let mut c = Cur::new(input);
    while c.i + 2 < input.len() {
        let op = c.next();
        let x = c.u64();
        let y = c.u64();
        match op {
            0 => {
                let ok = m.is_empty() || {
                    let r = m.get_range();
                    x > r.end().as_u64() && x - r.start().as_u64() <= 4096
                };
                if ok {
                    m.insert(pn(x), y);
                    out.push(0)
                } else {
                    out.push(-2)
                }
            }
            1 => {
                let ok = m.is_empty() || {
                    let r = m.get_range();
                    x >= r.start().as_u64() && x - r.start().as_u64() <= 4096
                };
                if ok {
                    m.insert_or_update(pn(x), y, |p| *p = p.wrapping_mul(31).wrapping_add(y));
                    out.push(0)
                } else {
                    out.push(-2)
                }
            }
            2 => opt_v(m.get(pn(x)).copied(), &mut out),
            3 => opt_v(m.remove(pn(x)), &mut out),
            4 => {
                if y < x {
                    out.push(-2)
                } else {
                    let l: Vec<(PacketNumber, u64)> =
                        m.remove_range(PacketNumberRange::new(pn(x), pn(y))).collect();
                    out.push(l.len() as V);
                    for (p, v) in l {
                        out.push(p.as_u64() as V);
                        out.push(v as V);
                    }
                }
            }
            _ => m.clear(),
        }
        if m.is_empty() {
            out.push(1);
        } else {
            let r = m.get_range();
            out.extend([0, r.start().as_u64() as V, r.end().as_u64() as V]);
        }
        let l: Vec<(PacketNumber, u64)> = m.iter().map(|(p, v)| (p, *v)).collect();
        out.push(l.len() as V);
        for (p, v) in l {
            out.push(p.as_u64() as V);
            out.push(v as V);
        }
    }
    out
}

fn main() {
    main_with(&[("sw", sw), ("iset", iset), ("ack", ack), ("pnmap", pnmap)]);
}
