//! C01 / C16 (reassembly buffer): drives the real `s2n_quic_core::buffer::Reassembler` through its public
//! API with position-keyed payload and prints every observable after every operation.
use h_common::{main_with, Cur, V};
use s2n_quic_core::{
    buffer::{
        reader::{self, storage::Chunk},
        writer, Error, Reader, Reassembler,
    },
    varint::VarInt,
};

const VMAX: u64 = (1 << 62) - 1;
const MAX_LEN: u64 = 100_000;

// ---- payload: the same function as coq/model/Reassembler.v (mix64 / blockkey / pbyte / cks) ----
fn mix64(mut x: u64) -> u64 {
    x ^= x >> 30;
    x = x.wrapping_mul(0xBF58476D1CE4E5B9);
    x ^= x >> 27;
    x = x.wrapping_mul(0x94D049BB133111EB);
    x ^ (x >> 31)
}
fn blockkey(key: u64, q: u64) -> u64 {
    mix64(q.wrapping_add(key.wrapping_mul(0x9E3779B97F4A7C15)))
}
fn table(salt: u64) -> [u8; 256] {
    let bk = blockkey((salt & 0xffff_ffff) * 4, 1 << 56);
    let a = (bk & 65535) | 1;
    let b = (bk >> 16) & 255;
    let c = (bk >> 24) & 255;
    let mut t = [0u8; 256];
    for (j, e) in t.iter_mut().enumerate() {
        let x = ((j as u64 + b + 1) * a) & 65535;
        *e = (((x >> 8) ^ x ^ c) & 255) as u8;
    }
    t
}
fn gen_bytes(t: &[u8; 256], key: u64, off: u64, len: u64) -> Vec<u8> {
    let mut v = Vec::with_capacity(len as usize);
    let mut bk = blockkey(key, off >> 8);
    for p in off..off + len {
        if p & 255 == 0 {
            bk = blockkey(key, p >> 8);
        }
        let b = (bk >> 16) & 255;
        let c = ((bk >> 24) & 255) as u8;
        v.push(t[(((p & 255) + b) & 255) as usize] ^ c);
    }
    v
}
/// s1 = sum of (b + 1), s2 = sum of the running s1; reported as s1 + 2^25 s2
fn cks(data: &[u8]) -> V {
    let mut s1 = 0u64;
    let mut s2 = 0u64;
    for b in data {
        s1 += *b as u64 + 1;
        s2 += s1;
    }
    s1 as V + (s2 as V) * (1 << 25)
}

/// a reader whose final offset may lie beyond its buffered data (op 6); otherwise like
/// reassembler::request::Request (which is private)
struct Req<'a> {
    offset: u64,
    data: &'a [u8],
    fin: Option<VarInt>,
}

impl reader::Storage for Req<'_> {
    type Error = core::convert::Infallible;

    fn buffered_len(&self) -> usize {
        self.data.len()
    }

    fn read_chunk(&mut self, watermark: usize) -> Result<Chunk<'_>, Self::Error> {
        let chunk = self.data.read_chunk(watermark)?;
        self.offset += chunk.len() as u64;
        Ok(chunk)
    }

    fn partial_copy_into<Dest>(&mut self, dest: &mut Dest) -> Result<Chunk<'_>, Self::Error>
    where
        Dest: writer::Storage + ?Sized,
    {
        let mut dest = dest.track_write();
        let chunk = self.data.partial_copy_into(&mut dest)?;
        self.offset += chunk.len() as u64;
        self.offset += dest.written_len() as u64;
        Ok(chunk)
    }

    fn copy_into<Dest>(&mut self, dest: &mut Dest) -> Result<(), Self::Error>
    where
        Dest: writer::Storage + ?Sized,
    {
        let mut dest = dest.track_write();
        self.data.copy_into(&mut dest)?;
        self.offset += dest.written_len() as u64;
        Ok(())
    }
}

impl Reader for Req<'_> {
    fn current_offset(&self) -> VarInt {
        VarInt::new(self.offset).unwrap()
    }

    fn final_offset(&self) -> Option<VarInt> {
        self.fin
    }
}

fn code<E>(r: Result<(), Error<E>>) -> V {
    match r {
        Ok(()) => 0,
        Err(Error::OutOfRange) => 1,
        Err(Error::InvalidFin) => 2,
        Err(Error::ReaderError(_)) => 3,
    }
}

/// slot list through the public `Debug` output: `Slot { start, end, end_allocated, len, capacity }`;
/// a single -1 when that output cannot be read (the layout is then simply not compared)
fn dump_slots(b: &Reassembler, out: &mut Vec<V>) {
    fn field(rest: &str, name: &str) -> Option<V> {
        let j = rest.find(name)?;
        let t = &rest[j + name.len()..];
        let e = t.find(|c: char| !c.is_ascii_digit()).unwrap_or(t.len());
        t[..e].parse::<u64>().ok().map(|v| v as V)
    }
    let s = format!("{b:?}");
    let mut slots = vec![];
    let mut rest = s.as_str();
    while let Some(i) = rest.find("Slot {") {
        rest = &rest[i + 6..];
        match (field(rest, "start: "), field(rest, "end: "), field(rest, "end_allocated: ")) {
            (Some(a), Some(b), Some(c)) => slots.push([a, b, c]),
            _ => {
                out.push(-1);
                return;
            }
        }
    }
    out.push(slots.len() as V);
    for s in slots {
        out.extend_from_slice(&s);
    }
}

/// see coq/model/Reassembler.v part 4 for the case and output formats
fn reasm(input: &[V]) -> Vec<V> {
    let mut c = Cur::new(input);
    let salt = c.u64();
    let tab = table(salt);
    let mut b = Reassembler::new();
    let mut out = vec![];
    while !c.done() {
        let op = c.next();
        let (r0, r1): (V, V) = match op {
            0 | 1 | 6 => {
                let off = c.u64();
                let len = c.u64().min(MAX_LEN);
                let var = c.u64();
                let extra = if op == 6 { c.u64() } else { 0 };
                let key = (salt & 0xffff_ffff) * 4 + (var & 3);
                // off + len + extra as computed by the model (unbounded), saturated here
                let fin = off.saturating_add(len).saturating_add(extra);
                let fin_bad = op == 6 && (off as u128 + len as u128 + extra as u128) > VMAX as u128;
                if off > VMAX || fin_bad {
                    (1, 0)
                } else {
                    let data = gen_bytes(&tab, key, off, len);
                    let offv = VarInt::new(off).unwrap();
                    let r = match op {
                        0 => b.write_at(offv, &data),
                        1 => b.write_at_fin(offv, &data),
                        _ => {
                            // Request::new's range check, then the generic write_reader entry point
                            if offv.checked_add_usize(data.len()).is_none() {
                                Err(Error::OutOfRange)
                            } else {
                                let mut rd = Req { offset: off, data: &data, fin: Some(VarInt::new(fin).unwrap()) };
                                b.write_reader(&mut rd)
                            }
                        }
                    };
                    (code(r), 0)
                }
            }
            2 | 3 => {
                let chunk = if op == 2 {
                    b.pop()
                } else {
                    let w = c.u64();
                    b.pop_watermarked(w as usize)
                };
                match chunk {
                    Some(ch) => (ch.len() as V, cks(&ch) as V),
                    None => (0, 0),
                }
            }
            4 => {
                let n = c.u64();
                match VarInt::new(n) {
                    Ok(n) => (code(b.skip(n)), 0),
                    Err(_) => (1, 0),
                }
            }
            _ => {
                b.reset();
                (0, 0)
            }
        };
        out.push(r0);
        out.push(r1);
        let (len, chunks) = b.report();
        assert_eq!(len, b.len());
        out.push(len as V);
        out.push(b.consumed_len() as V);
        out.push(b.total_received_len() as V);
        out.push(b.final_size().map_or(-1, |f| f as V));
        out.push(b.is_writing_complete() as V + 2 * b.is_reading_complete() as V + 4 * b.is_empty() as V);
        out.push(chunks as V);
    }
    dump_slots(&b, &mut out);
    out
}

fn main() {
    main_with(&[("reasm", reasm)]);
}
