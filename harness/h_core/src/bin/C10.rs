//! C10: drives the real congestion controllers of s2n_quic_core through the public
//! `CongestionController` trait and prints the observables after construction and after every
//! operation.  Private state (f32 window, state kind, under_utilized, ...) is read from the
//! controller's public `Debug` rendering; a field that cannot be found is printed as -1.
//!
//! case = mds0 :: groups [code, a, b, c, dt]  (time advances by dt microseconds before the op)
//!   1 on_packet_sent(bytes = a, app_limited = b: 0 None, 1 Some(false), 2 Some(true))
//!   2 on_ack(bytes = a, newest acked packet sent b microseconds before now, rtt sample c)
//!   3 on_packet_lost(bytes = a, persistent = b, new_loss_burst = c)
//!   4 on_explicit_congestion(ce_count = a)
//!   5 on_mtu_update(a)
//!   6 on_packet_discarded(a)
//!   7 on_rtt_update(packet sent b microseconds before now, latest rtt sample c)  [ignored for BBR]
use core::time::Duration;
use h_common::{main_with, V};
use s2n_quic_core::{
    event, path,
    packet::number::PacketNumberSpace,
    random,
    recovery::{
        bbr::BbrCongestionController,
        congestion_controller::{CongestionController, PathPublisher},
        CubicCongestionController, RttEstimator,
    },
    time::{Clock, NoopClock, Timestamp},
};

fn ts(us: u64) -> Timestamp {
    // NoopClock's time is 1us after the epoch
    NoopClock.get_time() + Duration::from_micros(us)
}

/// the text of top-level field `name` of a derived Debug rendering `Type { a: .., b: .. }`
fn field<'a>(dbg: &'a str, name: &str) -> Option<&'a str> {
    let bytes = dbg.as_bytes();
    let mut depth = 0i32;
    let mut i = 0;
    let pat = format!("{name}: ");
    while i < bytes.len() {
        match bytes[i] {
            b'{' | b'(' | b'[' => depth += 1,
            b'}' | b')' | b']' => depth -= 1,
            _ => {}
        }
        if depth == 1 && dbg[i..].starts_with(&pat) {
            let prev = if i == 0 { b' ' } else { bytes[i - 1] };
            if prev == b' ' || prev == b'{' {
                let start = i + pat.len();
                let mut d = 0i32;
                let mut j = start;
                while j < bytes.len() {
                    match bytes[j] {
                        b'{' | b'(' | b'[' => d += 1,
                        b'}' | b')' | b']' => {
                            if d == 0 {
                                break;
                            }
                            d -= 1
                        }
                        b',' if d == 0 => break,
                        _ => {}
                    }
                    j += 1;
                }
                return Some(dbg[start..j].trim());
            }
        }
        i += 1;
    }
    None
}

/// an f32 rendered by Debug, as an exact integer number of 1/4096; -1 when that is not possible
fn fx(text: Option<&str>) -> V {
    let Some(t) = text else { return -1 };
    let Ok(f) = t.parse::<f32>() else { return -1 };
    if !f.is_finite() || f < 0.0 {
        return -1;
    }
    let scaled = f as f64 * 4096.0;
    if scaled.fract() != 0.0 || scaled >= 1e30 {
        return -1;
    }
    scaled as V
}

struct Env {
    rtt: RttEstimator,
    rnd: random::testing::Generator,
    now: u64,
}

/// drives one controller; `info` is the PacketInfo of the most recently sent packet
fn drive<CC: CongestionController>(
    cc: &mut CC,
    input: &[V],
    observe: &dyn Fn(&CC) -> Vec<V>,
    default_info: CC::PacketInfo,
) -> Vec<V>
where
    CC::PacketInfo: Copy,
{
    let mut publisher = event::testing::Publisher::no_snapshot();
    let mut publisher = PathPublisher::new(&mut publisher, path::Id::test_id());
    let mut env = Env {
        rtt: RttEstimator::default(),
        rnd: random::testing::Generator::default(),
        now: 0,
    };
    let mut info = default_info;
    let mut out = observe(cc);
    let mut i = 0;
    while i + 5 <= input.len() {
        let (code, a, b, c, dt) = (input[i], input[i + 1], input[i + 2], input[i + 3], input[i + 4]);
        i += 5;
        env.now += dt as u64;
        let now = ts(env.now);
        match code {
            1 => {
                let app = match b {
                    0 => None,
                    1 => Some(false),
                    _ => Some(true),
                };
                info = cc.on_packet_sent(now, a as usize, app, &env.rtt, &mut publisher);
            }
            2 => {
                let back = (b as u64).min(env.now);
                let sent = ts(env.now - back);
                env.rtt.update_rtt(
                    Duration::ZERO,
                    Duration::from_micros(c as u64),
                    now,
                    true,
                    PacketNumberSpace::ApplicationData,
                );
                cc.on_ack(sent, a as usize, info, &env.rtt, &mut env.rnd, now, &mut publisher);
            }
            3 => cc.on_packet_lost(a as u32, info, b != 0, c != 0, &mut env.rnd, now, &mut publisher),
            4 => cc.on_explicit_congestion(a as u64, now, &mut publisher),
            5 => cc.on_mtu_update(a as u16, &mut publisher),
            6 => cc.on_packet_discarded(a as usize, &mut publisher),
            7 => {
                let back = (b as u64).min(env.now);
                let sent = ts(env.now - back);
                env.rtt.update_rtt(
                    Duration::ZERO,
                    Duration::from_micros((c as u64).max(1)),
                    now,
                    true,
                    PacketNumberSpace::ApplicationData,
                );
                cc.on_rtt_update(sent, now, &env.rtt, &mut publisher);
            }
            _ => {}
        }
        out.extend(observe(cc));
    }
    out
}

fn cubic_row(cc: &CubicCongestionController) -> Vec<V> {
    let dbg = format!("{cc:?}");
    let st = match field(&dbg, "state") {
        Some("SlowStart") => 0,
        Some(s) if s.starts_with("Recovery(") && s.ends_with("Idle)") => 1,
        Some(s) if s.starts_with("Recovery(") && s.ends_with("RequiresTransmission)") => 2,
        Some(s) if s.starts_with("CongestionAvoidance(") => 3,
        _ => -1,
    };
    let uu = match field(&dbg, "under_utilized") {
        Some("true") => 1,
        Some("false") => 0,
        _ => -1,
    };
    vec![
        cc.congestion_window() as V,
        cc.bytes_in_flight() as V,
        fx(field(&dbg, "congestion_window")),
        st,
        uu,
        cc.requires_fast_retransmission() as V,
        cc.is_congestion_limited() as V,
        fx(field(&dbg, "slow_start").and_then(|t| field(t, "threshold"))),
        num(field(&dbg, "slow_start").and_then(|t| field(t, "sample_count"))),
    ]
}

fn cubic(input: &[V]) -> Vec<V> {
    if input.is_empty() {
        return vec![];
    }
    let mut cc = CubicCongestionController::new(input[0] as u16, Default::default());
    drive(&mut cc, &input[1..], &cubic_row, ())
}

fn num(text: Option<&str>) -> V {
    text.and_then(|t| t.parse::<u128>().ok()).map(|v| v as V).unwrap_or(-1)
}

/// BBR row (13 values): congestion_window(), bytes_in_flight(), is_congestion_limited(),
/// requires_fast_retransmission(), state kind (0 Startup, 1 Drain, 2 ProbeBw Down, 3 Cruise,
/// 4 Refill, 5 Up, 6 ProbeRtt), filled_pipe, prior_cwnd, inflight_hi, inflight_lo,
/// delivered_bytes, lost_bytes, app limited, recovery (0 Recovered, 1 Recovering idle,
/// 2 Recovering requiring a transmission).  Private fields come from the Debug rendering (-1 unknown).
fn bbr_row(cc: &BbrCongestionController) -> Vec<V> {
    let dbg = format!("{cc:?}");
    let st = match field(&dbg, "state") {
        Some("Startup") => 0,
        Some("Drain") => 1,
        Some(s) if s.starts_with("ProbeRtt(") => 6,
        Some(s) if s.starts_with("ProbeBw(") => {
            let inner = &s["ProbeBw(".len()..s.len() - 1];
            match field(inner, "cycle_phase") {
                Some("Down") => 2,
                Some("Cruise") => 3,
                Some("Refill") => 4,
                Some("Up") => 5,
                _ => -1,
            }
        }
        _ => -1,
    };
    let b = |t: Option<&str>| match t {
        Some("true") => 1,
        Some("false") => 0,
        _ => -1,
    };
    let dv = field(&dbg, "data_volume_model");
    let bw = field(&dbg, "bw_estimator");
    let rec = match field(&dbg, "recovery_state") {
        Some("Recovered") => 0,
        Some(s) if s.starts_with("Recovering(") && s.ends_with("RequiresTransmission)") => 2,
        Some(s) if s.starts_with("Recovering(") && s.ends_with("Idle)") => 1,
        _ => -1,
    };
    let app = match bw.and_then(|t| field(t, "app_limited_delivered_bytes")) {
        Some("None") => 0,
        Some(s) if s.starts_with("Some(") => 1,
        _ => -1,
    };
    vec![
        cc.congestion_window() as V,
        cc.bytes_in_flight() as V,
        cc.is_congestion_limited() as V,
        cc.requires_fast_retransmission() as V,
        st,
        b(field(&dbg, "full_pipe_estimator").and_then(|t| field(t, "filled_pipe"))),
        num(field(&dbg, "prior_cwnd")),
        num(dv.and_then(|t| field(t, "inflight_hi"))),
        num(dv.and_then(|t| field(t, "inflight_lo"))),
        num(bw.and_then(|t| field(t, "delivered_bytes"))),
        num(bw.and_then(|t| field(t, "lost_bytes"))),
        app,
        rec,
    ]
}

/// BBR: same case format.  The PacketInfo and send time handed to on_ack / on_packet_lost are
/// those of a real outstanding packet: bytes are removed from the oldest outstanding packets
/// first and the last packet touched is "the newest acknowledged" one (field b of an ack is not used).
fn bbr(input: &[V]) -> Vec<V> {
    if input.is_empty() {
        return vec![];
    }
    let mut cc = BbrCongestionController::new(input[0] as u16, Default::default());
    let input = &input[1..];
    let mut publisher = event::testing::Publisher::no_snapshot();
    let mut publisher = PathPublisher::new(&mut publisher, path::Id::test_id());
    let mut rtt = RttEstimator::default();
    let mut rnd = random::testing::Generator::default();
    let mut now_us = 0u64;
    type Info = <BbrCongestionController as CongestionController>::PacketInfo;
    let mut queue: std::collections::VecDeque<(u64, u64, Info)> = Default::default(); // bytes left, sent time, info
    let mut last: Option<(u64, Info)> = None;
    let row = bbr_row;
    // removes `n` bytes from the oldest packets; returns the last packet touched
    fn take(queue: &mut std::collections::VecDeque<(u64, u64, Info)>, mut n: u64) -> Option<(u64, Info)> {
        let mut hit = None;
        while n > 0 {
            let Some(front) = queue.front_mut() else { break };
            hit = Some((front.1, front.2));
            if front.0 > n {
                front.0 -= n;
                n = 0;
            } else {
                n -= front.0;
                queue.pop_front();
            }
        }
        hit
    }
    let mut out = row(&cc);
    let mut i = 0;
    while i + 5 <= input.len() {
        let (code, a, b, c, dt) = (input[i], input[i + 1], input[i + 2], input[i + 3], input[i + 4]);
        i += 5;
        now_us += dt as u64;
        let now = ts(now_us);
        match code {
            1 => {
                let app = match b {
                    0 => None,
                    1 => Some(false),
                    _ => Some(true),
                };
                let info = cc.on_packet_sent(now, a as usize, app, &rtt, &mut publisher);
                if a > 0 {
                    queue.push_back((a as u64, now_us, info));
                }
                last = Some((now_us, info));
            }
            2 => {
                let hit = take(&mut queue, a as u64).or(last);
                if let Some((sent_us, info)) = hit {
                    let sent = ts(sent_us);
                    rtt.update_rtt(
                        Duration::ZERO,
                        Duration::from_micros(c as u64),
                        now,
                        true,
                        PacketNumberSpace::ApplicationData,
                    );
                    cc.on_rtt_update(sent, now, &rtt, &mut publisher);
                    cc.on_ack(sent, a as usize, info, &rtt, &mut rnd, now, &mut publisher);
                }
            }
            3 => {
                if let Some((_, info)) = take(&mut queue, a as u64).or(last) {
                    cc.on_packet_lost(a as u32, info, b != 0, c != 0, &mut rnd, now, &mut publisher);
                }
            }
            4 => cc.on_explicit_congestion(a as u64, now, &mut publisher),
            5 => cc.on_mtu_update(a as u16, &mut publisher),
            6 => {
                take(&mut queue, a as u64);
                cc.on_packet_discarded(a as usize, &mut publisher);
            }
            _ => {}
        }
        out.extend(row(&cc));
    }
    out
}

/// prints the Debug rendering's fields as seen by the parser (diagnostics only)
fn cubic_dbg(input: &[V]) -> Vec<V> {
    let cc = CubicCongestionController::new(input.first().copied().unwrap_or(1200) as u16, Default::default());
    eprintln!("{cc:?}");
    let _ = BbrCongestionController::new(1200, Default::default());
    cubic_row(&cc)
}

fn main() {
    main_with(&[("cubic", cubic), ("cubic_gate", cubic), ("bbr", bbr), ("cubic_dbg", cubic_dbg)]);
}
