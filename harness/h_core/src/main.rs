fn main() {}
